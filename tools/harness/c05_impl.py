#!/venv/bin/python
"""C05 implementation runner: energy transfer for arrival times around the NaN boundary.
stdin {"groups":[{"id","mode":"direct|indirect","Ei":si,"Ef":si,"L1":si,"L2":si,
                  "units":{"tof","L1","L2","E"},"dtypes":{"tof","L1","L2","E"},"ks":[ints],"extra":[factors],
                  "layout": "scalar" (default: L1, L2, E scalars) | "aligned" (L1, L2, E arrays along the tof dim),
                  "container": optional {"form": "DataArray"|"Dataset", "items": [{"kind": "dense"} |
                                {"kind": "binned", "order": permutation of the events, "begin": cuts into bins}]}
                               -> "convert_items": the energy transfer of EVERY item (per event for binned items)}]}
For each group the harness computes, WITH THE IMPLEMENTATION'S OWN ARITHMETIC, t0 of the fixed leg in
the tof unit/dtype, builds tof = [physical t, t0*(1+k*eps) for k in ks, t0*f for f in extra] and runs the kernel."""
import json, sys, math
from fractions import Fraction
import numpy as np
import scipp as sc
import scipp.constants as const
sys.path.insert(0, __file__.rsplit('/', 1)[0])
from kernels_impl import unit_info, exact, stored, describe_result
from scippneutron.conversion import tof as ktof


def events_in_order(var, n):
    """the per-event values of a binned variable, bin after bin (a dense Variable along 'event')"""
    c = var.bins.constituents
    data, begin, end = c['data'], np.asarray(c['begin'].values).reshape(-1), np.asarray(c['end'].values).reshape(-1)
    parts = [data[c['dim'], int(b):int(e)] for b, e in zip(begin, end)]
    out = sc.concat(parts, c['dim']) if parts else data[c['dim'], 0:0]
    if out.sizes[c['dim']] != n:
        raise ValueError(f'{out.sizes[c["dim"]]} events in the result for {n} events supplied')
    return out


def convert_containers(spec, tofv, L1, L2, E, ename):
    """scippneutron.convert on a CONTAINER holding the arrival times `tofv` (dim 't', n values): a DataArray of binned
    events or a Dataset of 1..3 items, each item dense (arrival times = the shared dense coordinate 'tof') or binned
    (n bins along 't'; the n arrival times are the event-wise 'tof' of the item, in the item's own order `order` and
    cut into bins at the item's own `begin`).  -> per item the energy transfer of arrival time i at position i (dim 't'),
    whatever the order / binning of the events."""
    import scippneutron as scn
    n = len(tofv)
    kinds = [it['kind'] for it in spec['items']]
    shared = {'L1': L1, 'L2': L2, ename: E}
    if 'dense' in kinds:
        shared['tof'] = tofv
    items, names = {}, []
    for j, it in enumerate(spec['items']):
        name = f'item{j}_{it["kind"]}'
        names.append(name)
        if it['kind'] == 'dense':
            items[name] = sc.DataArray(sc.ones(sizes={'t': n}) * float(j + 1), coords=shared)
        else:
            order = np.array([k for k in it['order'] if k < n] + [k for k in range(n) if k not in set(it['order'])])
            ev = sc.array(dims=['event'], values=np.asarray(tofv.values)[order], unit=tofv.unit, dtype=tofv.dtype)
            buf = sc.DataArray(sc.ones(sizes={'event': n}, unit='counts'), coords={'tof': ev})
            begin = sorted(min(int(b), n) for b in it['begin'])[:n]
            begin = ([0] + begin + [n] * n)[:n]
            data = sc.bins(data=buf, dim='event', begin=sc.array(dims=['t'], values=begin, unit=None, dtype='int64'))
            items[name] = sc.DataArray(data, coords=shared)
            it['_order'] = order
    if spec['form'] == 'DataArray':
        conv = {names[0]: scn.convert(items[names[0]], origin='tof', target='energy_transfer', scatter=True)}
    else:
        conv = scn.convert(sc.Dataset(items), origin='tof', target='energy_transfer', scatter=True)
    out = []
    for it, name in zip(spec['items'], names):
        rec = {'item': name, 'kind': it['kind']}
        try:
            c = conv[name]
            if it['kind'] == 'dense':
                rec['where'] = 'dense coordinate'
                rec['result'] = describe_result(c.coords['energy_transfer'])
            else:
                rec['where'] = 'event coordinate'
                rec['order'] = [int(k) for k in it['_order']]
                rec['begin'] = [int(b) for b in np.asarray(items[name].bins.constituents['begin'].values).reshape(-1)]
                if c.bins is None:
                    raise ValueError('the converted item is no longer binned')
                if 'energy_transfer' not in c.bins.coords:
                    raise KeyError('the events of the converted item carry no energy_transfer coordinate '
                                   f'(event coordinates: {sorted(c.bins.coords.keys())})')
                evs = events_in_order(c.bins.coords['energy_transfer'], n)
                vals = np.empty(n, dtype=evs.values.dtype)
                vals[it['_order']] = evs.values
                rec['result'] = describe_result(sc.array(dims=['t'], values=vals, unit=evs.unit, dtype=evs.dtype))
        except Exception as ex:
            rec['error'] = type(ex).__name__ + ': ' + str(ex)[:200]
        out.append(rec)
    return out


def main():
    req = json.load(sys.stdin)
    # earlier callers wrecked every graph the package handed them (see _poison.py); no effect unless state is shared
    import _poison
    _poison.poison_graph_factories()
    mn = const.m_n.value
    out = []
    for g in req['groups']:
        res = {'id': g['id']}
        u, d = g['units'], g['dtypes']
        def mk(si, unit, dt):
            mult = sc.to_unit(sc.scalar(1.0, unit=unit), sc.Unit(unit).to_dict() and base_of(unit)).value
            return sc.scalar(np.array(si / mult).astype(dt)[()], unit=unit, dtype=dt)
        def base_of(unit):
            dd = sc.Unit(unit).to_dict(); p = dd.get('powers', {})
            un = sc.Unit('one')
            for k, e in p.items():
                un = un * sc.Unit(k) ** e
            return un
        try:
            L1 = mk(g['L1'], u['L1'], d['L1']); L2 = mk(g['L2'], u['L2'], d['L2'])
            Efix_si = g['Ei'] if g['mode'] == 'direct' else g['Ef']
            E = mk(Efix_si, u['E'], d['E'])
            def si_of(v):
                return float(v.value) * sc.to_unit(sc.scalar(1.0, unit=v.unit), base_of(str(v.unit))).value
            # the physical situation is defined by the operands AS STORED (after the dtype cast)
            g['L1'], g['L2'] = si_of(L1), si_of(L2)
            if g['mode'] == 'direct':
                g['Ei'] = si_of(E)
            else:
                g['Ef'] = si_of(E)
            tphys = g['L1'] * math.sqrt(mn / (2 * g['Ei'])) + g['L2'] * math.sqrt(mn / (2 * g['Ef']))
            tof_unit_mult = sc.to_unit(sc.scalar(1.0, unit=u['tof']), 's').value
            # t0 with the implementation's own helper (falls back to the formula if the helper is gone)
            probe = sc.scalar(np.array(tphys / tof_unit_mult).astype(d['tof'])[()], unit=u['tof'], dtype=d['tof'])
            Lfix = L1 if g['mode'] == 'direct' else L2
            # (fallback to the formula whenever the helper is gone, has another signature / return type, or returns
            #  something that is not a positive finite time close to the formula: a changed helper must never wreck
            #  the arrival times the property is evaluated on)
            t0_formula = (g['L1'] if g['mode'] == 'direct' else g['L2']) * math.sqrt(mn / (2 * (g['Ei'] if g['mode'] == 'direct' else g['Ef']))) / tof_unit_mult
            res['t0_source'] = 'helper'
            try:
                t0 = ktof._energy_transfer_t0(E, probe, Lfix)
                t0v = float(np.asarray(sc.to_unit(t0.astype('float64'), u['tof']).values).reshape(-1)[0])
                if not (math.isfinite(t0v) and t0v > 0 and abs(t0v - t0_formula) <= 1e-3 * t0_formula):
                    res['t0_source'] = f'formula (helper returned {t0v!r}, formula {t0_formula!r})'
                    t0v = t0_formula
            except Exception as ex:
                res['t0_source'] = f'formula (helper unusable: {type(ex).__name__})'
                t0v = t0_formula
            res['t0_formula'] = t0_formula
            nd = np.dtype(d['tof'])
            eps = np.finfo(nd).eps if nd.kind == 'f' else 0.0
            vals = [tphys / tof_unit_mult] + [t0v * (1 + k * eps) for k in g['ks']] + [t0v * f for f in g['extra']]
            if nd.kind != 'f':
                vals = [max(1, round(v)) for v in vals] + [max(1, math.floor(t0v)), math.floor(t0v) + 1]
            tofv = sc.array(dims=['t'], values=np.array(vals).astype(d['tof']), unit=u['tof'], dtype=d['tof'])
            if g.get('layout') == 'aligned':
                # per-element lengths and fixed energy (one entry per arrival time) instead of scalars
                L1, L2, E = (sc.broadcast(v, sizes={'t': len(vals)}).copy() for v in (L1, L2, E))
        except Exception as ex:
            res['build_error'] = f'{type(ex).__name__}: {ex}'
            out.append(res); continue
        env = {'tof': tofv, 'L1': L1, 'L2': L2, 'E': E}
        res['operands'] = {k: stored(v) for k, v in env.items()}
        snap = {k: v.copy() for k, v in env.items()}
        try:
            if g['mode'] == 'direct':
                r = ktof.energy_transfer_direct_from_tof(tof=tofv, L1=L1, L2=L2, incident_energy=E)
            else:
                r = ktof.energy_transfer_indirect_from_tof(tof=tofv, L1=L1, L2=L2, final_energy=E)
            res['result'] = describe_result(r)
        except Exception as ex:
            res['error'] = type(ex).__name__; res['error_text'] = str(ex)[:200]
        # the same conversion through the graph factory and through the top-level convert()
        ename = 'incident_energy' if g['mode'] == 'direct' else 'final_energy'
        try:
            from scippneutron.conversion.graph import tof as gtof
            fac = gtof.direct_inelastic if g['mode'] == 'direct' else gtof.indirect_inelastic
            fn = fac('tof')['energy_transfer']
            res['result_graph'] = describe_result(fn(**{'tof': tofv, 'L1': L1, 'L2': L2, ename: E}))
        except Exception as ex:
            res['error_graph'] = type(ex).__name__
        try:
            import scippneutron as scn
            da = sc.DataArray(sc.ones(sizes={'t': len(tofv)}), coords={'tof': tofv, 'L1': L1, 'L2': L2, ename: E})
            conv = scn.convert(da, origin='tof', target='energy_transfer', scatter=True)
            res['result_convert'] = describe_result(conv.coords['energy_transfer'])
        except Exception as ex:
            res['error_convert'] = type(ex).__name__ + ': ' + str(ex)[:150]
        # ... and through convert() on containers: DataArray of binned events, Datasets of 1..3 dense / binned items
        if g.get('container'):
            spec = g['container']
            res['container'] = {'form': spec['form'], 'kinds': [it['kind'] for it in spec['items']]}
            try:
                res['convert_items'] = convert_containers(spec, tofv, L1, L2, E, ename)
            except Exception as ex:
                res['error_container'] = type(ex).__name__ + ': ' + str(ex)[:200]
        res['inputs_unchanged'] = all(sc.identical(env[k], snap[k], equal_nan=True) for k in env)
        res['expected_si'] = g['Ei'] - g['Ef']
        res['si'] = {k: g[k] for k in ('Ei', 'Ef', 'L1', 'L2')}
        out.append(res)
    consts = {nm: {'value': exact(getattr(const, nm).value), 'unit': unit_info(getattr(const, nm).unit)} for nm in ('h', 'm_n')}
    print('RESULT ' + json.dumps({'groups': out, 'constants': consts, 'scipp': sc.__version__}))


if __name__ == '__main__':
    main()
