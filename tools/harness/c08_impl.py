#!/venv/bin/python
"""C08 implementation runner: Q-vector and hkl kernels of scippneutron.conversion.tof on the real code
(runs in /venv with PYTHONPATH=<repo>/src).

stdin : {"groups": [ {"id", "wavelength": OPERAND, "incident_beam": OPERAND(vector3), "scattered_beam": OPERAND(vector3),
                      "R": ROT, "U": ROT, "B": {"values": [9 hex floats row-major], "unit": str}
                                           or {"values": [[9 hex floats], ...], "unit": str, "dim": "p"} (one B per pixel),
                      "Q": optional OPERAND(vector3) used for hkl instead of the computed Q vector} ]}
  OPERAND as in kernels_impl.py;  ROT = {"kind": "quat"|"matrix", "values": [[4 or 9 hex floats], ...], "dim": null|"p"}
  optional per group  "graph": {"start": "wavelength"|"tof", "via": "specific"|"elastic",
                                "customise": null|"override-ub"|"override-Q_vec"|"override-hkl"|"clear"}:
  the same quantities through the GRAPH entry points conversion.graph.tof.elastic_Q_vec / elastic_hkl (or elastic) + transform_coords
  (result under "graph", same layout); afterwards the CALLER's copies of the returned graphs are modified as named -
  a caller may do with a returned dict what it likes, later calls must not see it.
  Groups are evaluated in the given order in ONE process (call histories: see props/C08.py).
stdout: 'RESULT <json>': per group the operands as stored (exact rationals) and every kernel's result
        (exact, element by element) or the error class.
"""
import json
import os
import sys

import numpy as np
import scipp as sc

sys.path.insert(0, os.path.dirname(os.path.abspath(__file__)))
from kernels_impl import build_operand, describe_result, exact, stored, unit_info  # noqa: E402

from scippneutron.conversion import beamline, tof  # noqa: E402


def fl(c):
    return float.fromhex(c) if isinstance(c, str) else float(c)


def build_rot(spec):
    vals = [[fl(c) for c in v] for v in spec['values']]
    dim = spec.get('dim')
    if spec['kind'] == 'quat':
        if dim is None:
            return sc.spatial.rotation(value=vals[0])
        return sc.spatial.rotations(dims=[dim], values=np.array(vals))
    mats = np.array(vals).reshape(-1, 3, 3)
    unit = spec.get('unit', 'dimensionless')
    if dim is None:
        return sc.spatial.linear_transform(value=mats[0], unit=unit)
    return sc.spatial.linear_transforms(dims=[dim], values=mats, unit=unit)


def stored_rot(var):
    info = {'unit': unit_info(var.unit), 'dtype': str(var.dtype), 'dims': list(var.dims)}
    n = 4 if var.dtype == sc.DType.rotation3 else 9
    info['values'] = [[exact(c) for c in row] for row in np.asarray(var.values).reshape(-1, n)]
    return info


def describe_any(r):
    if isinstance(r, sc.Variable) and r.dtype in (sc.DType.linear_transform3, sc.DType.rotation3):
        d = stored_rot(r)
        d['shape'] = list(r.shape)
        return d
    return describe_result(r)


def attempt(res, key, f):
    try:
        r = f()
        res[key] = describe_any(r)
        return r
    except Exception as ex:  # the error class is an observation
        res[key] = {'error': type(ex).__name__, 'error_text': str(ex)[:200]}
        return None


def customise(graph, how):
    """what a caller may do with a graph it received"""
    if how == 'override-ub':            # "I only have B"
        graph['ub_matrix'] = lambda b_matrix: b_matrix
    elif how == 'override-Q_vec':       # another axis convention
        graph['Q_vec'] = lambda Qx, Qy, Qz: sc.spatial.as_vectors(Qz, Qy, Qx)
    elif how == 'override-hkl':         # sample not rotated, other 2 pi convention
        graph['hkl_vec'] = lambda Q_vec, ub_matrix: sc.spatial.inv(ub_matrix) * Q_vec
    elif how == 'clear':
        graph.clear()


def via_graph(spec, lam, bi, bf, R, U, B, Qin):
    from scippneutron.conversion.graph import tof as gtof
    res = {}
    n = bf.sizes['p']
    coords = {'wavelength': lam, 'incident_beam': bi, 'scattered_beam': bf, 'sample_rotation': R, 'u_matrix': U, 'b_matrix': B}
    da = sc.DataArray(sc.zeros(dims=['p'], shape=[n]), coords={k: v.copy() for k, v in coords.items()})
    if spec.get('via') == 'elastic':      # the full elastic graph holds the same nodes
        gq = gtof.elastic(spec['start'])
        gh = gtof.elastic(spec['start'])
    else:
        gq = gtof.elastic_Q_vec(spec['start'])
        gh = gtof.elastic_hkl(spec['start'])
    opts = {'rename_dims': False, 'keep_inputs': True, 'keep_intermediate': True, 'keep_aliases': True}
    try:
        dq = da.transform_coords(['Q_vec', 'Qx', 'Qy', 'Qz'], graph=gq, **opts)
        res['Qel'] = {'dict': {c: describe_any(dq.coords[c]) for c in ('Qx', 'Qy', 'Qz')}}
        res['Qvec'] = describe_any(dq.coords['Q_vec'])
    except Exception as ex:
        res['Qvec'] = {'error': type(ex).__name__, 'error_text': str(ex)[:200]}
    dh = da.copy(deep=False)
    if Qin is not None:
        dh.coords['Q_vec'] = Qin.copy()
    try:
        out = dh.transform_coords(['hkl_vec', 'h', 'k', 'l', 'ub_matrix'], graph=gh, **opts)
        res['UB'] = describe_any(out.coords['ub_matrix'])
        res['hkl'] = describe_any(out.coords['hkl_vec'])
        res['hkl_el'] = {'dict': {c: describe_any(out.coords[c]) for c in ('h', 'k', 'l')}}
        if Qin is None:
            res['Qvec_of_hkl_graph'] = describe_any(out.coords['Q_vec'])
    except Exception as ex:
        res['hkl'] = {'error': type(ex).__name__, 'error_text': str(ex)[:200]}
    customise(gq, spec.get('customise'))
    customise(gh, spec.get('customise'))
    return res


def main():
    req = json.load(sys.stdin)
    out = []
    for g in req['groups']:
        res = {'id': g['id']}
        try:
            lam = build_operand(g['wavelength'])
            bi = build_operand(g['incident_beam'])
            bf = build_operand(g['scattered_beam'])
            R = build_rot(g['R'])
            U = build_rot(g['U'])
            bdim = g['B'].get('dim')       # one B (9 numbers), or one B per pixel (a list of 9 numbers each, dim 'p')
            B = build_rot({'kind': 'matrix', 'values': g['B']['values'] if bdim else [g['B']['values']], 'dim': bdim,
                           'unit': g['B']['unit']})
            Qin = build_operand(g['Q']) if g.get('Q') else None
        except Exception as ex:
            res['build_error'] = f'{type(ex).__name__}: {ex}'
            out.append(res)
            continue
        res['operands'] = {'wavelength': stored(lam), 'incident_beam': stored(bi), 'scattered_beam': stored(bf),
                           'R': stored_rot(R), 'U': stored_rot(U), 'B': stored_rot(B)}
        if Qin is not None:
            res['operands']['Q'] = stored(Qin)
        snap = [v.copy() for v in (lam, bi, bf, R, U, B)]
        el = attempt(res, 'Qel', lambda: tof.Q_elements_from_wavelength(wavelength=lam, incident_beam=bi, scattered_beam=bf))
        qv = attempt(res, 'Qvec', lambda: tof.Q_vec_from_Q_elements(**el)) if el is not None else None
        tt = attempt(res, 'two_theta', lambda: beamline.two_theta(incident_beam=bi, scattered_beam=bf))
        if tt is not None:
            attempt(res, 'Qscalar', lambda: tof.Q_from_wavelength(wavelength=lam, two_theta=tt))
        ub = attempt(res, 'UB', lambda: tof.ub_matrix_from_u_and_b(u_matrix=U, b_matrix=B))
        qh = Qin if Qin is not None else qv
        if ub is not None and qh is not None:
            hk = attempt(res, 'hkl', lambda: tof.hkl_vec_from_Q_vec(Q_vec=qh, ub_matrix=ub, sample_rotation=R))
            if hk is not None:
                he = attempt(res, 'hkl_el', lambda: tof.hkl_elements_from_hkl_vec(hkl_vec=hk))
                if he is not None:
                    attempt(res, 'rejoined', lambda: tof.Q_vec_from_Q_elements(Qx=he['h'], Qy=he['k'], Qz=he['l']))
        if g.get('graph'):
            try:
                res['graph'] = via_graph(g['graph'], lam, bi, bf, R, U, B, Qin)
            except Exception as ex:
                res['graph'] = {'hkl': {'error': type(ex).__name__, 'error_text': str(ex)[:200]},
                                'Qvec': {'error': type(ex).__name__, 'error_text': str(ex)[:200]}}
        res['inputs_unchanged'] = all(sc.identical(a, b, equal_nan=True) for a, b in zip((lam, bi, bf, R, U, B), snap))
        # components with two dimensions, one of them stored in the other dim ORDER (e.g. after a transpose upstream):
        # joining must pair elements by dimension LABEL; splitting the result must give the components back
        try:
            import numpy as np
            na, nb = (3, 3) if g['id'] % 2 == 0 else (2, 4)
            base = np.arange(na * nb, dtype=float).reshape(na, nb) + 100.0 * g['id']
            qx = sc.array(dims=['a', 'b'], values=base, unit='1/angstrom')
            qy = sc.array(dims=['a', 'b'], values=base + 0.25, unit='1/angstrom').transpose(['b', 'a']).copy()
            qz = sc.array(dims=['a', 'b'], values=base + 0.5, unit='1/angstrom')
            j = tof.Q_vec_from_Q_elements(Qx=qx, Qy=qy, Qz=qz)
            bad = []
            for ia in range(na):
                for ib in range(nb):
                    got = [float(c) for c in j['a', ia]['b', ib].value]
                    want = [float(base[ia, ib]), float(base[ia, ib] + 0.25), float(base[ia, ib] + 0.5)]
                    if got != want:
                        bad.append({'a': ia, 'b': ib, 'got': got, 'want': want})
            res['join2d'] = {'shape': [na, nb], 'mismatch': bad[:3], 'n_mismatch': len(bad)}
        except Exception as ex:
            res['join2d'] = {'error': type(ex).__name__, 'error_text': str(ex)[:200]}
        out.append(res)
    print('RESULT ' + json.dumps({'groups': out, 'scipp': sc.__version__}))


if __name__ == '__main__':
    main()
