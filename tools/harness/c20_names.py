"""C20: near-miss query names, shared by props/C20.py (correspondence) and c20_search.py (search).

The property quantifies over "near-miss names (prefixes, suffixes, case changes, blanks)": any string
that is not literally a first-column name must be rejected.  The lookup code splits a name with a
regular expression that is anchored at the START only and compares table names with ==, so the
interesting classes are what may surround a valid name:

  fixed (always generated for a name n)
    prefix / drop-first     n without its last / first character
    suffix                  n + letter
    suffix-digit            n + '0'
    case                    swapcase / lower / upper
    blank                   ' '+n, n+' ', n+'\\n', '\\t'+n
    leading-zero            '0'+n
    comma                   n+',', n+',1.0'
  classes (an `always` part + a `pool`; all of the pool or a seeded sample of it)
    suffix-digit            n + any digit(s): 'H2', 'He3'
    suffix-blank            n + tab / CR / CRLF / VT / FF / blanks / information separators
    suffix-punct            n + one punctuation or control character: 'C+', 'H-', 'He.'
    suffix-tail             n + a tail that STARTS with a non-letter: 'He-3', 'H 2', 'U,1', 'O(2-)'
    prefix-blank            blank + n
    prefix-punct            punctuation + n
    prefix-digit            digit(s) + n   (reads as another mass number)
    swap                    mass number and symbol in another order / with a separator: 'He3', 'He-3', '3-He'
    infix                   a non-letter inside the symbol: 'H e', 'H-e', 'H1e'
Whether a variant happens to BE a table name is decided by whoever uses the list (the Coq model in the
correspondence, the first columns of the current files in the search).
"""

DIGIT_POOL = ['1', '2', '4', '5', '6', '7', '8', '9', '12', '00', '03', '235']
BLANK_TAIL_POOL = ['\r', '\r\n', '\x0b', '\x0c', '  ', ' \n', '\n\n', '\x1c', '\x1f', ' \t']
BLANK_HEAD_POOL = ['\r', '\x0b', '\x0c', '  ', '\r\n', '\x1f']
PUNCT = ['.', '_', '/', '*', '(', ')', '[', ']', "'", '"', ';', ':', '=', '#', '^', '~', '\\', '\x00',
         '\x7f', '@', '!', '?', '&', '%', '$', '|', '<', '>', '{', '}', '`', '\x01', '\x1b']
TAIL_POOL = ['+1', ' 3', '.5', '(3)', '-x', ' x', '_x', '2+', '-1H', ' He', '/2', '^3', '3-', ',1', ' ,', '-0',
             '\n3', '1 ', '+H', '0x']

CLASSES = ('suffix-digit', 'suffix-blank', 'suffix-punct', 'suffix-tail', 'prefix-blank', 'prefix-punct',
           'prefix-digit', 'swap', 'infix')


def split_name(n):
    """(leading digits, rest)"""
    i = 0
    while i < len(n) and n[i] in '0123456789':
        i += 1
    return n[:i], n[i:]


def fixed_variants(n):
    """the variants generated for every name in every tier"""
    v = []
    if len(n) > 1:
        v.append(('prefix', n[:-1]))
        v.append(('drop-first', n[1:]))
    v.append(('suffix', n + 'x'))
    v.append(('suffix', n + n[-1:]))
    v.append(('suffix-digit', n + '0'))
    for c in (n.swapcase(), n.lower(), n.upper()):
        if c != n:
            v.append(('case', c))
    v.append(('blank', ' ' + n))
    v.append(('blank', n + ' '))
    v.append(('blank', n + '\n'))
    v.append(('blank', '\t' + n))
    v.append(('leading-zero', '0' + n))
    v.append(('comma', n + ','))
    v.append(('comma', n + ',1.0'))
    return v


def class_variants(n):
    """{class: (always, pool)} — lists of names"""
    a, sym = split_name(n)
    out = {
        'suffix-digit': ([n + '3'], [n + d for d in DIGIT_POOL]),
        'suffix-blank': ([n + '\t'], [n + b for b in BLANK_TAIL_POOL]),
        'suffix-punct': ([n + '-', n + '+'], [n + p for p in PUNCT]),
        'suffix-tail': ([n + '-3'], [n + t for t in TAIL_POOL]),
        'prefix-blank': (['\n' + n], [b + n for b in BLANK_HEAD_POOL]),
        'prefix-punct': (['-' + n], [p + n for p in PUNCT + ['+', '^']]),
        'prefix-digit': (['1' + n], [d + n for d in DIGIT_POOL]),
    }
    if a and sym:
        out['swap'] = ([sym + a, sym + '-' + a],
                       [sym + ' ' + a, a + '-' + sym, a + ' ' + sym, sym + '_' + a, sym + '(' + a + ')', '^' + a + sym,
                        a + '\t' + sym, sym + '\n' + a, a + ',' + sym, sym + ',' + a, sym + a + ' ', sym + '0' + a])
    elif sym:
        out['swap'] = ([], ['nat' + sym, sym + '-nat', sym + '(nat)', sym + ' nat'])
    if len(sym) >= 2:
        h, t = a + sym[:1], sym[1:]
        out['infix'] = ([h + ' ' + t], [h + '-' + t, h + '1' + t, h + '\n' + t, h + '.' + t, h + ',' + t, h + '\t' + t])
    return out


def near_misses(n, rng=None, per_class=None):
    """[(kind, name)]: the fixed variants, the `always` part of every class and — per_class None: the whole
    pool; per_class k: a sample (rng) of k pool members per class"""
    v = fixed_variants(n)
    for kind, (always, pool) in class_variants(n).items():
        chosen = list(always)
        if per_class is None or rng is None:
            chosen += pool
        elif per_class > 0 and pool:
            chosen += rng.sample(pool, min(per_class, len(pool)))
        v += [(kind, x) for x in chosen]
    return v


def new_class_variants(n):
    """[(kind, name)] of the class variants only (always + pool)"""
    return [(kind, x) for kind, (always, pool) in class_variants(n).items() for x in always + pool]
