#!/venv/bin/python
"""C11 implementation runner: FrameSequence programs on the real chopper_cascade module.

stdin  {"cases": [{"id", "rect": [tmin, tmax, wmin, wmax] (hex floats; s, s, angstrom, angstrom),
                   "program": [{"op": "chop", "choppers": [{"d": hex, "windows": [[E, E], ...]}]}
                               | {"op": "prop", "d": hex}],
                   "items": [hex distances for __getitem__],
                   "multi": [{"entry": "frame" | "seq" | "item", "base_frac": f | "base": k, "item": hex,
                              "dims": [names], "shape": [sizes], "dists": [hex, row-major], "dtype": ...}],
                   "single": bool}]}
       multi: after the program, a frame is propagated to an ARRAY of distances in ONE call
       (Frame.propagate_to on frames[k] / on seq[item], or FrameSequence.propagate_to) and vertices,
       is_regular, bounds(), subbounds() are read off per distance (indexing by dimension NAME).
       E (a window end) is {"v": hex} (a literal), {"frac": f} (lo + f*(hi-lo) of the time range of the
       frame the chopper meets, computed here in binary64) or {"vertex": k, "ulps": n} (the time of the
       k-th vertex (mod number of vertices) of that frame, moved by n ulps) — the last two are resolved
       with the implementation's own propagate_to so that windows can touch a vertex EXACTLY.
stdout RESULT {"cases": [{"id", "program": resolved program (all literals), "error": null | class name,
                          "frames": [{"d": hex, "subframes": [[[t, w], ...]], "regular": [bool],
                                      "bounds": [t0, t1, w0, w1] | {"error": cls},
                                      "subbounds": [[t0, t1, w0, w1], ...] | {"error": cls}}],
                          "items": [{"d": hex, "subframes": [...] } | {"d": hex, "error": cls}],
                          "multi": [see run_multi]}],
               "constants": {"m_n": hex, "h": hex}}
All numbers are binary64 written with float.hex() (exact)."""
import json
import math
import sys

import numpy as np
import scipp as sc
import scipp.constants as const

from scippneutron.tof import chopper_cascade as cc


def fx(x):
    return float(x).hex()


def sv(h, unit):
    return sc.scalar(float.fromhex(h), unit=unit)


def frame_times(frame):
    ts = []
    for sf in frame.subframes:
        ts.extend(float(v) for v in sf.time.values)
    return ts


def resolve_end(e, ts):
    if isinstance(e, str):          # already a literal (replay of a resolved program)
        return float.fromhex(e)
    if 'v' in e:
        return float.fromhex(e['v'])
    lo, hi = (min(ts), max(ts)) if ts else (0.0, 0.1)
    if 'frac' in e:
        return lo + e['frac'] * (hi - lo)
    if not ts:
        return lo
    t = ts[e['vertex'] % len(ts)]
    n = e.get('ulps', 0)
    for _ in range(abs(n)):
        t = math.nextafter(t, math.inf if n > 0 else -math.inf)
    return t


def mk_chopper(d, windows):
    return cc.Chopper(
        distance=sc.scalar(d, unit='m'),
        time_open=sc.array(dims=['cutout'], values=np.array([w[0] for w in windows], dtype='float64'), unit='s'),
        time_close=sc.array(dims=['cutout'], values=np.array([w[1] for w in windows], dtype='float64'), unit='s'))


def resolve_chop(seq, choppers):
    """windows given by directives are made concrete against the frame each chopper will meet
    (choppers in distance order, as FrameSequence.chop applies them); the resolution itself uses
    Frame.propagate_to / Frame.chop of the implementation"""
    order = sorted(range(len(choppers)), key=lambda i: float.fromhex(choppers[i]['d']))
    out = [None] * len(choppers)
    cur = seq.frames[-1]
    for i in order:
        c = choppers[i]
        d = float.fromhex(c['d'])
        try:
            at = cur.propagate_to(sc.scalar(d, unit='m'))
            ts = frame_times(at)
        except Exception:
            ts = []
        wins = [[resolve_end(w[0], ts), resolve_end(w[1], ts)] for w in c['windows']]
        out[i] = {'d': fx(d), 'windows': [[fx(a), fx(b)] for a, b in wins]}
        try:
            cur = cur.chop(mk_chopper(d, wins))
        except Exception:
            pass
    return out


def describe_subframes(frame):
    return [[[fx(t), fx(w)] for t, w in zip(sf.time.values, sf.wavelength.values)] for sf in frame.subframes]


def describe_frame(frame):
    r = {'d': fx(frame.distance.value), 'subframes': describe_subframes(frame),
         'regular': [bool(sf.is_regular()) for sf in frame.subframes]}
    try:
        b = frame.bounds()
        r['bounds'] = [fx(b['time'].values[0]), fx(b['time'].values[1]),
                       fx(b['wavelength'].values[0]), fx(b['wavelength'].values[1])]
    except Exception as ex:
        r['bounds'] = {'error': type(ex).__name__}
    try:
        b = frame.subbounds()
        t, w = b['time'], b['wavelength']
        r['subbounds'] = [[fx(t['subframe', i]['bound', 0].value), fx(t['subframe', i]['bound', 1].value),
                           fx(w['subframe', i]['bound', 0].value), fx(w['subframe', i]['bound', 1].value)]
                          for i in range(t.sizes['subframe'])]
    except Exception as ex:
        r['subbounds'] = {'error': type(ex).__name__}
    return r


def at(var, idx):
    """slice away the distance dims that `var` has (by name)"""
    for dim, i in idx:
        if dim in var.dims:
            var = var[dim, i]
    return var


def has_dims(var, dims, shape):
    return all(d in var.dims and var.sizes[d] == n for d, n in zip(dims, shape))


def f4_at(t, w, idx):
    t, w = at(t, idx), at(w, idx)
    if t.dims != ('bound',) or w.dims != ('bound',):
        raise RuntimeError(f'Layout{t.dims}{w.dims}')
    return [fx(t.values[0]), fx(t.values[1]), fx(w.values[0]), fx(w.values[1])]


def sub_at(t, w, idx):
    t, w = at(t, idx), at(w, idx)
    if set(t.dims) != {'subframe', 'bound'} or set(w.dims) != {'subframe', 'bound'}:
        raise RuntimeError(f'Layout{t.dims}{w.dims}')
    return [[fx(t['subframe', i]['bound', 0].value), fx(t['subframe', i]['bound', 1].value),
             fx(w['subframe', i]['bound', 0].value), fx(w['subframe', i]['bound', 1].value)]
            for i in range(t.sizes['subframe'])]


def run_multi(seq, m, single):
    """propagate to an array of distances in one call; everything is reported per distance (row-major)"""
    dims, shape = list(m['dims']), [int(n) for n in m['shape']]
    vals = np.array([float.fromhex(h) for h in m['dists']], dtype='float64').reshape(shape)
    dist = sc.array(dims=dims, values=vals.astype(m.get('dtype', 'float64')), unit='m')
    r = {'entry': m['entry'], 'dims': dims, 'shape': shape, 'dtype': m.get('dtype', 'float64'),
         'dists': [fx(v) for v in dist.values.astype('float64').ravel()], 'error': None}
    base = None
    try:
        if m['entry'] == 'seq':
            r['base'] = len(seq.frames) - 1
            base = seq.frames[-1]
            frame = seq.propagate_to(dist).frames[-1]
        elif m['entry'] == 'item':
            r['item'] = m['item']
            base = seq[sv(m['item'], 'm')]
            frame = base.propagate_to(dist)
        else:
            k = m['base'] if 'base' in m else min(int(m['base_frac'] * len(seq.frames)), len(seq.frames) - 1)
            r['base'] = k
            base = seq.frames[k]
            frame = base.propagate_to(dist)
    except Exception as ex:
        r['error'] = type(ex).__name__
        return r
    idxs = [list(zip(dims, ix)) for ix in np.ndindex(*shape)]
    r['dist_kept'] = bool(sc.identical(frame.distance, dist))
    try:
        r['polys'] = [[[[fx(t), fx(w)] for t, w in zip(at(sf.time, ix).values, at(sf.wavelength, ix).values)]
                       for sf in frame.subframes] for ix in idxs]
        r['time_dims_ok'] = all(has_dims(sf.time, dims, shape) and sf.time.ndim == len(dims) + 1
                                and sf.wavelength.ndim == 1 for sf in frame.subframes)
    except Exception as ex:
        r['error'] = 'vertices:' + type(ex).__name__
        return r
    try:
        r['regular'] = [bool(sf.is_regular()) for sf in frame.subframes]
    except Exception as ex:
        r['regular'] = {'error': type(ex).__name__}
    try:
        b = frame.bounds()
        r['bounds'] = {'dist_dims': has_dims(b['time'], dims, shape),
                       'values': [f4_at(b['time'], b['wavelength'], ix) for ix in idxs]}
    except Exception as ex:
        r['bounds'] = {'error': type(ex).__name__, 'text': str(ex)[:120]}
    try:
        b = frame.subbounds()
        r['subbounds'] = {'dist_dims': has_dims(b['time'], dims, shape),
                          'values': [sub_at(b['time'], b['wavelength'], ix) for ix in idxs]}
    except Exception as ex:
        r['subbounds'] = {'error': type(ex).__name__, 'text': str(ex)[:120]}
    if single:
        # the same frame propagated to each distance alone (scalar distance): what the property is stated about
        r['single'] = [describe_frame(base.propagate_to(sc.scalar(float(v), unit='m')))
                       for v in dist.values.astype('float64').ravel()]
    return r


def run_case(case):
    res = {'id': case['id'], 'error': None}
    tmin, tmax, wmin, wmax = case['rect']
    seq = cc.FrameSequence.from_source_pulse(sv(tmin, 's'), sv(tmax, 's'), sv(wmin, 'angstrom'), sv(wmax, 'angstrom'))
    prog = []
    for cmd in case['program']:
        if cmd['op'] == 'prop':
            prog.append({'op': 'prop', 'd': cmd['d']})
            if res['error'] is None:
                seq = seq.propagate_to(sv(cmd['d'], 'm'))
            continue
        chs = resolve_chop(seq, cmd['choppers'])
        prog.append({'op': 'chop', 'choppers': chs})
        if res['error'] is None:
            try:
                seq = seq.chop([mk_chopper(float.fromhex(c['d']),
                                           [[float.fromhex(a), float.fromhex(b)] for a, b in c['windows']])
                                for c in chs])
            except Exception as ex:
                res['error'] = type(ex).__name__
                res['error_text'] = str(ex)[:200]
    res['program'] = prog
    res['frames'] = [describe_frame(f) for f in seq.frames]
    items = []
    for dh in case.get('items', []):
        try:
            f = seq[sv(dh, 'm')]
            items.append({'d': dh, 'fd': fx(f.distance.value), 'subframes': describe_subframes(f),
                          'regular': [bool(sf.is_regular()) for sf in f.subframes]})
        except Exception as ex:
            items.append({'d': dh, 'error': type(ex).__name__})
    res['items'] = items
    res['multi'] = []
    if res['error'] is None:
        for m in case.get('multi', []):
            try:
                res['multi'].append(run_multi(seq, m, case.get('single', False)))
            except Exception as ex:
                res['multi'].append({'entry': m.get('entry'), 'harness_error': f'{type(ex).__name__}: {ex}'[:300]})
    return res


def main():
    req = json.load(sys.stdin)
    out = []
    for case in req['cases']:
        try:
            out.append(run_case(case))
        except Exception as ex:     # the harness itself could not run the case
            out.append({'id': case['id'], 'harness_error': f'{type(ex).__name__}: {ex}'[:300]})
    consts = {'m_n': fx(const.m_n.value), 'h': fx(const.h.value),
              'm_n_unit': str(const.m_n.unit), 'h_unit': str(const.h.unit)}
    print('RESULT ' + json.dumps({'cases': out, 'constants': consts, 'scipp': sc.__version__}))


if __name__ == '__main__':
    main()
