#!/venv/bin/python
"""C11 implementation runner: FrameSequence programs on the real chopper_cascade module.

stdin  {"cases": [{"id", "rect": [tmin, tmax, wmin, wmax] (hex floats; s, s, angstrom, angstrom),
                   "program": [{"op": "chop", "choppers": [{"d": hex, "windows": [[E, E], ...]}]}
                               | {"op": "prop", "d": hex}],
                   "items": [hex distances for __getitem__]}]}
       E (a window end) is {"v": hex} (a literal), {"frac": f} (lo + f*(hi-lo) of the time range of the
       frame the chopper meets, computed here in binary64) or {"vertex": k, "ulps": n} (the time of the
       k-th vertex (mod number of vertices) of that frame, moved by n ulps) — the last two are resolved
       with the implementation's own propagate_to so that windows can touch a vertex EXACTLY.
stdout RESULT {"cases": [{"id", "program": resolved program (all literals), "error": null | class name,
                          "frames": [{"d": hex, "subframes": [[[t, w], ...]], "regular": [bool],
                                      "bounds": [t0, t1, w0, w1] | {"error": cls},
                                      "subbounds": [[t0, t1, w0, w1], ...] | {"error": cls}}],
                          "items": [{"d": hex, "subframes": [...] } | {"d": hex, "error": cls}]}],
               "constants": {"m_n": hex, "h": hex}}
All numbers are binary64 written with float.hex() (exact)."""
import json
import math
import sys

import numpy as np
import scipp as sc
import scipp.constants as const

from scippneutron.tof import chopper_cascade as cc


def fx(x):
    return float(x).hex()


def sv(h, unit):
    return sc.scalar(float.fromhex(h), unit=unit)


def frame_times(frame):
    ts = []
    for sf in frame.subframes:
        ts.extend(float(v) for v in sf.time.values)
    return ts


def resolve_end(e, ts):
    if isinstance(e, str):          # already a literal (replay of a resolved program)
        return float.fromhex(e)
    if 'v' in e:
        return float.fromhex(e['v'])
    lo, hi = (min(ts), max(ts)) if ts else (0.0, 0.1)
    if 'frac' in e:
        return lo + e['frac'] * (hi - lo)
    if not ts:
        return lo
    t = ts[e['vertex'] % len(ts)]
    n = e.get('ulps', 0)
    for _ in range(abs(n)):
        t = math.nextafter(t, math.inf if n > 0 else -math.inf)
    return t


def mk_chopper(d, windows):
    return cc.Chopper(
        distance=sc.scalar(d, unit='m'),
        time_open=sc.array(dims=['cutout'], values=np.array([w[0] for w in windows], dtype='float64'), unit='s'),
        time_close=sc.array(dims=['cutout'], values=np.array([w[1] for w in windows], dtype='float64'), unit='s'))


def resolve_chop(seq, choppers):
    """windows given by directives are made concrete against the frame each chopper will meet
    (choppers in distance order, as FrameSequence.chop applies them); the resolution itself uses
    Frame.propagate_to / Frame.chop of the implementation"""
    order = sorted(range(len(choppers)), key=lambda i: float.fromhex(choppers[i]['d']))
    out = [None] * len(choppers)
    cur = seq.frames[-1]
    for i in order:
        c = choppers[i]
        d = float.fromhex(c['d'])
        try:
            at = cur.propagate_to(sc.scalar(d, unit='m'))
            ts = frame_times(at)
        except Exception:
            ts = []
        wins = [[resolve_end(w[0], ts), resolve_end(w[1], ts)] for w in c['windows']]
        out[i] = {'d': fx(d), 'windows': [[fx(a), fx(b)] for a, b in wins]}
        try:
            cur = cur.chop(mk_chopper(d, wins))
        except Exception:
            pass
    return out


def describe_subframes(frame):
    return [[[fx(t), fx(w)] for t, w in zip(sf.time.values, sf.wavelength.values)] for sf in frame.subframes]


def describe_frame(frame):
    r = {'d': fx(frame.distance.value), 'subframes': describe_subframes(frame),
         'regular': [bool(sf.is_regular()) for sf in frame.subframes]}
    try:
        b = frame.bounds()
        r['bounds'] = [fx(b['time'].values[0]), fx(b['time'].values[1]),
                       fx(b['wavelength'].values[0]), fx(b['wavelength'].values[1])]
    except Exception as ex:
        r['bounds'] = {'error': type(ex).__name__}
    try:
        b = frame.subbounds()
        t, w = b['time'], b['wavelength']
        r['subbounds'] = [[fx(t['subframe', i]['bound', 0].value), fx(t['subframe', i]['bound', 1].value),
                           fx(w['subframe', i]['bound', 0].value), fx(w['subframe', i]['bound', 1].value)]
                          for i in range(t.sizes['subframe'])]
    except Exception as ex:
        r['subbounds'] = {'error': type(ex).__name__}
    return r


def run_case(case):
    res = {'id': case['id'], 'error': None}
    tmin, tmax, wmin, wmax = case['rect']
    seq = cc.FrameSequence.from_source_pulse(sv(tmin, 's'), sv(tmax, 's'), sv(wmin, 'angstrom'), sv(wmax, 'angstrom'))
    prog = []
    for cmd in case['program']:
        if cmd['op'] == 'prop':
            prog.append({'op': 'prop', 'd': cmd['d']})
            if res['error'] is None:
                seq = seq.propagate_to(sv(cmd['d'], 'm'))
            continue
        chs = resolve_chop(seq, cmd['choppers'])
        prog.append({'op': 'chop', 'choppers': chs})
        if res['error'] is None:
            try:
                seq = seq.chop([mk_chopper(float.fromhex(c['d']),
                                           [[float.fromhex(a), float.fromhex(b)] for a, b in c['windows']])
                                for c in chs])
            except Exception as ex:
                res['error'] = type(ex).__name__
                res['error_text'] = str(ex)[:200]
    res['program'] = prog
    res['frames'] = [describe_frame(f) for f in seq.frames]
    items = []
    for dh in case.get('items', []):
        try:
            f = seq[sv(dh, 'm')]
            items.append({'d': dh, 'fd': fx(f.distance.value), 'subframes': describe_subframes(f),
                          'regular': [bool(sf.is_regular()) for sf in f.subframes]})
        except Exception as ex:
            items.append({'d': dh, 'error': type(ex).__name__})
    res['items'] = items
    return res


def main():
    req = json.load(sys.stdin)
    out = []
    for case in req['cases']:
        try:
            out.append(run_case(case))
        except Exception as ex:     # the harness itself could not run the case
            out.append({'id': case['id'], 'harness_error': f'{type(ex).__name__}: {ex}'[:300]})
    consts = {'m_n': fx(const.m_n.value), 'h': fx(const.h.value),
              'm_n_unit': str(const.m_n.unit), 'h_unit': str(const.h.unit)}
    print('RESULT ' + json.dumps({'cases': out, 'constants': consts, 'scipp': sc.__version__}))


if __name__ == '__main__':
    main()
