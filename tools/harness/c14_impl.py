#!/venv/bin/python
"""C14 implementation runner: builds CIF documents with the REAL scippneutron package and returns the text.

stdin : {"docs": [DOC, ...]}
  DOC (low level)  = {"kind": "low", "via": "save_cif" | "builder_blocks", "comment": str,
                      "blocks": [{"name": str, "comment": str, "schema": SCH, "items": [ITEM]}]}
    ITEM = {"type": "chunk", "comment": str, "schema": SCH, "as_dict": bool, "pairs": [[key, VAL]]}
         | {"type": "loop", "comment": str, "schema": SCH, "columns": [[key, COL]]}
    VAL  = {"s": str} | {"sv": str} (string variable) | {"i": int} | {"iv": int} | {"f": hex} | {"fv": hex}
         | {"fvar": [hex, hex]} | {"dt": [y, m, d, H, M, S]}
    COL  = {"strs": [str]} | {"ints": [int]} | {"floats": [hex]} | {"floats_var": [[hex, hex]]}
    SCH  = null | [["name", "version", "location"] | "core" | "pd"]
  DOC (builder)    = {"kind": "builder", "name": str, "comment": str, "saves": 1 | 2, "override_comment": str | null,
                      "calls": [CALL]}
    CALL = {"c": "authors", "persons": [{name, email, address, orcid, role, corresponding}]}
         | {"c": "reducers", "list": [str]}
         | {"c": "beamline", "name": str, "facility": str | null, "source": null | 0 | 1 | 2, "comment": str}
         | {"c": "powder", "dim": "tof" | "dspacing", "name": str | null, "coord": [hex], "coord_var": [hex] | null,
            "data": [hex], "data_var": [hex] | null, "unit": str, "comment": str}
         | {"c": "calib", "powers": [int], "coeffs": [hex], "var": [hex] | null, "comment": str}
  DOC (fork)       = {"kind": "fork", "name": str, "comment": str, "ops": [OP]}   several builders derived from common
                     ancestors; node 0 is CIF(name, comment=comment), every derive/copy op creates the next node
    OP   = {"op": "derive", "parent": node, "call": CALL} | {"op": "copy", "parent": node}
         | {"op": "save", "node": node, "via": "save" | "save_cif" | "override", "comment": str}
         | {"op": "drop", "node": node} | {"op": "set_name", "node": node, "name": str}
         | {"op": "set_comment", "node": node, "comment": str}
    observation: {"saves": [{"text": str} | {"error": ...}]}, one entry per save op
stdout: RESULT {"docs": [{"text": str} | {"error": class name, "msg": str, "extra": {...}}],
                "version": str, "core": [3 str], "pd": [3 str], "spallation": [str], "unit_str": {unit: str}}
"""
import gc
import io
import json
import sys
import warnings
from datetime import datetime, timezone

import scipp as sc

import scippneutron
from scippneutron import metadata
from scippneutron.io import cif

warnings.simplefilter('ignore')


def fl(h):
    return float.fromhex(h)


def schema(spec):
    if spec is None:
        return None
    out = []
    for s in spec:
        if s == 'core':
            out.append(cif.CORE_SCHEMA)
        elif s == 'pd':
            out.append(cif.PD_SCHEMA)
        else:
            out.append(cif.CIFSchema(name=s[0], version=s[1], location=s[2]))
    return out if len(out) != 1 else out[0]


def value(v):
    if 's' in v:
        return v['s']
    if 'sv' in v:
        return sc.scalar(v['sv'])
    if 'i' in v:
        return int(v['i'])
    if 'iv' in v:
        return sc.scalar(int(v['iv']), unit=v.get('unit'))
    if 'f' in v:
        return fl(v['f'])
    if 'fv' in v:
        return sc.scalar(fl(v['fv']), unit=v.get('unit'))
    if 'fvar' in v:
        return sc.scalar(fl(v['fvar'][0]), variance=fl(v['fvar'][1]), unit=v.get('unit'))
    if 'dt' in v:
        return datetime(*v['dt'], tzinfo=timezone.utc)
    raise ValueError(f'bad value spec {v}')


def column(c):
    if 'strs' in c:
        return sc.array(dims=['row'], values=c['strs'])
    if 'ints' in c:
        return sc.array(dims=['row'], values=[int(i) for i in c['ints']], dtype='int64', unit=None)
    if 'floats' in c:
        return sc.array(dims=['row'], values=[fl(h) for h in c['floats']], dtype='float64')
    if 'floats_var' in c:
        return sc.array(dims=['row'], values=[fl(a) for a, _ in c['floats_var']],
                        variances=[fl(b) for _, b in c['floats_var']], dtype='float64')
    raise ValueError(f'bad column spec {c}')


def item(it):
    if it['type'] == 'chunk':
        pairs = [(k, value(v)) for k, v in it['pairs']]
        if it.get('as_dict') and not it.get('comment') and it.get('schema') is None:
            return dict(pairs)
        return cif.Chunk(pairs, comment=it.get('comment', ''), schema=schema(it.get('schema')))
    cols = {k: column(c) for k, c in it['columns']}
    return cif.Loop(cols, comment=it.get('comment', ''), schema=schema(it.get('schema')))


def run_low(doc):
    blocks = []
    for b in doc['blocks']:
        blk = cif.Block(b['name'], comment=b.get('comment', ''), schema=schema(b.get('schema')))
        for it in b['items']:
            blk.add(item(it))
        blocks.append(blk)
    f = io.StringIO()
    cif.save_cif(f, blocks if len(blocks) != 1 else blocks[0], comment=doc.get('comment', ''))
    return f.getvalue()


SOURCES = [
    (metadata.SourceType.SpallationNeutronSource, metadata.RadiationProbe.Neutron),
    (metadata.SourceType.ReactorNeutronSource, metadata.RadiationProbe.Neutron),
    (metadata.SourceType.SynchrotronXraySource, metadata.RadiationProbe.Xray),
]


def apply_call(c, call):
    """one `with_*` combinator of the high-level builder; returns the NEW builder"""
    k = call['c']
    if k == 'authors':
        ps = [metadata.Person(name=p['name'], email=p.get('email') or None, address=p.get('address') or None,
                              orcid_id=p.get('orcid') or None, role=p.get('role'),
                              corresponding=bool(p.get('corresponding')))
              for p in call['persons']]
        return c.with_authors(*ps)
    if k == 'reducers':
        return c.with_reducers(*call['list'])
    if k == 'beamline':
        src = None
        if call.get('source') is not None:
            st, pr = SOURCES[call['source']]
            src = metadata.Source(name=None, source_type=st, probe=pr)
        return c.with_beamline(metadata.Beamline(name=call['name'], facility=call.get('facility')), src,
                               comment=call.get('comment', ''))
    if k == 'powder':
        dim = call['dim']
        unit = 'us' if dim == 'tof' else 'angstrom'
        coord = sc.array(dims=[dim], values=[fl(h) for h in call['coord']], unit=unit,
                         variances=[fl(h) for h in call['coord_var']] if call.get('coord_var') else None,
                         dtype='float64')
        data = sc.array(dims=[dim], values=[fl(h) for h in call['data']], unit=call.get('unit', 'one'),
                        variances=[fl(h) for h in call['data_var']] if call.get('data_var') else None,
                        dtype='float64')
        da = sc.DataArray(data, coords={dim: coord}, name=call.get('name') or '')
        return c.with_reduced_powder_data(da, comment=call.get('comment', ''))
    if k == 'calib':
        data = sc.array(dims=['cal'], values=[fl(h) for h in call['coeffs']],
                        variances=[fl(h) for h in call['var']] if call.get('var') else None, dtype='float64')
        da = sc.DataArray(data, coords={'power': sc.array(dims=['cal'], values=[int(p) for p in call['powers']],
                                                          dtype='int64', unit=None)})
        return c.with_powder_calibration(da, comment=call.get('comment', ''))
    raise ValueError(k)


def run_builder(doc):
    c = cif.CIF(doc['name'], comment=doc.get('comment', ''))
    for call in doc['calls']:
        c = apply_call(c, call)
    text = None
    for _ in range(int(doc.get('saves', 1))):
        f = io.StringIO()
        if doc.get('override_comment') is not None:
            cif.save_cif(f, c, comment=doc['override_comment'])
        else:
            c.save(f)
        text = f.getvalue()
    return text


def run_fork(doc):
    """a HISTORY over several builders derived from common ancestors (node 0 = cif.CIF(name, comment=comment));
    every `derive`/`copy` creates the next node from an existing one, `save` writes one node, `drop` releases the
    reference to a node, `set_name`/`set_comment` use the public setters of one node.  Returns one observation per
    `save` op, in order."""
    nodes = [cif.CIF(doc['name'], comment=doc.get('comment', ''))]
    failed = {}                       # node -> observation of the exception that prevented its construction
    saves = []
    for op in doc['ops']:
        o = op['op']
        if o in ('derive', 'copy'):
            p = op['parent']
            if p in failed:
                failed[len(nodes)] = failed[p]
                nodes.append(None)
                continue
            try:
                nodes.append(nodes[p].copy() if o == 'copy' else apply_call(nodes[p], op['call']))
            except Exception as ex:
                failed[len(nodes)] = {'error': type(ex).__name__, 'msg': str(ex)[:300]}
                nodes.append(None)
        elif o == 'drop':
            nodes[op['node']] = None
            gc.collect()
        elif o in ('set_name', 'set_comment'):
            n = op['node']
            if n in failed:
                continue
            try:
                if o == 'set_name':
                    nodes[n].name = op['name']
                else:
                    nodes[n].comment = op['comment']
            except Exception as ex:
                failed[n] = {'error': type(ex).__name__, 'msg': str(ex)[:300]}
        elif o == 'save':
            n = op['node']
            if n in failed:
                saves.append(failed[n])
                continue
            try:
                f = io.StringIO()
                via = op.get('via', 'save')
                if via == 'save':
                    nodes[n].save(f)
                elif via == 'save_cif':
                    cif.save_cif(f, nodes[n])
                else:
                    cif.save_cif(f, nodes[n], comment=op.get('comment', ''))
                saves.append({'text': f.getvalue()})
            except Exception as ex:
                saves.append({'error': type(ex).__name__, 'msg': str(ex)[:300]})
        else:
            raise ValueError(o)
    return saves


def main():
    payload = json.load(sys.stdin)
    out = []
    for doc in payload['docs']:
        try:
            if doc['kind'] == 'fork':
                out.append({'saves': run_fork(doc)})
                continue
            text = run_low(doc) if doc['kind'] == 'low' else run_builder(doc)
            out.append({'text': text})
        except Exception as ex:  # the class is part of the observation
            out.append({'error': type(ex).__name__, 'msg': str(ex)[:300]})
    units = {}
    for u in payload.get('units', []):
        units[u] = str(sc.Unit(u))
    # which facility names make with_beamline deduce a spallation source (observed through the public API)
    spall = []
    for fac in payload.get('facilities', []):
        try:
            f = io.StringIO()
            cif.CIF('p').with_beamline(metadata.Beamline(name='x', facility=fac)).save(f)
            if '_diffrn_source.device spallation' in f.getvalue():
                spall.append(fac)
        except Exception:
            pass
    res = {
        'docs': out,
        'version': scippneutron.__version__,
        'core': [cif.CORE_SCHEMA.name, cif.CORE_SCHEMA.version, cif.CORE_SCHEMA.location],
        'pd': [cif.PD_SCHEMA.name, cif.PD_SCHEMA.version, cif.PD_SCHEMA.location],
        'spallation': spall,
        'unit_str': units,
        'scipp': sc.__version__,
    }
    print('RESULT ' + json.dumps(res))


if __name__ == '__main__':
    main()
