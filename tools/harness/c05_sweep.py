#!/venv/bin/python
"""c05_sweep.py — the statement of C05 evaluated on the implementation over the corners the element-wise correspondence
does not visit: ALL operands in one float type (float32 and float64), lengths in small units (angstrom, nm, um) and
large ones (km), times in s / ms / us, the fixed energy in ueV / meV / eV and (float64 operands) J, through the kernel,
the graph-factory entry and scippneutron.convert, with scalar operands or (30%) three situations at once (fixed energy and
lengths as arrays along a detector dim, arrival times 2-D).  convert is handed a dense DataArray, a DataArray of binned
events or a Dataset of 1..3 dense / binned items (CONTAINERS; binned = one event per element with event-wise tof, stored in a
random order; the answer of a later item is the one checked).  Arrival times: the physical one t = L1/v(Ei) + L2/v(Ef) for a random
energy on the free leg, t0, the value before it, t0/2, and from the first representable value after t0 (the flight time
of the fixed-energy leg) up to t0 (1 + 1e-3).  Required:
  * no result is infinite;
  * at and before t0 the result is NaN; clearly after t0 (beyond the rounding band) it is a number;
  * the physical arrival time gives Ei - Ef in the unit of the supplied energy (condition-aware bound).
t0 is taken from the implementation's own helper when that returns a positive finite time within 1e-3 of the formula
L sqrt(m_n / (2 E)); otherwise (helper renamed, other signature / return type, NaN, ...) from the formula.
(float32 operands with the energy in J are combined with mm / m / km only: the folded constant m_n/2 underflows in single
precision for smaller length units - known finding `float32-range` of C07.)
stdin: {"seed": int, "n": int}; stdout: RESULT {"harness_violations": [...], "checked": int, "classes": {...}}"""
import json
import math
import sys

import numpy as np
import scipp as sc
import scipp.constants as const

MEV = 1.602176634e-22


# containers handed to convert(): (form, kinds of the items, index of the item whose answer is checked)
CONTAINERS = [('DataArray', ('dense',), 0), ('DataArray', ('dense',), 0), ('DataArray', ('binned',), 0), ('Dataset', ('binned',), 0),
              ('Dataset', ('dense', 'dense'), 1), ('Dataset', ('binned', 'binned'), 1), ('Dataset', ('dense', 'binned'), 1),
              ('Dataset', ('binned', 'dense'), 1), ('Dataset', ('binned', 'binned', 'binned'), 2), ('Dataset', ('dense', 'binned', 'binned'), 1)]


def convert_container(cont, t, fixed, crng):
    """scippneutron.convert on a DataArray / Dataset whose items are dense (shared dense tof coordinate `t`) or binned
    (one bin per element of `t`, the arrival times are the event-wise tof; the events of an item are stored in a random
    order of the bins); returns the energy transfer of the looked-at item in the shape of `t`"""
    import scippneutron as scn
    form, kinds, look = cont
    nel = int(np.prod(t.shape))
    coords = dict(fixed)
    if 'dense' in kinds:
        coords['tof'] = t
    items, perms = {}, {}
    for j, kind in enumerate(kinds):
        if kind == 'dense':
            items[f'i{j}'] = sc.DataArray(sc.ones(sizes=t.sizes), coords=coords)
            continue
        perm = crng.permutation(nel)            # bin k holds the event stored at position pos[k]
        pos = np.empty(nel, dtype=np.int64)
        pos[perm] = np.arange(nel)
        flat = np.asarray(t.values).reshape(-1)
        ev = sc.array(dims=['event'], values=flat[perm], unit=t.unit, dtype=t.dtype)
        buf = sc.DataArray(sc.ones(sizes={'event': nel}, unit='counts'), coords={'tof': ev})
        begin = sc.array(dims=list(t.dims), values=pos.reshape(t.shape), unit=None, dtype='int64')
        items[f'i{j}'] = sc.DataArray(sc.bins(data=buf, dim='event', begin=begin, end=begin + sc.index(1)), coords=coords)
        perms[j] = perm
    if form == 'DataArray':
        conv = scn.convert(items['i0'], origin='tof', target='energy_transfer', scatter=True)
    else:
        conv = scn.convert(sc.Dataset(items), origin='tof', target='energy_transfer', scatter=True)[f'i{look}']
    if kinds[look] == 'dense':
        return conv.coords['energy_transfer']
    if conv.bins is None or 'energy_transfer' not in conv.bins.coords:
        raise KeyError(f'the events of item {look} of the converted {form}{list(kinds)} carry no energy_transfer coordinate')
    # one event per bin: the event of each bin, in the shape of `t`
    et = conv.bins.coords['energy_transfer']
    sizes = et.bins.size()
    if int(sizes.min().value) != 1 or int(sizes.max().value) != 1:
        raise ValueError(f'the bins of item {look} no longer hold one event each')
    c = et.bins.constituents
    et = et.transpose(list(t.dims)) if list(et.dims) != list(t.dims) else et
    c = et.bins.constituents
    vals = np.asarray(c['data'].values)[np.asarray(c['begin'].values)]
    return sc.array(dims=list(t.dims), values=vals, unit=c['data'].unit, dtype=c['data'].dtype)


def main():
    req = json.load(sys.stdin)
    rng = np.random.default_rng(req.get('seed', 0))
    crng = np.random.default_rng([int(req.get('seed', 0)), 505])      # containers of the convert route (own stream)
    from scippneutron.conversion import tof as k
    mn = const.m_n.value
    hv, n = [], 0
    seen = set()
    classes = {}
    L_U = [('angstrom', 1e-10), ('nm', 1e-9), ('um', 1e-6), ('mm', 1e-3), ('m', 1.0), ('km', 1e3)]
    T_U = [('s', 1.0), ('ms', 1e-3), ('us', 1e-6)]
    E_U = [('meV', MEV), ('ueV', MEV * 1e-3), ('eV', MEV * 1e3), ('J', 1.0)]

    def report(key, what, desc):
        if key in seen or len(hv) >= 6:
            return
        seen.add(key)
        hv.append({'key': key, 'what': what + f': {desc}', 'replay': desc})

    def check_row(v, tv, row, desc, mode, route, dt, tu, eu, em, tm, u):
        """the statement for ONE physical situation: v = results, tv = arrival times [physical, t0, before.., after..]"""
        t0v, t0f, Efix_s, Lfree_s, nb = row['t0v'], row['t0f'], row['Efix_s'], row['Lfree_s'], row['nb']
        if np.isinf(v).any():
            i = int(np.argmax(np.isinf(v)))
            report(f'{mode}:sweep:infinite-result',
                   f'energy transfer ({mode}, {route}) is {v[i]} for the finite arrival time {float(tv[i])!r} {tu} '
                   f'(t0 = {float(t0v)!r} {tu}, all operands {dt})', desc)
        if not np.isnan(v[1:nb]).all():
            report(f'{mode}:sweep:not-nan-at-or-before-t0',
                   f'energy transfer ({mode}, {route}) is a number at or before the flight time of the fixed-energy leg', desc)
        clear = tv[nb:] > float(t0v) * (1 + 4 * u)
        if np.isnan(v[nb:][clear]).any():
            i = nb + int(np.argmax(clear & np.isnan(v[nb:])))
            report(f'{mode}:sweep:nan-after-t0',
                   f'energy transfer ({mode}, {route}) is NaN for the arrival time {float(tv[i])!r} {tu} clearly after the flight time '
                   f'{float(t0v)!r} {tu} of the fixed-energy leg', desc)
        # conservation at the physical arrival time (as stored): cond = t / (t - t0)
        tp = float(tv[0])
        if tp > t0f * (1 + 10 * u) and tp > float(t0v) * (1 + 10 * u):
            cond = tp / (tp - t0f)
            efree_s = mn / 2 * (Lfree_s / ((tp - t0f) * tm)) ** 2        # the free-leg energy the stored time stands for
            ei, ef = (Efix_s, efree_s) if mode == 'direct' else (efree_s, Efix_s)
            want = (ei - ef) / em
            tolv = u * (2 * cond * efree_s + Efix_s) / em
            if not np.isfinite(v[0]):
                report(f'{mode}:sweep:{"nan" if np.isnan(v[0]) else "infinite"}-at-physical-time',
                       f'energy transfer ({mode}, {route}) is {v[0]} for the physical arrival time t = L1/v(Ei) + L2/v(Ef) = {tp!r} {tu} '
                       f'(expected Ei - Ef = {float(want)!r} {eu})', desc)
            elif abs(v[0] - want) > tolv:
                report(f'{mode}:sweep:conservation',
                       f'energy transfer ({mode}, {route}) is {float(v[0])!r} {eu} at the physical arrival time {tp!r} {tu}, Ei - Ef = {float(want)!r} {eu} '
                       f'(bound {tolv:.3g})', desc)

    for _ in range(int(req.get('n', 300))):
        dt = str(rng.choice(['float32', 'float32', 'float64']))
        ft = np.float32 if dt == 'float32' else np.float64
        lu, lm = L_U[rng.integers(len(L_U))]
        tu, tm = T_U[rng.integers(len(T_U))]
        eu, em = E_U[rng.integers(len(E_U))]
        if dt == 'float32' and eu == 'J' and lm < 1e-3:
            # single precision + J + a small length unit: the folded constant m_n/2 [J (t/L)^2] leaves the float32 range
            # (known finding `float32-range`); J in single precision is swept with mm / m / km only
            lu, lm = L_U[3 + rng.integers(3)]
        mode = str(rng.choice(['direct', 'indirect']))
        route = str(rng.choice(['kernel', 'kernel', 'kernel', 'graph', 'convert']))
        # one physical situation with scalar operands, or several (one per detector: fixed energy and lengths are arrays
        # along 'd', the arrival times 2-D) - the usual shape of an indirect-geometry instrument
        m = 1 if rng.random() < 0.7 else 3
        u = 2e-5 if dt == 'float32' else 1e-12
        Efix = 10 ** rng.uniform(-3, 4, m) * MEV
        Efree = 10 ** rng.uniform(-3, 4, m) * MEV
        L1, L2 = 10 ** rng.uniform(-1, 3, m), 10 ** rng.uniform(-1, 3, m)
        if m == 1:
            E = sc.scalar(ft(Efix[0] / em), unit=eu, dtype=dt)
            l1 = sc.scalar(ft(L1[0] / lm), unit=lu, dtype=dt)
            l2 = sc.scalar(ft(L2[0] / lm), unit=lu, dtype=dt)
        else:
            E = sc.array(dims=['d'], values=(Efix / em).astype(dt), unit=eu, dtype=dt)
            l1 = sc.array(dims=['d'], values=(L1 / lm).astype(dt), unit=lu, dtype=dt)
            l2 = sc.array(dims=['d'], values=(L2 / lm).astype(dt), unit=lu, dtype=dt)
        Ev, l1v, l2v = (np.asarray(x.values, dtype=np.float64).reshape(-1) for x in (E, l1, l2))
        helper, helper_err = None, None
        try:
            t0 = k._energy_transfer_t0(E, sc.scalar(ft(1), unit=tu, dtype=dt), l1 if mode == 'direct' else l2)
            helper = np.asarray(sc.to_unit(t0, tu).values).reshape(-1)
            if len(helper) != m:
                helper, helper_err = None, f'{len(helper)} values for {m} situations'
        except Exception as ex:     # helper renamed / other signature / other return type
            helper_err = type(ex).__name__
        rows, tofs = [], []
        for j in range(m):
            # the physical situation is the one described by the operands as stored
            Efix_s, L1_s, L2_s = float(Ev[j]) * em, float(l1v[j]) * lm, float(l2v[j]) * lm
            Lfix_s, Lfree_s = (L1_s, L2_s) if mode == 'direct' else (L2_s, L1_s)
            t0f = Lfix_s * math.sqrt(mn / (2 * Efix_s)) / tm
            tfree = Lfree_s * math.sqrt(mn / (2 * Efree[j])) / tm
            t0_src = 'helper'
            if helper is None:
                t0_src = f'formula (helper unusable: {helper_err})'
                t0v = ft(t0f)
            else:
                t0v = ft(helper[j])
                if not (np.isfinite(t0v) and t0v > 0 and abs(float(t0v) - t0f) <= 1e-3 * t0f):
                    t0_src = f'formula (helper returned {float(t0v)!r})'
                    t0v = ft(t0f)
            after = [np.nextafter(t0v, ft(np.inf))]
            for _i in range(12):
                after.append(np.nextafter(after[-1], ft(np.inf)))
            after += [ft(t0v * (1 + f)) for f in (1e-6, 1e-5, 1e-4, 1e-3)]
            before = [t0v, np.nextafter(t0v, ft(0)), ft(t0v * 0.5)]
            tofs.append(np.array([ft(t0f + tfree)] + before + after, dtype=dt))
            rows.append({'t0v': t0v, 't0f': t0f, 'Efix_s': Efix_s, 'Lfree_s': Lfree_s, 'nb': 1 + len(before), 't0_src': t0_src,
                         'Efree_meV': float(Efree[j] / MEV)})
        nt = len(tofs[0])
        if m == 1:
            t = sc.array(dims=['t'], values=tofs[0], unit=tu, dtype=dt)
        else:
            t = sc.array(dims=['d', 't'], values=np.stack(tofs), unit=tu, dtype=dt)
        ename = 'incident_energy' if mode == 'direct' else 'final_energy'
        kw = {'tof': t, 'L1': l1, 'L2': l2, ename: E}

        route_shown = route

        def describe(j):
            return {'mode': mode, 'route': route_shown, 'dtype': dt, 'layout': 'scalar operands' if m == 1 else f'{m} detectors (situation {j} shown)',
                    'fixed_energy': [[float(x) for x in Ev] if m > 1 else float(Ev[0]), eu],
                    'L1': [[float(x) for x in l1v] if m > 1 else float(l1v[0]), lu], 'L2': [[float(x) for x in l2v] if m > 1 else float(l2v[0]), lu],
                    'tof_unit': tu, 't0': float(rows[j]['t0v']), 't0_source': rows[j]['t0_src'],
                    'free_leg_energy_meV': rows[j]['Efree_meV'], 'tof': [float(x) for x in tofs[j]]}
        cls = f'{dt}/{eu}/{route}' + ('' if m == 1 else '/per-detector')
        try:
            if route == 'kernel':
                fn = k.energy_transfer_direct_from_tof if mode == 'direct' else k.energy_transfer_indirect_from_tof
                r = fn(**kw)
            elif route == 'graph':
                from scippneutron.conversion.graph import tof as gtof
                fac = gtof.direct_inelastic if mode == 'direct' else gtof.indirect_inelastic
                r = fac('tof')['energy_transfer'](**kw)
            else:
                import scippneutron as scn
                cont = CONTAINERS[int(crng.integers(len(CONTAINERS)))]
                route_shown = 'convert' if cont[0] == 'DataArray' and cont[1] == ('dense',) else \
                    f'convert on {cont[0]}{list(cont[1])}, item {cont[2]} looked at'
                r = convert_container(cont, t, {kk: vv for kk, vv in kw.items() if kk != 'tof'}, crng)
        except Exception as ex:
            report(f'{mode}:sweep:{route}-raises', f'energy transfer ({mode}, {route}) raises {type(ex).__name__}: {str(ex)[:150]} '
                   'for positive finite operands', describe(0))
            continue
        if route_shown != route:
            cls += '/' + ('binned-DataArray' if cont[0] == 'DataArray' else f'Dataset-of-{len(cont[1])}')
        classes[cls] = classes.get(cls, 0) + 1
        try:
            if m > 1:
                r = r.transpose(['d', 't'])
            V = np.asarray(r.values, dtype=np.float64).reshape(m, -1)
            runit = r.unit
        except Exception as ex:
            report(f'{mode}:sweep:{route}-result-shape', f'energy transfer ({mode}, {route}) does not return numbers of the shape of the '
                   f'arrival times ({type(r).__name__}, {type(ex).__name__}: {str(ex)[:100]})', describe(0))
            continue
        if V.shape[1] != nt:
            report(f'{mode}:sweep:{route}-result-shape', f'energy transfer ({mode}, {route}) returns {V.size} elements for {m * nt} arrival times', describe(0))
            continue
        n += V.size
        if runit != sc.Unit(eu):
            report(f'{mode}:sweep:result-unit', f'energy transfer ({mode}, {route}) is returned in {runit}, the energy was supplied in {eu}',
                   dict(describe(0), result_unit=str(runit)))
            continue
        for j in range(m):
            desc = dict(describe(j), result=[repr(float(x)) for x in V[j]], result_unit=str(runit))
            check_row(V[j], np.asarray(tofs[j], dtype=np.float64), rows[j], desc, mode, route, dt, tu, eu, em, tm, u)
    print('RESULT ' + json.dumps({'harness_violations': hv, 'checked': n, 'classes': classes}))


if __name__ == '__main__':
    main()
