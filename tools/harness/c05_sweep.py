#!/venv/bin/python
"""c05_sweep.py — the "never infinite for finite inputs" clause of C05 evaluated on the implementation over the corner
the element-wise correspondence does not visit: ALL operands in one float type (float32 and float64), lengths in small
units (angstrom, nm, um) and large ones (km), times in s / ms / us, energies in ueV / meV / eV, arrival times from the
first representable value after the flight time of the fixed-energy leg (t0 as the implementation's own helper computes
it) up to t0 (1 + 1e-3): every result must be finite; at and before t0 it must be NaN.
stdin: {"seed": int, "n": int}; stdout: RESULT {"harness_violations": [...], "checked": int}"""
import json
import sys

import numpy as np
import scipp as sc


def main():
    req = json.load(sys.stdin)
    rng = np.random.default_rng(req.get('seed', 0))
    from scippneutron.conversion import tof as k
    hv, n = [], 0
    L_U = [('angstrom', 1e-10), ('nm', 1e-9), ('um', 1e-6), ('mm', 1e-3), ('m', 1.0), ('km', 1e3)]
    T_U = [('s', 1.0), ('ms', 1e-3), ('us', 1e-6)]
    E_U = [('meV', 1.602176634e-22), ('ueV', 1.602176634e-25), ('eV', 1.602176634e-19)]
    for _ in range(int(req.get('n', 300))):
        dt = rng.choice(['float32', 'float32', 'float64'])
        ft = np.float32 if dt == 'float32' else np.float64
        lu, lm = L_U[rng.integers(len(L_U))]
        tu, tm = T_U[rng.integers(len(T_U))]
        eu, em = E_U[rng.integers(len(E_U))]
        mode = rng.choice(['direct', 'indirect'])
        Efix = 10 ** rng.uniform(-3, 4) * 1.602176634e-22
        L1, L2 = 10 ** rng.uniform(-1, 3), 10 ** rng.uniform(-1, 3)
        E = sc.scalar(ft(Efix / em), unit=eu, dtype=dt)
        l1 = sc.scalar(ft(L1 / lm), unit=lu, dtype=dt)
        l2 = sc.scalar(ft(L2 / lm), unit=lu, dtype=dt)
        try:
            t0 = k._energy_transfer_t0(E, sc.scalar(ft(1), unit=tu, dtype=dt), l1 if mode == 'direct' else l2)
            t0v = ft(sc.to_unit(t0, tu).value)
        except Exception:
            continue            # helper renamed / changed: the element-wise correspondence and the proofs cover that
        if not np.isfinite(t0v) or t0v <= 0:
            continue
        after = [np.nextafter(t0v, ft(np.inf))]
        for _i in range(12):
            after.append(np.nextafter(after[-1], ft(np.inf)))
        after += [ft(t0v * (1 + f)) for f in (1e-6, 1e-5, 1e-4, 1e-3) if ft(t0v * (1 + f)) > t0v]
        before = [t0v, np.nextafter(t0v, ft(0)), ft(t0v * 0.5)]
        t = sc.array(dims=['t'], values=np.array(before + after, dtype=dt), unit=tu, dtype=dt)
        kw = dict(tof=t, L1=l1, L2=l2)
        try:
            if mode == 'direct':
                r = k.energy_transfer_direct_from_tof(incident_energy=E, **kw)
            else:
                r = k.energy_transfer_indirect_from_tof(final_energy=E, **kw)
        except Exception as ex:
            continue
        v = np.asarray(r.values, dtype=np.float64)
        n += len(v)
        desc = {'mode': str(mode), 'dtype': str(dt), 'fixed_energy': [float(E.value), eu], 'L1': [float(l1.value), lu],
                'L2': [float(l2.value), lu], 'tof_unit': tu, 't0': float(t0v), 'tof': [float(x) for x in t.values],
                'result': [repr(float(x)) for x in v]}
        if np.isinf(v).any() and len(hv) < 4:
            i = int(np.argmax(np.isinf(v)))
            hv.append({'key': f'{mode}:sweep:infinite-result',
                       'what': f'energy_transfer_{mode}_from_tof returns {v[i]} for the finite arrival time {float(t.values[i])!r} {tu} '
                               f'(t0 = {float(t0v)!r} {tu}, all operands {dt}): {desc}', 'replay': desc})
        if not np.isnan(v[:len(before)]).all() and len(hv) < 4:
            hv.append({'key': f'{mode}:sweep:not-nan-at-or-before-t0',
                       'what': f'energy_transfer_{mode}_from_tof returns a number at or before the flight time of the fixed-energy '
                               f'leg: {desc}', 'replay': desc})
    print('RESULT ' + json.dumps({'harness_violations': hv, 'checked': n}))


if __name__ == '__main__':
    main()
