#!/usr/bin/env python
"""C02 harness: run the REAL scippneutron.convert / deduce_conversion_graph on
configurations (origin, target, scatter, extras, subset-of-11, container).

stdin : {"names11": [...], "extras": [...], "nproc": n,
         "groups": [{"o":..,"t":..,"sc":bool,"obs":[{"x":bool,"p":int,"ds":bool,"seed":int}, ...]}, ...]}
stdout: RESULT {"groups": [{"obs": [{...observation...}], "msgs": [...], "ksets": [...], "graphs": [...]}],
                "scipp": version, "kernel_params": {...}}      (msg / rep_msg / kernels / rep are indices into the
                                                                group's msgs / msgs / ksets / graphs tables)

Per observation
  cls, msg       'ok' or the exception class name / str(exception) of convert
  kernels        sorted set of kernels (qualified 'tof.<name>' / 'beamline.<name>') that were CALLED; every
                 entry of the module-level graph tables is replaced, inside this process only, by a recorder
                 with the same keyword-only signature (scipp derives the dependencies from the signature)
  rep / rep_cls  the graph returned by deduce_conversion_graph for the same arguments as [[keys], kernel] rows
                 (dict order), or the exception class + message it raised
  same           the graph handed to transform_coords by convert is item-for-item (same keys, identical
                 function objects, same order) the one deduce_conversion_graph returns
  has_target     the target coordinate exists on the result
  prop           '' or what part of the PROPERTY TEXT fails on this input, judged by an independent
                 re-statement in this file (documented rules, mode selection, closed formulas evaluated with
                 plain scipp arithmetic and scipp.constants at rtol 1e-9; a supplied coordinate takes
                 precedence, so the random coordinate values are deliberately mutually inconsistent)
  unchanged      the input was not modified by the call
"""
import inspect
import json
import os
import sys

import numpy as np
import scipp as sc
from scipp.constants import h as H, m_n as MN

import scippneutron as scn
from scippneutron.conversion import tof as ktof
from scippneutron.conversion.graph import beamline as gbl, tof as gtof

CALLS = []
GRAPHS = []


def qual(f):
    mod = getattr(f, '__module__', '?') or '?'
    short = {'scippneutron.conversion.tof': 'tof', 'scippneutron.conversion.beamline': 'beamline'}.get(mod, '?' + mod)
    return f'{short}.{getattr(f, "__name__", "?")}'


def wrap(f):
    if getattr(f, '_c02_wrapped', False):
        return f
    spec = inspect.getfullargspec(f)
    if spec.varargs is not None or spec.varkw is not None:
        raise RuntimeError(f'kernel {qual(f)} takes *args/**kwargs')
    pos, kwo = list(spec.args), list(spec.kwonlyargs)
    sig = ', '.join(pos + (['*'] if kwo else []) + kwo)
    call = ', '.join(f'{n}={n}' for n in pos + kwo)
    ns = {'_rec': CALLS.append, '_q': qual(f), '_f': f}
    exec(f'def w({sig}):\n    _rec(_q)\n    return _f({call})\n', ns)
    w = ns['w']
    w.__name__ = f.__name__
    w.__module__ = f.__module__
    w._c02_wrapped = True
    w._c02_q = qual(f)
    return w


def install_recorders():
    tables = list(gtof._GRAPH_DYNAMICS_BY_ORIGIN.values()) + [gbl._SCATTER_GRAPH_BEAMLINE, gbl._NO_SCATTER_GRAPH_BEAMLINE]
    for tbl in tables:
        for k, f in list(tbl.items()):
            if callable(f):
                tbl[k] = wrap(f)
    # the inelastic graphs are dict displays inside functions that look the kernels up in the kernel module
    for nm in ('energy_transfer_direct_from_tof', 'energy_transfer_indirect_from_tof'):
        if hasattr(ktof, nm):
            setattr(ktof, nm, wrap(getattr(ktof, nm)))
    for cls in (sc.DataArray, sc.Dataset):
        orig = cls.transform_coords

        def tc(self, *a, _orig=orig, **k):
            GRAPHS.append(k.get('graph', a[1] if len(a) > 1 else None))
            return _orig(self, *a, **k)
        cls.transform_coords = tc


def graph_rows(g):
    rows = []
    for k, f in g.items():
        keys = [k] if isinstance(k, str) else list(k)
        rows.append([keys, getattr(f, '_c02_q', None) or (f if isinstance(f, str) else qual(f))])
    return rows


# ---------------------------------------------------------------------------- data
UNIT = {'tof': 'us', 'wavelength': 'angstrom', 'energy': 'meV', 'Q': '1/angstrom'}


def vec(rng, lo, hi):
    v = rng.normal(size=3)
    v = v / np.linalg.norm(v) * rng.uniform(lo, hi)
    return v


def make_coord(name, rng):
    ns = 2
    if name == 'position':
        return sc.vectors(dims=['spectrum'], values=np.array([vec(rng, 1, 20) for _ in range(ns)]), unit='m')
    if name in ('source_position', 'sample_position', 'incident_beam'):
        return sc.vector(vec(rng, 1, 30), unit='m')
    if name == 'scattered_beam':
        return sc.vectors(dims=['spectrum'], values=np.array([vec(rng, 1, 10) for _ in range(ns)]), unit='m')
    if name == 'L1':
        return sc.scalar(rng.uniform(5, 40), unit='m')
    if name in ('L2', 'Ltotal'):
        return sc.array(dims=['spectrum'], values=rng.uniform(1, 50, size=ns), unit='m')
    if name == 'two_theta':
        return sc.array(dims=['spectrum'], values=rng.uniform(0.1, 3.0, size=ns), unit='rad')
    if name in ('incident_energy', 'final_energy'):
        return sc.scalar(rng.uniform(5, 200), unit='meV')
    if name in ('u_matrix', 'sample_rotation'):
        return sc.spatial.linear_transform(value=rng.normal(size=(3, 3)) + 2 * np.eye(3))
    if name == 'b_matrix':
        return sc.spatial.linear_transform(value=rng.normal(size=(3, 3)) + 2 * np.eye(3), unit='1/angstrom')
    if name == 'pulse_time':
        return sc.scalar(rng.uniform(0, 1e5), unit='us')
    raise KeyError(name)


def make_origin(o, rng, n):
    lo, hi = {'tof': (2000, 30000), 'wavelength': (0.5, 10), 'energy': (1, 200), 'Q': (0.3, 12)}[o]
    return sc.array(dims=[o], values=np.sort(rng.uniform(lo, hi, size=n)), unit=UNIT[o])


def build(o, present, ds, seed):
    rng = np.random.default_rng(seed)
    edges = bool(rng.integers(0, 2))
    da = sc.DataArray(sc.array(dims=['spectrum', o], values=rng.uniform(0, 10, size=(2, 3)), unit='counts'))
    da.coords[o] = make_origin(o, rng, 4 if edges else 3)
    for nm in present:
        da.coords[nm] = make_coord(nm, rng)
    if ds:
        return sc.Dataset({'a': da, 'b': da * 2.0})
    return da


# ---------------------------------------------------------------------------- the property text, restated
BEAMLINE_SC = [(['incident_beam'], ['source_position', 'sample_position']), (['scattered_beam'], ['position', 'sample_position']),
               (['L1'], ['incident_beam']), (['L2'], ['scattered_beam']), (['two_theta'], ['incident_beam', 'scattered_beam']),
               (['Ltotal'], ['L1', 'L2'])]
QHKL = [(['Q'], ['wavelength', 'two_theta']), (['Qx', 'Qy', 'Qz'], ['wavelength', 'incident_beam', 'scattered_beam']),
        (['Q_vec'], ['Qx', 'Qy', 'Qz']), (['ub_matrix'], ['u_matrix', 'b_matrix']),
        (['hkl_vec'], ['Q_vec', 'ub_matrix', 'sample_rotation']), (['h', 'k', 'l'], ['hkl_vec'])]
DYN = {
    'tof': [(['wavelength'], ['tof', 'Ltotal']), (['energy'], ['tof', 'Ltotal']), (['dspacing'], ['tof', 'Ltotal', 'two_theta']),
            (['time_at_sample'], ['pulse_time', 'tof', 'L2', 'wavelength'])] + QHKL,
    'wavelength': [(['energy'], ['wavelength']), (['dspacing'], ['wavelength', 'two_theta'])] + QHKL,
    'energy': [(['wavelength'], ['energy']), (['dspacing'], ['energy', 'two_theta'])],
    'Q': [(['wavelength'], ['Q', 'two_theta'])],
}


def spec_mode(pres, o, t):
    ie, fe = 'incident_energy' in pres, 'final_energy' in pres
    if t == 'energy_transfer':
        if ie and fe or not (ie or fe):
            return None
        return 'direct' if ie else 'indirect'
    if 'energy' in (o, t) and (ie or fe):
        return None
    return 'elastic'


def spec_rules(sc_, mode, o):
    if not sc_:
        return [(['Ltotal'], ['source_position', 'position']), (['wavelength'], ['tof', 'Ltotal']), (['energy'], ['tof', 'Ltotal'])]
    if mode == 'elastic':
        return BEAMLINE_SC + DYN.get(o, [])
    last = 'incident_energy' if mode == 'direct' else 'final_energy'
    return BEAMLINE_SC + [(['energy_transfer'], ['tof', 'L1', 'L2', last])]


def derivable(rules, pres):
    S = set(pres)
    changed = True
    while changed:
        changed = False
        for outs, ins in rules:
            if all(i in S for i in ins) and not all(x in S for x in outs):
                S |= set(outs)
                changed = True
    return S


def sinh2(tt):
    return sc.sin(0.5 * tt)


def formula(name, rule_ins, mode, sc_, o, get):
    """the documented closed formula for `name` from the values of its inputs (plain scipp arithmetic)"""
    g = get
    if name == 'incident_beam':
        return g('sample_position') - g('source_position')
    if name == 'scattered_beam':
        return g('position') - g('sample_position')
    if name == 'L1':
        return sc.norm(g('incident_beam'))
    if name == 'L2':
        return sc.norm(g('scattered_beam'))
    if name == 'two_theta':
        a, b = g('incident_beam'), g('scattered_beam')
        return sc.acos(sc.dot(a, b) / (sc.norm(a) * sc.norm(b)))
    if name == 'Ltotal':
        if sc_:
            return g('L1') + g('L2')
        return sc.norm(g('position') - g('source_position'))
    if name == 'energy_transfer':
        tof, L1, L2 = g('tof'), g('L1'), g('L2')
        if mode == 'direct':
            Ei = g('incident_energy')
            dt = tof - sc.to_unit(L1 * sc.sqrt(MN / (2 * Ei)), tof.unit)
            val = Ei - sc.to_unit(MN / 2 * (L2 / dt) ** 2, Ei.unit)
        else:
            Ef = g('final_energy')
            dt = tof - sc.to_unit(L2 * sc.sqrt(MN / (2 * Ef)), tof.unit)
            val = sc.to_unit(MN / 2 * (L1 / dt) ** 2, Ef.unit) - Ef
        return sc.where(dt <= sc.scalar(0.0, unit=dt.unit), sc.scalar(np.nan, unit=val.unit), val)
    if name == 'wavelength':
        if 'tof' in rule_ins:
            return sc.to_unit(H * g('tof') / (MN * g('Ltotal')), 'angstrom')
        if 'energy' in rule_ins:
            return sc.to_unit(H / sc.sqrt(2 * MN * g('energy')), 'angstrom')
        return 4 * np.pi * sinh2(g('two_theta')) / g('Q')
    if name == 'energy':
        if 'tof' in rule_ins:
            return sc.to_unit(MN / 2 * (g('Ltotal') / g('tof')) ** 2, 'meV')
        return sc.to_unit(H * H / (2 * MN * g('wavelength') ** 2), 'meV')
    if name == 'dspacing':
        if 'tof' in rule_ins:
            lam = sc.to_unit(H * g('tof') / (MN * g('Ltotal')), 'angstrom')
        elif 'energy' in rule_ins:
            lam = sc.to_unit(H / sc.sqrt(2 * MN * g('energy')), 'angstrom')
        else:
            lam = g('wavelength')
        return lam / (2 * sinh2(g('two_theta')))
    if name == 'Q':
        return 4 * np.pi * sinh2(g('two_theta')) / g('wavelength')
    if name in ('Qx', 'Qy', 'Qz'):
        a, b = g('incident_beam'), g('scattered_beam')
        e = a / sc.norm(a) - b / sc.norm(b)
        return (2 * np.pi / g('wavelength')) * getattr(e.fields, name[1])
    if name == 'Q_vec':
        return sc.spatial.as_vectors(g('Qx'), g('Qy'), g('Qz'))
    if name == 'ub_matrix':
        return g('u_matrix') * g('b_matrix')
    if name == 'hkl_vec':
        return sc.spatial.inv(g('sample_rotation') * g('ub_matrix')) * g('Q_vec') / (2 * np.pi)
    if name in ('h', 'k', 'l'):
        return getattr(g('hkl_vec').fields, {'h': 'x', 'k': 'y', 'l': 'z'}[name])
    if name == 'time_at_sample':
        tof = g('tof')
        return g('pulse_time') + tof - sc.to_unit(g('L2') * g('wavelength') * MN / H, tof.unit)
    raise KeyError(name)


def expected_value(t, rules, mode, sc_, o, coords):
    memo = {}

    def get(n):
        if n in coords:                       # a supplied coordinate takes precedence
            return coords[n]
        if n not in memo:
            for outs, ins in rules:
                if n in outs:
                    memo[n] = formula(n, ins, mode, sc_, o, get)
                    break
            else:
                raise KeyError(n)
        return memo[n]
    return get(t)


def values_close(got, want):
    if set(got.dims) != set(want.dims):
        extra_g = [d for d in got.dims if d not in want.dims]
        extra_w = [d for d in want.dims if d not in got.dims]
        if len(extra_g) == 1 and len(extra_w) == 1:
            want = want.rename_dims({extra_w[0]: extra_g[0]})
        else:
            return False, f'dims {got.dims} vs {want.dims}'
    want = want.transpose(got.dims) if got.ndim else want
    if got.unit != want.unit:
        try:
            want = sc.to_unit(want, got.unit)
        except Exception:
            return False, f'unit {got.unit} vs {want.unit}'
    a, b = np.asarray(got.values, dtype=float), np.asarray(want.values, dtype=float)
    if a.shape != b.shape:
        return False, f'shape {a.shape} vs {b.shape}'
    scale = np.nanmax(np.abs(b)) if b.size and np.isfinite(b).any() else 1.0
    ok = np.allclose(a, b, rtol=1e-9, atol=1e-9 * scale, equal_nan=True)
    if ok:
        return True, ''
    i = int(np.nanargmax(np.abs(a - b))) if np.isfinite(a - b).any() else 0
    return False, f'value {a.flat[i]!r} vs formula {b.flat[i]!r}'


def judge(o, t, sc_, pres, coords, ob, result):
    """'' or the clause of the property text that fails"""
    mode = spec_mode(pres, o, t)
    if mode is None:
        return '' if ob['cls'] == 'RuntimeError' else f'ambiguous-mode-not-refused:{ob["cls"]}'
    rules = spec_rules(sc_, mode, o)
    der = t in derivable(rules, pres)
    if not der:
        return '' if ob['cls'] == 'RuntimeError' else f'underivable-target-not-refused:{ob["cls"]}'
    if ob['cls'] != 'ok':
        return f'derivable-target-refused:{ob["cls"]}'
    if not ob['has_target']:
        return 'target-missing-on-result'
    ks = set(ob['kernels'])
    d, i = 'tof.energy_transfer_direct_from_tof' in ks, 'tof.energy_transfer_indirect_from_tof' in ks
    if t == 'energy_transfer':
        if d != (mode == 'direct') or i != (mode == 'indirect'):
            return f'wrong-scattering-mode-kernel:{sorted(ks)}'
    elif d or i:
        return 'inelastic-kernel-in-elastic-conversion'
    try:
        want = expected_value(t, rules, mode, sc_, o, coords)
    except Exception as ex:       # the restatement itself failed: report, do not hide
        return f'formula-evaluation-failed:{type(ex).__name__}:{ex}'
    ok, why = values_close(result.coords[t], want)
    return '' if ok else 'value-differs-from-documented-formula:' + why


def observe(o, t, sc_, names11, extras, ob):
    pres = [n for i, n in enumerate(names11) if (ob['p'] >> i) & 1] + (list(extras) if ob['x'] else [])
    data = build(o, pres, ob['ds'], ob['seed'])
    ref = data.copy(deep=True)
    coords = dict(data.coords.items())
    out = {}
    CALLS.clear()
    GRAPHS.clear()
    result = None
    try:
        result = scn.convert(data, origin=o, target=t, scatter=sc_)
        out['cls'], out['msg'] = 'ok', ''
    except Exception as ex:
        out['cls'], out['msg'] = type(ex).__name__, str(ex.args[0]) if ex.args else ''
    out['kernels'] = sorted(set(CALLS))
    used = list(GRAPHS)
    out['has_target'] = bool(result is not None and t in result.coords)
    try:
        rep = scn.deduce_conversion_graph(data, origin=o, target=t, scatter=sc_)
        out['rep_cls'], out['rep_msg'], out['rep'] = 'ok', '', graph_rows(rep)
        out['same'] = (len(used) == 1 and isinstance(used[0], dict) and list(used[0].keys()) == list(rep.keys())
                       and all(used[0][k] is rep[k] for k in rep))
    except Exception as ex:
        out['rep_cls'], out['rep_msg'], out['rep'] = type(ex).__name__, str(ex.args[0]) if ex.args else '', []
        out['same'] = (len(used) == 0 and out['cls'] == out['rep_cls'] and out['msg'] == out['rep_msg'])
    out['unchanged'] = bool(sc.identical(data, ref, equal_nan=True))
    try:
        out['prop'] = judge(o, t, sc_, set(pres) | {o}, coords, out, result)
    except Exception as ex:
        out['prop'] = f'judge-crashed:{type(ex).__name__}:{ex}'
    return out


def intern(table, index, item):
    key = json.dumps(item)
    if key not in index:
        index[key] = len(table)
        table.append(item)
    return index[key]


def run_groups(payload, groups):
    """per group the messages, kernel sets and reported graphs are interned: obs refer to them by index"""
    res = []
    for g in groups:
        msgs, ksets, graphs = [], [], []
        mi, ki, gi = {}, {}, {}
        obs = []
        for ob in g['obs']:
            r = observe(g['o'], g['t'], g['sc'], payload['names11'], payload['extras'], ob)
            r['msg'] = intern(msgs, mi, r['msg'])
            r['rep_msg'] = intern(msgs, mi, r['rep_msg'])
            r['kernels'] = intern(ksets, ki, r['kernels'])
            r['rep'] = intern(graphs, gi, r['rep'])
            obs.append(r)
        res.append({'obs': obs, 'msgs': msgs, 'ksets': ksets, 'graphs': graphs})
    return res


def main():
    payload = json.load(sys.stdin)
    sc.get_logger().setLevel('ERROR')
    install_recorders()
    # earlier callers wrecked every graph the package handed them (see _poison.py); no effect unless state is shared
    import _poison
    _poison.poison_graph_factories()
    groups = payload['groups']
    nproc = int(payload.get('nproc', 1))
    if nproc > 1 and len(groups) > 1:
        # recorders were installed before the fork, every worker has its own copy
        import multiprocessing as mp
        ctxm = mp.get_context('fork')
        chunks = [groups[i::nproc] for i in range(nproc)]
        with ctxm.Pool(nproc) as pool:
            parts = pool.starmap(run_groups, [(payload, c) for c in chunks])
        out = [None] * len(groups)
        for k, part in enumerate(parts):
            for j, r in enumerate(part):
                out[k + j * nproc] = r
    else:
        out = run_groups(payload, groups)
    kp = {}
    for tbl in list(gtof._GRAPH_DYNAMICS_BY_ORIGIN.values()) + [gbl._SCATTER_GRAPH_BEAMLINE, gbl._NO_SCATTER_GRAPH_BEAMLINE]:
        for f in tbl.values():
            if callable(f):
                sp = inspect.getfullargspec(f)
                kp[getattr(f, '_c02_q', qual(f))] = list(sp.args) + list(sp.kwonlyargs)
    print('RESULT ' + json.dumps({'groups': out, 'scipp': sc.__version__, 'kernel_params': kp}))


if __name__ == '__main__':
    main()
