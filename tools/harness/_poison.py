"""_poison.py — "earlier callers did whatever they liked with what they were handed".

poison_graph_factories() calls every public conversion-graph factory of the package (the functions of
scippneutron.conversion.graph.tof / .beamline, scippneutron.conversion_graph and — when data is given —
scippneutron.deduce_conversion_graph) with every admissible argument combination and then WRECKS the returned
dictionaries in place: every node is replaced by a function that raises, then the dictionary is emptied.  On an
implementation whose factories hand out independent objects this has no effect whatsoever on later calls; if a
factory hands out a shared object (a cached dict, a module-level table) every later conversion through that graph
fails or returns garbage and the harness's ordinary comparison with the model reports it.  Harnesses run this prelude
before their cases, so every case is "a call made after other callers customised their graphs" — one of the
histories the properties quantify over."""
import inspect
import itertools


class PoisonedGraph(Exception):
    pass


def _poisoned(*a, **k):
    raise PoisonedGraph('this graph node belongs to an earlier caller who replaced it')


STARTS = ['tof', 'wavelength', 'energy', 'Q', 'dspacing']
TARGETS = ['wavelength', 'energy', 'dspacing', 'Q', 'Q_vec', 'hkl_vec', 'energy_transfer', 'two_theta', 'Ltotal', 'L1', 'L2',
           'incident_beam', 'scattered_beam', 'tof', 'h', 'k', 'l', 'Qx', 'Qy', 'Qz']
CHOICES = {
    'start': STARTS, 'origin': STARTS, 'target': TARGETS, 'scatter': [True, False],
    'energy_mode': ['elastic', 'direct_inelastic', 'indirect_inelastic'],
}


def _wreck(g):
    n = 0
    try:
        if isinstance(g, dict):
            for k in list(g):
                g[k] = _poisoned
                n += 1
            g.clear()
    except Exception:
        pass
    return n


def _call_all(fn):
    """call fn with every combination of admissible values for its parameters; returns the results that are dicts"""
    try:
        sig = inspect.signature(fn)
    except (TypeError, ValueError):
        return []
    names = [p for p in sig.parameters]
    spaces = []
    for nm in names:
        if nm in CHOICES:
            spaces.append(CHOICES[nm])
        elif sig.parameters[nm].default is not inspect.Parameter.empty:
            spaces.append([sig.parameters[nm].default])
        else:
            return []
    out = []
    for combo in itertools.product(*spaces):
        kw = dict(zip(names, combo))
        for attempt in (lambda: fn(**kw), lambda: fn(*combo)):       # keyword and positional (caches key on both)
            try:
                r = attempt()
            except Exception:
                continue
            if isinstance(r, dict):
                out.append(r)
    return out


def poison_graph_factories(data_samples=()):
    """returns the number of graph nodes wrecked (reported in the harness result for the evidence)"""
    import importlib
    n = 0
    graphs = []
    for modname in ('scippneutron.conversion.graph.tof', 'scippneutron.conversion.graph.beamline'):
        try:
            m = importlib.import_module(modname)
        except Exception:
            continue
        for name, fn in sorted(vars(m).items()):
            if name.startswith('_') or not inspect.isfunction(fn) or fn.__module__ != modname:
                continue
            graphs += _call_all(fn)
    try:
        import scippneutron as scn
        graphs += _call_all(scn.conversion_graph)
        for da in data_samples:
            for origin, target, scatter in itertools.product(STARTS, TARGETS, [True, False]):
                for attempt in (lambda: scn.deduce_conversion_graph(da, origin, target, scatter),
                                lambda: scn.deduce_conversion_graph(da, origin=origin, target=target, scatter=scatter)):
                    try:
                        r = attempt()
                    except Exception:
                        continue
                    if isinstance(r, dict):
                        graphs.append(r)
    except Exception:
        pass
    for g in graphs:
        n += _wreck(g)
    return n
