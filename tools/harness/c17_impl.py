"""C17 harness: run scippneutron.peaks.fit_peaks / remove_peaks on the given data sets and record
what the property speaks about: per peak window, assessment, models, popt, statistics, message, the
exception (if any), and the answers of the two library ORACLES the code consults
(scipp.scipy.optimize.curve_fit and scipy.stats.chi2(dof).cdf), which are wrapped INSIDE THIS PROCESS
(nothing in /repo is touched).  All numbers travel as binary64 hex strings.

stdin: {"cases": [...]}      stdout: RESULT {"cases": [...], "versions": {...}}
"""
import json
import math
import sys
import warnings

import numpy as np
import scipp as sc

warnings.simplefilter('ignore')

import scippneutron.peaks as peaks                      # noqa: E402
from scippneutron.peaks import _fit_peaks as fpm        # noqa: E402
from scippneutron.peaks import model as pm              # noqa: E402

XU, YU = 'm', 'K'


def hx(v):
    v = float(v)
    if math.isnan(v):
        return 'nan'
    if math.isinf(v):
        return 'inf' if v > 0 else '-inf'
    return v.hex()


def unhx(s):
    if s in ('nan', 'inf', '-inf'):
        return float(s)
    return float.fromhex(s)


def ascii_msg(m):
    m = str(m).replace('\n', ' ').replace('\r', ' ')
    return ''.join(c if 32 <= ord(c) < 127 else '?' for c in m)[:300]


def exc_class(e):
    for c in (sc.VariancesError, sc.CoordError, sc.DimensionError, sc.UnitError, IndexError, KeyError,
              RuntimeError, ValueError, TypeError, ZeroDivisionError):
        if isinstance(e, c):
            return c.__name__
    return type(e).__name__


def kind_of(m):
    if isinstance(m, pm.PolynomialModel):
        return {'poly': m.degree}
    if isinstance(m, pm.GaussianModel):
        return {'peak': 'gaussian'}
    if isinstance(m, pm.LorentzianModel):
        return {'peak': 'lorentzian'}
    if isinstance(m, pm.PseudoVoigtModel):
        return {'peak': 'pseudo_voigt'}
    return {'other': type(m).__name__}


def fm_of(model):
    if isinstance(model, pm.CompositeModel):
        return {'bkg': kind_of(model._left), 'peak': kind_of(model._right)}
    return {'bkg': kind_of(model), 'peak': None}


# ----------------------------------------------------------------------------- oracle recorders
class Recorder:
    def __init__(self):
        self.trace = []
        self.cdf = []

    def install(self):
        self.orig_cf = fpm.curve_fit
        self.orig_chi2 = fpm._scipy_chi2
        rec = self

        def curve_fit(f, da, *args, **kw):
            model = None
            for cell in (getattr(f, '__closure__', None) or ()):
                try:
                    if isinstance(cell.cell_contents, pm.Model):
                        model = cell.cell_contents
                except ValueError:
                    pass
            if model is None and isinstance(f, pm.Model):
                model = f
            p0 = kw.get('p0')
            bounds = kw.get('bounds') or {}
            x = da.coords[da.dim].values
            ent = {'fm': fm_of(model) if model is not None else None, 'n': int(len(da)),
                   'x0': hx(x[0]) if len(x) else hx(0.0),
                   'p0': sorted(p0) if p0 else [],
                   'bounds': {k: [hx(v[0]), hx(v[1])] for k, v in sorted(bounds.items())}}
            try:
                out = rec.orig_cf(f, da, *args, **kw)
            except RuntimeError as e:
                ent['err'] = ascii_msg(e.args[0] if e.args else '')
                rec.trace.append(ent)
                raise
            except Exception as e:
                ent['err_other'] = exc_class(e) + ': ' + ascii_msg(e)
                rec.trace.append(ent)
                raise
            popt = out[0]
            ent['popt'] = {k: hx(v.value) for k, v in sorted(popt.items())}
            try:
                fv = model(da.coords[da.dim], **{k: sc.values(v) for k, v in popt.items()})
                ent['fvals'] = [hx(v) for v in fv.values]
            except Exception as e:     # noqa: BLE001
                ent['fvals_err'] = exc_class(e)
                ent['fvals'] = []
            rec.trace.append(ent)
            return out

        class Chi2:
            def __call__(self, dof):
                frozen = rec.orig_chi2(dof)

                class F:
                    def cdf(self, x):
                        r = frozen.cdf(x)
                        rec.cdf.append({'dof': int(dof), 'x': hx(x), 'cdf': hx(r)})
                        return r
                return F()

        fpm.curve_fit = curve_fit
        fpm._scipy_chi2 = Chi2()

    def remove(self):
        fpm.curve_fit = self.orig_cf
        fpm._scipy_chi2 = self.orig_chi2


# ----------------------------------------------------------------------------- inputs
def build_item(it):
    if 'name' in it:
        return it['name']
    k = it['inst']
    pre = it.get('prefix', '')
    if k == 'poly':
        return pm.PolynomialModel(degree=it['degree'], prefix=pre)
    return {'gaussian': pm.GaussianModel, 'lorentzian': pm.LorentzianModel,
            'pseudo_voigt': pm.PseudoVoigtModel}[k](prefix=pre)


def build_spec(sp):
    items = [build_item(i) for i in sp['items']]
    if sp['form'] == 'one':
        return items[0]
    return tuple(items) if sp.get('container') == 'tuple' else list(items)


def build_data(c, with_var=True):
    x = sc.array(dims=['x'], values=np.array([unhx(v) for v in c['x']], dtype=float), unit=XU)
    y = sc.array(dims=['x'], values=np.array([unhx(v) for v in c['y']], dtype=float), unit=YU)
    if with_var:
        y.variances = np.array([unhx(v) for v in c['var']], dtype=float)
    return sc.DataArray(y, coords={'x': x})


def result_record(r):
    return {
        'window': [hx(r.window.values[0]), hx(r.window.values[1])],
        'assessment': r.assessment.name,
        'peak': kind_of(r.peak), 'bkg': kind_of(r.background),
        'peak_prefix': r.peak.prefix, 'bkg_prefix': r.background.prefix,
        'popt': {k: hx(v.value) for k, v in sorted(r.popt.items())},
        'red': hx(r.red_chisq.value), 'p': hx(r.p_value.value), 'aic': hx(r.aic.value),
        'msg': ascii_msg(r.message), 'success': bool(r.success),
    }


def run_fit(c):
    out = {'id': c['id']}
    da = build_data(c)
    before = da.copy(deep=True)
    est = sc.array(dims=['x'], values=np.array([unhx(v) for v in c['est']], dtype=float), unit=XU)
    est_before = est.copy()
    kw = {}
    if c.get('fp') is not None:
        kw['fit_parameters'] = peaks.FitParameters(guess_background_fraction=unhx(c['fp']['f']),
                                                   neighbor_separation_factor=unhx(c['fp']['s']))
    if c.get('fr') is not None:
        kw['fit_requirements'] = peaks.FitRequirements(min_p_value=unhx(c['fr']['min_p']),
                                                       max_peak_width_factor=unhx(c['fr']['maxf']),
                                                       min_peak_width_factor=unhx(c['fr']['minf']))
    if 'scalar' in c['windows']:
        windows = sc.scalar(unhx(c['windows']['scalar']), unit=XU)
    else:
        windows = sc.array(dims=['x', 'range'],
                           values=np.array([[unhx(a), unhx(b)] for a, b in c['windows']['explicit']],
                                           dtype=float).reshape(-1, 2), unit=XU)
    windows_before = windows.copy()
    rec = Recorder()
    rec.install()
    results = None
    try:
        results = peaks.fit_peaks(da, peak_estimates=est, windows=windows,
                                  background=build_spec(c['bkg']), peak=build_spec(c['peak']), **kw)
        out['exc'] = None
    except Exception as e:      # noqa: BLE001
        out['exc'] = {'cls': exc_class(e), 'type': type(e).__name__, 'msg': ascii_msg(e)}
    finally:
        rec.remove()
    out['trace'] = rec.trace
    out['cdf'] = rec.cdf
    out['input_unchanged'] = bool(sc.identical(da, before) and sc.identical(est, est_before)
                                  and sc.identical(windows, windows_before))
    out['windows'] = None
    if results is not None:
        out['results'] = [result_record(r) for r in results]
        out['windows'] = [r['window'] for r in out['results']]
        out['n_results'] = len(results)
        if c.get('solo'):
            out['solos'] = run_solos(c, results, kw)
    elif 'scalar' in c['windows']:
        # the call raised: ask the window construction alone (anchored private function) what it built
        try:
            w = fpm._fit_windows(da, est, windows, kw.get('fit_parameters') or peaks.FitParameters())
            out['windows'] = [[hx(a), hx(b)] for a, b in w.values.reshape(-1, 2)]
        except Exception as e:      # noqa: BLE001
            out['windows_exc'] = exc_class(e)
    return out, results


def run_solos(c, results, kw):
    """every (peak item, background item) combination of the model lists fitted ON ITS OWN: one fit_peaks call
    per combination with a single-model specification and, as explicit windows, exactly the windows of the
    list-specification call.  The oracle recorders are NOT installed (these are plain calls of the public
    function)."""
    da = build_data(c)
    est = sc.array(dims=['x'], values=np.array([unhx(v) for v in c['est']], dtype=float), unit=XU)
    wv = np.array([[r.window.values[0], r.window.values[1]] for r in results], dtype=float).reshape(-1, 2)
    windows = sc.array(dims=['x', 'range'], values=wv, unit=XU)
    if len(c['est']) != len(results):
        est = sc.array(dims=['x'], values=wv.mean(axis=1), unit=XU)
    out = []
    for ip, pit in enumerate(c['peak']['items']):
        for ib, bit in enumerate(c['bkg']['items']):
            ent = {'ip': ip, 'ib': ib}
            try:
                rs = peaks.fit_peaks(da, peak_estimates=est, windows=windows,
                                     background=build_item(bit), peak=build_item(pit), **kw)
                ent['exc'] = None
                ent['results'] = [result_record(r) for r in rs]
            except Exception as e:      # noqa: BLE001
                ent['exc'] = {'cls': exc_class(e), 'type': type(e).__name__, 'msg': ascii_msg(e)}
            out.append(ent)
    return out


def synth_result(s):
    peak = build_item({'inst': s['peak'], 'prefix': 'peak_'})
    bkg = pm.PolynomialModel(degree=1, prefix='bkg_')
    popt = {k: sc.scalar(unhx(v), unit=u) for k, (v, u) in s['popt'].items()}
    return peaks.FitResult(aic=sc.scalar(np.nan), assessment=peaks.FitAssessment[s['assessment']],
                           background=bkg, message='', p_value=sc.scalar(np.nan), peak=peak, popt=popt,
                           red_chisq=sc.scalar(np.nan),
                           window=sc.array(dims=['range'], values=[unhx(s['window'][0]), unhx(s['window'][1])],
                                           unit=XU))


class _ReIterable:
    """an Iterable that is neither a Sequence nor sized: only __iter__ (a fresh generator on every call)"""

    def __init__(self, items):
        self._items = list(items)

    def __iter__(self):
        yield from self._items


def _always(_):
    return True


def _same(r):
    return r


FORMS = ('tuple', 'iter', 'gen', 'filter', 'map', 'dict_values', 'deque', 'chain', 'iterable_obj')


def as_iterable(results, form):
    """the same sequence of FitResults in another documented `Iterable[FitResult]` form (one-shot iterators are
    built fresh for every call)"""
    results = list(results)
    if form == 'list':
        return results
    if form == 'tuple':
        return tuple(results)
    if form == 'iter':
        return iter(results)
    if form == 'gen':
        return (r for r in results)
    if form == 'filter':
        return filter(_always, results)
    if form == 'map':
        return map(_same, results)
    if form == 'dict_values':
        return {i: r for i, r in enumerate(results)}.values()
    if form == 'deque':
        import collections
        return collections.deque(results)
    if form == 'chain':
        import itertools
        k = len(results) // 2
        return itertools.chain(results[:k], results[k:])
    if form == 'iterable_obj':
        return _ReIterable(results)
    raise ValueError(f'unknown iterable form {form!r}')


def call_remove(c, results, form, with_var):
    da = build_data(c, with_var=with_var)
    before = da.copy(deep=True)
    ent = {}
    try:
        out = peaks.remove_peaks(da, as_iterable(results, form))
        ent['exc'] = None
        ent['out'] = [hx(v) for v in out.values]
        ent['out_x_same'] = bool(sc.identical(out.coords['x'], before.coords['x']))
        ent['out_has_var'] = out.variances is not None
    except Exception as e:      # noqa: BLE001
        ent['exc'] = {'cls': exc_class(e), 'type': type(e).__name__, 'msg': ascii_msg(e)}
    ent['input_after'] = [hx(v) for v in da.values]
    ent['input_identical'] = bool(sc.identical(da, before))
    return ent


def run_remove(c, results, label, with_var=False, forms=()):
    """remove_peaks(data without variances, results): output, the input afterwards, and the fitted
    peak of every result evaluated (by FitResult.eval_peak) on the whole coordinate.  `results` is passed as a
    list and, for every name in `forms`, once more (fresh data, fresh iterable) in that other Iterable form:
    rr['more'] = [{'form', 'exc'/'out', 'input_after', 'input_identical'}]"""
    da = build_data(c, with_var=with_var)
    rr = {'label': label, 'with_var': with_var}
    res_rec = []
    for r in results:
        ent = {'window': [hx(r.window.values[0]), hx(r.window.values[1])], 'assessment': r.assessment.name,
               'peak': kind_of(r.peak), 'popt': {k: hx(v.value) for k, v in sorted(r.popt.items())}}
        if r.success:
            try:
                ent['peakvals'] = [hx(v) for v in r.eval_peak(da.coords['x']).values]
            except Exception as e:      # noqa: BLE001
                ent['peakvals_err'] = exc_class(e)
        res_rec.append(ent)
    rr['results'] = res_rec
    rr.update(call_remove(c, results, 'list', with_var))
    rr['more'] = [dict(call_remove(c, results, f, with_var), form=f) for f in forms]
    return rr


def remove_forms(c, k):
    """the Iterable forms of the k-th remove_peaks call of a case: c['remove_forms'] is 'all' or a list (of lists)"""
    f = c.get('remove_forms')
    if not f:
        return ()
    if f == 'all':
        return FORMS
    if f and isinstance(f[0], list):
        return f[k % len(f)]
    return f


def main():
    payload = json.load(sys.stdin)
    outs = []
    for c in payload['cases']:
        o, results = run_fit(c)
        o['removes'] = []
        if results is not None and c.get('remove_fitted', True):
            o['removes'].append(run_remove(c, results, 'fitted', forms=remove_forms(c, 0)))
        for k, s in enumerate(c.get('remove_synth') or []):
            o['removes'].append(run_remove(c, [synth_result(r) for r in s['results']], f'synth{k}',
                                           with_var=s.get('with_var', False), forms=remove_forms(c, k + 1)))
        outs.append(o)
    import scipy
    print('RESULT ' + json.dumps({'cases': outs, 'versions': {'scipp': sc.__version__, 'scipy': scipy.__version__,
                                                               'numpy': np.__version__}}))


if __name__ == '__main__':
    main()
