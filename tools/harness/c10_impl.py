#!/venv/bin/python
"""C10 implementation runner: DiskChopper validation / open-close times / cascade expansion.

stdin  {"cases":[{"id", "f":hex, "funit":"Hz|kHz|1/min", "fdtype":"float64|int64|int32", "fp":hex, "fpunit":.., "fpdtype":..,
                  "bp":hex, "bpunit":"deg|rad", "ph":hex, "phunit":..,
                  "begin":[hex..], "end":[hex..], "aunit":"deg|rad", "int_slits":bool,
                  "npulses":int}]}
stdout RESULT {"cases":[{"id",
          "construct": "ok" | {"error": cls, "msg": ...},
          "times":   {"unit", "open":[[num,den]..], "close":[..], "duration":[..]} | {"error", "msg"},
          "cascade": {"unit", "open":[..], "close":[..]} | {"error", "msg"}}], "scipp": version}
All floating-point values are written exactly (numerator/denominator of the binary64 value)."""
import json
import sys
from fractions import Fraction

import numpy as np
import scipp as sc

from scippneutron.chopper import DiskChopper
from scippneutron.tof.chopper_cascade import Chopper


def exact(x):
    x = float(x)
    if x != x:
        return 'nan'
    if x in (float('inf'), float('-inf')):
        return 'inf' if x > 0 else '-inf'
    fr = Fraction(x)
    return [str(fr.numerator), str(fr.denominator)]


def fl(h):
    return float.fromhex(h) if isinstance(h, str) else float(h)


def err(ex):
    return {'error': type(ex).__name__, 'msg': str(ex)[:160]}


def freq(v, unit, dtype):
    if dtype.startswith('int'):
        return sc.scalar(int(fl(v)), unit=unit, dtype=dtype)
    return sc.scalar(fl(v), unit=unit, dtype=dtype)


def build(c):
    if c.get('int_slits'):
        b = sc.array(dims=['slit'], values=np.array([int(fl(x)) for x in c['begin']], dtype='int64'), unit=c['aunit'])
        e = sc.array(dims=['slit'], values=np.array([int(fl(x)) for x in c['end']], dtype='int64'), unit=c['aunit'])
    else:
        b = sc.array(dims=['slit'], values=[fl(x) for x in c['begin']], unit=c['aunit'], dtype='float64')
        e = sc.array(dims=['slit'], values=[fl(x) for x in c['end']], unit=c['aunit'], dtype='float64')
    if c.get('layout') == 'scalar' and len(c['begin']) == 1:
        # a single slit given as 0-d variables
        b, e = b['slit', 0].copy(), e['slit', 0].copy()
    return DiskChopper(
        axle_position=sc.vector([0.0, 0.0, 2.0], unit='m'),
        frequency=freq(c['f'], c['funit'], c.get('fdtype', 'float64')),
        beam_position=sc.scalar(fl(c['bp']), unit=c['bpunit']),
        phase=sc.scalar(fl(c['ph']), unit=c['phunit']),
        slit_begin=b, slit_end=e)


def run_case(c):
    out = {'id': c['id']}
    try:
        ch = build(c)
        out['construct'] = 'ok'
    except Exception as ex:  # noqa: BLE001
        out['construct'] = err(ex)
        return out
    fp = freq(c['fp'], c['fpunit'], c.get('fpdtype', 'float64'))
    try:
        to = ch.time_offset_open(pulse_frequency=fp)
        tc = ch.time_offset_close(pulse_frequency=fp)
        du = ch.open_duration(pulse_frequency=fp)
        out['times'] = {'unit': str(to.unit), 'dims': list(to.dims),
                        'open': [exact(v) for v in to.values], 'close': [exact(v) for v in tc.values],
                        'duration': [exact(v) for v in du.values], 'duration_unit': str(du.unit),
                        'close_unit': str(tc.unit)}
    except Exception as ex:  # noqa: BLE001
        out['times'] = err(ex)
    try:
        cc = Chopper.from_disk_chopper(ch, fp, int(c['npulses']))
        out['cascade'] = {'unit': str(cc.time_open.unit), 'close_unit': str(cc.time_close.unit),
                          'open': [exact(v) for v in cc.time_open.values],
                          'close': [exact(v) for v in cc.time_close.values]}
    except Exception as ex:  # noqa: BLE001
        out['cascade'] = err(ex)
    return out


def main():
    req = json.load(sys.stdin)
    res = [run_case(c) for c in req['cases']]
    print('RESULT ' + json.dumps({'cases': res, 'scipp': sc.__version__}))


if __name__ == '__main__':
    main()
