#!/usr/bin/env python
"""Harness for C12/C13: runs the REAL SqwBuilder / Sqw reader on the cases given on stdin (JSON)
and prints `RESULT <json>`.

For every case it reports
  * the produced file, byte for byte (hex);
  * the strings that depend on the sink and the clock (path pieces, creation dates found in the bytes);
  * an ORACLE for unit conversion: every supplied quantity converted with scipp to the unit the
    format documents (table TARGET below, written from the format documentation, not read from the
    package), as binary64 bit patterns.  Coq checks these against exact rational arithmetic;
  * what the package's own reader returns for every block (numbers as bit patterns, unit strings,
    strings, shapes), or the exception it raised.
No comparison is done here.
"""
import io
import json
import os
import re
import shutil
import signal
import struct
import sys
import tempfile
import traceback
import warnings
from datetime import datetime, timezone, timedelta

import numpy as np
import scipp as sc

warnings.simplefilter('ignore')
from scippneutron.io.sqw import (  # noqa: E402
    EnergyMode, Sqw, SqwDndMetadata, SqwIXExperiment, SqwIXNullInstrument, SqwIXSample, SqwIXSource,
    SqwLineAxes, SqwLineProj,
)

ROW_ORDER = ['u1', 'u2', 'u3', 'u4', 'irun', 'idet', 'ien', 'signal', 'error']
# documented units (Horace: momenta in 1/angstrom, energies in meV, angles in rad inside IX_experiment,
# lattice parameters in angstrom / degrees)
ROW_TARGET = {'u1': '1/angstrom', 'u2': '1/angstrom', 'u3': '1/angstrom', 'u4': 'meV',
              'irun': None, 'idet': None, 'ien': None, 'signal': 'count', 'error': 'count**2'}
AX_UNITS = ['1/angstrom', '1/angstrom', '1/angstrom', 'meV']


def bits64(x):
    return struct.unpack('>Q', struct.pack('>d', float(x)))[0]


def bits64_arr(a):
    a = np.ascontiguousarray(np.asarray(a, dtype='>f8'))
    return [int(v) for v in np.frombuffer(a.tobytes(), dtype='>u8')]


def bits32_arr(a):
    a = np.ascontiguousarray(np.asarray(a, dtype='>f4'))
    return [int(v) for v in np.frombuffer(a.tobytes(), dtype='>u4')]


def ustr(u):
    if u is None:
        return 'none'
    return str(u).replace('Å', 'angstrom').replace('µ', 'u')


def scalar(spec, dtype=None):
    """a 0-d variable of the dtype the case asks for (float64 unless the spec carries 'dtype')"""
    dt = dtype or spec.get('dtype', 'float64')
    return sc.scalar(np.dtype(dt).type(spec['value']), unit=spec['unit'], dtype=dt)


def array(dims, spec, dtype=None):
    dt = dtype or spec.get('dtype', 'float64')
    return sc.array(dims=dims, values=np.array(spec['values'], dtype=dt), unit=spec['unit'])


def vector(spec):
    return sc.vector(spec['values'], unit=spec.get('unit', 'dimensionless'))


def conv(var, unit):
    """the oracle: scipp's conversion to the documented unit, as float64"""
    if unit is None:
        return np.asarray(var.values, dtype='float64')
    if var.dtype in (sc.DType.vector3,):
        return np.asarray(var.to(unit=unit).values, dtype='float64')
    return np.asarray(var.to(unit=unit, dtype='float64').values, dtype='float64')


def build_experiment(x):
    efix = x['efix']
    if efix['scalar']:
        ef = scalar({'value': efix['values'][0], 'unit': efix['unit'], 'dtype': efix.get('dtype', 'float64')})
    else:
        ef = array(['detector'], efix)
    en = x['en']
    env = array(en['dims'], en)
    return SqwIXExperiment(
        run_id=x['run_id'], efix=ef, emode=EnergyMode[x['emode']], en=env,
        psi=scalar(x['psi']), u=vector(x['u']), v=vector(x['v']), omega=scalar(x['omega']),
        dpsi=scalar(x['dpsi']), gl=scalar(x['gl']), gs=scalar(x['gs']),
        filename=x['filename'], filepath=x['filepath'])


def oracle_experiment(x, xo):
    en = xo.en
    if en.ndim == 2:
        en = en.transpose(['detector', 'energy_transfer'])
        rows = en.shape[0]
    else:
        rows = 1
    return {
        'efix': bits64_arr(np.atleast_1d(conv(xo.efix, 'meV'))),
        'en_rows': rows,
        'en': bits64_arr(conv(en, 'meV').reshape(-1)),
        'psi': bits64(conv(xo.psi, 'rad')), 'omega': bits64(conv(xo.omega, 'rad')),
        'dpsi': bits64(conv(xo.dpsi, 'rad')), 'gl': bits64(conv(xo.gl, 'rad')), 'gs': bits64(conv(xo.gs, 'rad')),
        'u': bits64_arr(xo.u.values), 'v': bits64_arr(xo.v.values),
    }


def build_pixels(c):
    rows = c['rows']
    coords = {}
    for name in ('u1', 'u2', 'u3', 'u4', 'irun', 'idet', 'ien'):
        r = rows[name]
        coords[name] = sc.array(dims=['obs'], values=np.array(r['values'], dtype=r['dtype']), unit=r['unit'])
    s, e = rows['signal'], rows['error']
    data = sc.array(dims=['obs'], values=np.array(s['values'], dtype=s['dtype']),
                    variances=np.array(e['values'], dtype=s['dtype']), unit=s['unit'])
    # what the data array carries besides the nine rows (optional; the file format knows neither masks nor other coordinates)
    for x in c.get('extra_coords', []):
        vals = np.array(x['values'], dtype=x['dtype'])
        var = np.array(x['variances'], dtype=x['dtype']) if 'variances' in x else None
        if x.get('scalar'):
            coords[x['name']] = sc.scalar(vals[0], variance=None if var is None else var[0], unit=x['unit'], dtype=x['dtype'])
        else:
            coords[x['name']] = sc.array(dims=['obs'], values=vals, variances=var, unit=x['unit'])
    masks = {m['name']: sc.array(dims=['obs'], values=np.array(m['flags'], dtype=bool)) for m in c.get('masks', [])}
    return sc.DataArray(data, coords=coords, masks=masks)


def oracle_pixels(da):
    out, ints = [], []
    for name in ROW_ORDER:
        if name == 'signal':
            v = sc.values(da.data)
        elif name == 'error':
            v = sc.variances(da.data)
        else:
            v = da.coords[name]
        ints.append(bool(np.issubdtype(v.values.dtype, np.integer)))
        if ints[-1] and v.sizes['obs'] and np.abs(v.values).max() >= 2 ** 53:
            raise ValueError('integer rows beyond 2^53 are outside the harness contract')
        out.append(bits64_arr(conv(v, ROW_TARGET[name])))
    return out, ints


def build_dnd(c):
    a, p = c['axes'], c['proj']

    def sl(lst):
        return [scalar(s) for s in lst]
    axes = SqwLineAxes(
        title=a['title'], label=a['label'], img_scales=sl(a['img_scales']),
        img_range=[array(['range'], r) for r in a['img_range']],
        n_bins_all_dims=sc.array(dims=['axis'], values=np.array(a['nbins'], dtype=a.get('int_dtype', 'int64')), unit=None),
        single_bin_defines_iax=sc.array(dims=['axis'], values=np.array(a['single_bin'], dtype=bool)),
        dax=sc.array(dims=['axis'], values=np.array(a['dax'], dtype=a.get('int_dtype', 'int64')), unit=None),
        offset=sl(a['offset']), changes_aspect_ratio=a['changes_aspect'],
        filename=a.get('filename', 'ignored'), filepath=a.get('filepath', '/ignored'))
    proj = SqwLineProj(
        lattice_spacing=vector(p['alatt']), lattice_angle=vector(p['angdeg']), offset=sl(p['offset']),
        title=p['title'], label=p['label'], u=vector(p['u']), v=vector(p['v']),
        w=None if p['w'] is None else vector(p['w']), non_orthogonal=p['nonorth'], type='aaa')
    return SqwDndMetadata(axes=axes, proj=proj)


def oracle_dnd(m):
    a, p = m.axes, m.proj

    def ms(lst):
        return bits64_arr([conv(v, u) for v, u in zip(lst, AX_UNITS)])
    return {
        'img_scales': ms(a.img_scales),
        'img_range': bits64_arr(np.stack([conv(v, u) for v, u in zip(a.img_range, AX_UNITS)]).reshape(-1)),
        'ax_offset': ms(a.offset),
        'alatt': bits64_arr(conv(p.lattice_spacing, 'angstrom')),
        'angdeg': bits64_arr(conv(p.lattice_angle, 'deg')),
        'pr_offset': ms(p.offset),
        'u': bits64_arr(conv(p.u, '1/angstrom')), 'v': bits64_arr(conv(p.v, '1/angstrom')),
        'w': [] if p.w is None else bits64_arr(conv(p.w, '1/angstrom')),
    }


# ------------------------------------------------------------------ what the package's reader returns
def num(var_or_arr, unit='__from_var__'):
    if isinstance(var_or_arr, sc.Variable):
        u = ustr(var_or_arr.unit)
        vals = np.asarray(var_or_arr.values)
    else:
        u = ustr(None) if unit == '__from_var__' else unit
        vals = np.asarray(var_or_arr)
    if vals.dtype == np.bool_ or np.issubdtype(vals.dtype, np.integer):
        # integer-valued fields are reported as integers (unit tag 'ints'); a physical unit on them is kept visible
        return {'k': 'num', 'unit': 'ints' if u == 'none' else u + '!int', 'shape': list(vals.shape),
                'vals': [int(v) for v in vals.reshape(-1)]}
    return {'k': 'num', 'unit': u, 'shape': list(vals.shape),
            'vals': bits64_arr(vals.astype('float64').reshape(-1))}


def shape_obs(shape):
    return {'k': 'num', 'unit': 'shape', 'shape': [len(shape)], 'vals': [int(v) for v in shape]}


def st(s):
    return {'k': 'str', 'v': s}


def integer(n):
    return {'k': 'int', 'v': int(n)}


def view_experiment(pfx, x, out):
    out[pfx + 'filename'] = st(x.filename)
    out[pfx + 'filepath'] = st(x.filepath)
    out[pfx + 'run_id'] = integer(x.run_id)
    out[pfx + 'emode'] = integer(x.emode.value)
    out[pfx + 'efix'] = num(x.efix)
    out[pfx + 'en'] = num(x.en)
    for n in ('psi', 'omega', 'dpsi', 'gl', 'gs', 'u', 'v'):
        out[pfx + n] = num(getattr(x, n))


def view_sample(pfx, s, out):
    out[pfx + 'name'] = st(s.name)
    out[pfx + 'alatt'] = num(s.lattice_spacing)
    out[pfx + 'angdeg'] = num(s.lattice_angle)


def view_instrument(pfx, i, out):
    out[pfx + 'name'] = st(i.name)
    out[pfx + 'src_name'] = st(i.source.name)
    out[pfx + 'src_target'] = st(i.source.target_name)
    out[pfx + 'freq'] = num(i.source.frequency)


def view_dnd(m, out):
    a, p = m.axes, m.proj
    out['dnd.ax.title'] = st(a.title)
    out['dnd.ax.filename'] = st(a.filename)
    out['dnd.ax.filepath'] = st(a.filepath)
    out['dnd.ax.nlabel'] = integer(len(a.label))
    for i, l in enumerate(a.label):
        out[f'dnd.ax.label.{i}'] = st(l)
    for i, v in enumerate(a.img_scales):
        out[f'dnd.ax.img_scales.{i}'] = num(v)
    for i, v in enumerate(a.img_range):
        out[f'dnd.ax.img_range.{i}'] = num(v)
    for i, v in enumerate(a.offset):
        out[f'dnd.ax.offset.{i}'] = num(v)
    out['dnd.ax.nbins'] = num(a.n_bins_all_dims)
    out['dnd.ax.single_bin'] = num(a.single_bin_defines_iax)
    out['dnd.ax.dax'] = num(a.dax)
    out['dnd.ax.changes_aspect'] = integer(bool(a.changes_aspect_ratio))
    out['dnd.pr.title'] = st(p.title)
    out['dnd.pr.nlabel'] = integer(len(p.label))
    for i, l in enumerate(p.label):
        out[f'dnd.pr.label.{i}'] = st(l)
    out['dnd.pr.alatt'] = num(p.lattice_spacing)
    out['dnd.pr.angdeg'] = num(p.lattice_angle)
    for i, v in enumerate(p.offset):
        out[f'dnd.pr.offset.{i}'] = num(v)
    out['dnd.pr.u'] = num(p.u)
    out['dnd.pr.v'] = num(p.v)
    out['dnd.pr.has_w'] = integer(p.w is not None)
    if p.w is not None:
        out['dnd.pr.w'] = num(p.w)
    out['dnd.pr.nonorth'] = integer(bool(p.non_orthogonal))
    out['dnd.pr.type'] = st(p.type)


def read_back(target, want_pixels=True, skip=()):
    out, errors = {}, {}
    info = {}
    with Sqw.open(target) as sqw:
        info['byteorder'] = sqw.byteorder.value
        fh = sqw.file_header
        info['prog_name'] = fh.prog_name
        info['prog_version_bits'] = bits64(fh.prog_version)
        info['sqw_type'] = fh.sqw_type.value
        info['n_dims'] = fh.n_dims
        names = [list(n) for n in sqw.data_block_names()]
        info['block_names'] = names
        for n1, n2 in names:
            key = f'{n1}/{n2}'
            if key in skip or '*' in skip:
                errors[key] = ('harness: package reader not run, the extent does not hold a decodable block: '
                               + str(skip.get(key) or skip.get('*')))[:300]
                continue
            try:
                with warnings.catch_warnings(record=True) as w:
                    warnings.simplefilter('always')
                    blk = sqw.read_data_block((n1, n2))
                if w:
                    errors[key] = 'warning: ' + '; '.join(str(x.message) for x in w)[:300]
                    continue
                if key == '/main_header':
                    out['main.full_filename'] = st(blk.full_filename)
                    out['main.title'] = st(blk.title)
                    out['main.nfiles'] = integer(blk.nfiles)
                    out['main.date'] = st(blk.creation_date.isoformat(timespec='seconds'))
                elif key == 'experiment_info/expdata':
                    out['exp.n'] = integer(len(blk))
                    for i, x in enumerate(blk):
                        view_experiment(f'exp.{i}.', x, out)
                elif key == 'pix/metadata':
                    out['pixmeta.full_filename'] = st(blk.full_filename)
                    out['pixmeta.npix'] = integer(blk.npix)
                    out['pixmeta.range'] = num(blk.data_range, 'none')
                elif key == 'pix/data_wrap':
                    a = np.asarray(blk)
                    out['pix.shape'] = shape_obs(a.shape)
                    if want_pixels:
                        out['pix.f32'] = {'k': 'u32', 'vals': bits32_arr(a.reshape(-1))}
                elif key == 'experiment_info/instruments':
                    out['inst.n'] = integer(len(blk))
                    out['inst.shared'] = integer(all(b is blk[0] for b in blk))
                    if blk:
                        view_instrument('inst.0.', blk[0], out)
                elif key == 'experiment_info/samples':
                    out['samp.n'] = integer(len(blk))
                    out['samp.shared'] = integer(all(b is blk[0] for b in blk))
                    if blk:
                        view_sample('samp.0.', blk[0], out)
                elif key == '/detpar':
                    out['det.n'] = integer(len(blk))
                elif key == 'data/metadata':
                    view_dnd(blk, out)
                    out['dnd.date'] = st(blk.creation_date.isoformat(timespec='seconds'))
                elif key == 'data/nd_data':
                    vals, errs, cnts = blk
                    out['nd.shape'] = shape_obs(vals.shape[::-1])  # arrays come back with reversed (C-order) shape
                    out['nd.shapes_equal'] = integer(vals.shape == errs.shape == cnts.shape)
                    out['nd.all_zero'] = integer(not vals.any() and not errs.any() and not cnts.any())
                else:
                    errors[key] = 'harness: unknown block'
            except Exception as ex:  # noqa: BLE001
                errors[key] = f'{type(ex).__name__}: {ex}'[:300]
    return info, out, errors


def undecodable_blocks(raw):
    """names 'n1/n2' of the REGULAR blocks whose extent does not hold a completely decodable object stream, judged by the
    independent structural decoder of lib/sqwcorr.py (no package code).  Used ONLY to keep the package's reader away from
    those blocks: on a malformed object stream it follows garbage shapes (loops over 2^32 elements, multi-GB allocations)
    and takes the harness process down with it.  Pixel / histogram blocks are always handed to the reader."""
    sys.path.insert(0, os.path.join(os.path.dirname(os.path.abspath(__file__)), '..', '..', 'lib'))
    try:
        import sqwcorr
        st = sqwcorr.py_structure(raw)
        bo = '<' if st['byteorder'] == 'little' else '>'
        return {'/'.join(d['name']): why for d in st['descs']
                if d['type'] == 'data_block' and (why := sqwcorr.block_problem(raw, d, bo))}
    except Exception as ex:  # noqa: BLE001   (the table itself does not parse)
        return {'*': f'{type(ex).__name__}: {ex}'}
    finally:
        sys.path.pop(0)


class ReaderTimeout(BaseException):
    pass


def _alarm(signum, frame):
    raise ReaderTimeout('the package reader did not return within 60 s')


DATE_RE = re.compile(rb'\d{4}-\d\d-\d\dT\d\d:\d\d:\d\d\+00:00')


def run_case(c, tmpdir):
    res = {'id': c['id']}
    bo = c['byteorder']
    if c['sink'] == 'file':
        path = os.path.join(tmpdir, c.get('fname') or f'case_{c["id"]}.sqw')
        target = path
        res['env'] = {'full': path, 'path': os.path.dirname(path), 'name': os.path.basename(path)}
    else:
        target = io.BytesIO()
        res['env'] = {'full': 'in_memory', 'path': '', 'name': ''}
    oracle = []
    try:
        builder = Sqw.build(target, title=c['title'], byteorder=bo)
        for call in c['calls']:
            k = call['kind']
            if k == 'pix':
                da = build_pixels(call)
                xs = [build_experiment(x) for x in call['experiments']]
                rows, ints = oracle_pixels(da)
                oracle.append({'rows': rows, 'ints': ints,
                               'experiments': [oracle_experiment(x, xo) for x, xo in zip(call['experiments'], xs)]})
                kw = {}
                if call.get('n_dims') is not None:
                    kw['n_dims'] = call['n_dims']
                builder = builder.add_pixel_data(da, experiments=xs, **kw)
            elif k == 'det':
                oracle.append({})
                builder = builder.add_empty_detector_params()
            elif k == 'dnd':
                m = build_dnd(call)
                oracle.append(oracle_dnd(m))
                builder = builder.add_empty_dnd_data(m)
            elif k == 'inst':
                inst = SqwIXNullInstrument(name=call['name'], source=SqwIXSource(
                    name=call['src_name'], target_name=call['src_target'], frequency=scalar(call['freq'])))
                oracle.append({'freq': bits64(call['freq']['value'])})
                builder = builder.add_default_instrument(inst)
            elif k == 'samp':
                s = SqwIXSample(name=call['name'], lattice_spacing=vector(call['alatt']),
                                lattice_angle=vector(call['angdeg']))
                oracle.append({'alatt': bits64_arr(conv(s.lattice_spacing, 'angstrom')),
                               'angdeg': bits64_arr(conv(s.lattice_angle, 'deg'))})
                builder = builder.add_default_sample(s)
            else:
                raise ValueError(k)
        res['oracle'] = oracle
        t0 = datetime.now(tz=timezone.utc)
        if c.get('chunk') is None:
            ret = builder.create()
        else:
            ret = builder.create(chunk_size=c['chunk'])
        t1 = datetime.now(tz=timezone.utc)
        res['create_returned'] = None if ret is None else os.fspath(ret)
    except Exception as ex:  # noqa: BLE001
        res['error'] = {'type': type(ex).__name__, 'msg': str(ex)[:400], 'tb': traceback.format_exc()[-1500:]}
        return res
    if c['sink'] == 'file':
        with open(path, 'rb') as f:
            raw = f.read()
    else:
        raw = target.getvalue()
    res['size'] = len(raw)
    res['file_hex'] = raw.hex()
    dates = [m.group(0).decode() for m in DATE_RE.finditer(raw)]
    res['env']['dates'] = dates
    ok = True
    for d in dates:
        dt = datetime.fromisoformat(d)
        ok = ok and (t0 - timedelta(seconds=1.5) <= dt <= t1 + timedelta(seconds=1.5))
    res['dates_in_window'] = ok
    res['native'] = sys.byteorder
    malformed = undecodable_blocks(raw)
    old = signal.signal(signal.SIGALRM, _alarm)
    signal.alarm(60)
    try:
        if c['sink'] == 'bytesio':
            target.seek(0)
        info, view, errors = read_back(target, want_pixels=c.get('reader_pixels', True), skip=malformed)
        res['reader'] = {'info': info, 'view': view, 'errors': errors}
    except (Exception, ReaderTimeout) as ex:  # noqa: BLE001
        res['reader'] = {'open_error': f'{type(ex).__name__}: {ex}'[:400]}
    finally:
        signal.alarm(0)
        signal.signal(signal.SIGALRM, old)
    if c['sink'] == 'file':
        os.remove(path)
    return res


def main():
    payload = json.load(sys.stdin)
    tmpdir = tempfile.mkdtemp(prefix='vsqw_')
    out = []
    try:
        for c in payload['cases']:
            out.append(run_case(c, tmpdir))
    finally:
        shutil.rmtree(tmpdir, ignore_errors=True)
    import scippneutron
    print('RESULT ' + json.dumps({'cases': out, 'scipp': sc.__version__,
                                  'repo': os.path.dirname(os.path.dirname(scippneutron.__file__))}))


if __name__ == '__main__':
    main()
