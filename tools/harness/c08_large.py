#!/venv/bin/python
"""C08 SIZE axis: the Q-vector / hkl kernels of scippneutron.conversion.tof on LARGE operands (runs in /venv with
PYTHONPATH=<repo>/src).  The property quantifies over scalar and array operands of any length; an implementation may
switch algorithm at some size, the result must not change.

stdin : {"cases": [ {"id", "dims": ["p"] | ["pixel", "wavelength"], "shape": [n] | [300, 400], "seed": int,
                     "wavelength": {"unit", "dtype", "dims": subset of dims (may be [])},
                     "incident_beam": {"value": [3 hex floats], "unit"},
                     "scattered_beam": {"unit", "dims": subset of dims (not empty)},
                     "R": ROT, "U": ROT, "B": {"values": [9 hex floats], "unit"}     (ROT as in c08_impl.py; with "dim": d the
                                                                                       given values are tiled along d)
                     "Q": null | {"unit", "order": dims in storage order},          explicit Q vectors for hkl instead of the computed ones
                     "samples": [flat indices in C order of (dims, shape)], "graph": null | "wavelength" | "tof"} ]}
  The long operands are drawn HERE from numpy's default_rng(seed) (wavelength log-uniform 0.01..100 angstrom, scattered beams
  isotropic with log-uniform lengths 1e-3..1e3, explicit Q uniform in [-10, 10]^3) - the spec stays small and replayable.
stdout: 'RESULT <json>': per case
  "summary":  the property statement evaluated on the WHOLE arrays in numpy float64 (ranking only; the verdict is taken in
              props/C08.py with exact rational arithmetic on the elements returned under "sampled"): per relation the largest
              ratio observed / allowed, its flat index, the number of elements above the allowance, non-finite elements,
              shape / dims of every result;
  "sampled":  a result in the layout of c08_impl.py (operands and every kernel's result, exact, element by element) holding the
              elements at the requested flat indices and at the worst index of every relation; "flat_index" lists them;
  "graph":    the same two entries for the results obtained through conversion.graph.tof.elastic_Q_vec / elastic_hkl +
              transform_coords on the same operands.
"""
import json
import math
import os
import sys

import numpy as np
import scipp as sc

sys.path.insert(0, os.path.dirname(os.path.abspath(__file__)))
from kernels_impl import stored  # noqa: E402
from c08_impl import build_rot, describe_any, fl, stored_rot  # noqa: E402

from scippneutron.conversion import beamline, tof  # noqa: E402

U53 = 2.0 ** -53


def loguniform(rng, lo, hi, size):
    return np.exp(rng.uniform(math.log(lo), math.log(hi), size=size))


def build_case(c):
    dims, shape = list(c['dims']), [int(n) for n in c['shape']]
    sizes = dict(zip(dims, shape))
    rng = np.random.default_rng(int(c['seed']))
    w = c['wavelength']
    wdims = [d for d in dims if d in w['dims']]
    wmult = {'angstrom': 1.0, 'nm': 0.1, 'm': 1e-10}[w['unit']]
    wv = loguniform(rng, 0.01, 100.0, [sizes[d] for d in wdims]) * wmult
    if w['dtype'].startswith('int'):
        wv = np.maximum(1, np.rint(wv))
    wv = wv.astype(w['dtype'])
    lam = sc.array(dims=wdims, values=wv, unit=w['unit'], dtype=w['dtype']) if wdims else sc.scalar(wv[()], unit=w['unit'], dtype=w['dtype'])
    bi = sc.vector([fl(x) for x in c['incident_beam']['value']], unit=c['incident_beam']['unit'])
    s = c['scattered_beam']
    sdims = [d for d in dims if d in s['dims']]
    sshape = [sizes[d] for d in sdims]
    v = rng.normal(size=[*sshape, 3])
    v /= np.maximum(np.linalg.norm(v, axis=-1, keepdims=True), 1e-300)
    v *= loguniform(rng, 1e-3, 1e3, [*sshape, 1])
    bf = sc.vectors(dims=sdims, values=v, unit=s['unit'])

    def rot(spec):
        spec = dict(spec)
        if spec.get('dim'):
            n = sizes[spec['dim']]
            vals = spec['values']
            spec['values'] = [vals[i % len(vals)] for i in range(n)]
        return build_rot(spec)
    R, Um = rot(c['R']), rot(c['U'])
    B = build_rot({'kind': 'matrix', 'values': [c['B']['values']], 'dim': None, 'unit': c['B']['unit']})
    Qin = None
    if c.get('Q'):
        order = list(c['Q'].get('order') or dims)
        qv = rng.uniform(-10.0, 10.0, size=[*[sizes[d] for d in order], 3])
        Qin = sc.vectors(dims=order, values=qv, unit=c['Q']['unit'])
    return dims, shape, lam, bi, bf, R, Um, B, Qin


def to_si(var):
    return float(sc.Unit(str(var.unit)).to_dict().get('multiplier', 1.0)) if var.unit is not None else 1.0


def arr(var, dims, shape, tail):
    """numpy values of var broadcastable against an array of the full (dims, shape): singleton axes for missing dims"""
    own = [d for d in dims if d in var.dims]
    v = var.transpose(own).copy() if own else var
    a = np.asarray(v.values, dtype='float64')
    return a.reshape([n if d in var.dims else 1 for d, n in zip(dims, shape)] + list(tail))


def mats(var, dims, shape):
    """3x3 matrices (numpy) of a rotation3 / linear_transform3 variable; own quaternion formula, not scipp's"""
    if var.dtype == sc.DType.rotation3:
        q = arr(var, dims, shape, [4])
        x, y, z, w = (q[..., i] for i in range(4))
        m = np.stack([1 - 2 * (y * y + z * z), 2 * (x * y - z * w), 2 * (x * z + y * w),
                      2 * (x * y + z * w), 1 - 2 * (x * x + z * z), 2 * (y * z - x * w),
                      2 * (x * z - y * w), 2 * (y * z + x * w), 1 - 2 * (x * x + y * y)], axis=-1)
        return m.reshape(m.shape[:-1] + (3, 3))
    return arr(var, dims, shape, [3, 3])


def worst(ratio, allowed):
    r = np.where(np.isfinite(ratio), ratio, np.inf).reshape(-1)
    if r.size == 0:
        return {'max_ratio': 0.0, 'flat_index': None, 'n_above': 0, 'allowed': allowed}
    i = int(np.argmax(r))
    return {'max_ratio': float(r[i]) if math.isfinite(r[i]) else 'inf', 'flat_index': i, 'n_above': int(np.sum(r > allowed)),
            'allowed': allowed, 'n': int(r.size)}


def shape_of(v):
    return {'dims': list(v.dims), 'shape': list(v.shape), 'dtype': str(v.dtype), 'unit': str(v.unit)}


def summarise(dims, shape, ops, outs):
    """the relations of the statement on the whole arrays (float64 numpy): ranking of the elements"""
    lam, bi, bf, R, Um, B, Qin = ops
    full = [*shape]
    s = {'results': {k: shape_of(v) for k, v in outs.items() if isinstance(v, sc.Variable)}}
    ones = np.ones(full)
    qv = outs.get('Qvec')
    kk = 2 * math.pi / (arr(lam, dims, shape, []) * to_si(lam))
    if qv is not None and sorted(qv.dims) == sorted(dims):
        got = arr(qv, dims, shape, [3]) * to_si(qv)
        nonfinite = ~np.isfinite(got).all(axis=-1)
        a, b = arr(bi, dims, shape, [3]), arr(bf, dims, shape, [3])
        want = kk[..., None] * (a / np.linalg.norm(a, axis=-1, keepdims=True) - b / np.linalg.norm(b, axis=-1, keepdims=True))
        s['Qvec_definition'] = worst(np.abs(got - want).max(axis=-1) / kk * ones, 1e-13)
        s['Qvec_nonfinite'] = {'n': int(nonfinite.sum()), 'flat_index': int(np.argmax(nonfinite.reshape(-1))) if nonfinite.any() else None}
        qs = outs.get('Qscalar')
        if qs is not None and str(lam.dtype) == 'float64' and sorted(qs.dims) == sorted(dims):
            s['Qvec_norm_vs_scalar_Q'] = worst(np.abs(np.linalg.norm(got, axis=-1) - arr(qs, dims, shape, []) * to_si(qs)) / (2 * kk) * ones, 1e-13)
        el = outs.get('Qel')
        if el is not None:
            s['Qel_join_mismatch'] = int(sum(np.sum(arr(el[c], dims, shape, []) != arr(qv, dims, shape, [3])[..., i])
                                             for i, c in enumerate(('Qx', 'Qy', 'Qz')) if sorted(el[c].dims) == sorted(dims)))
    elif qv is not None:
        s['Qvec_shape'] = {'dims': list(qv.dims), 'expected': dims}
    hk = outs.get('hkl')
    qsrc = Qin if Qin is not None else outs.get('Qvec_for_hkl', qv)
    if hk is not None and qsrc is not None:
        hd = [d for d in dims if d in hk.dims]
        if sorted(hk.dims) == sorted(set(qsrc.dims) | set(R.dims) | set(Um.dims) | set(B.dims)):
            A = mats(R, dims, shape) @ mats(Um, dims, shape) @ mats(B, dims, shape)
            sA = to_si(R) * to_si(Um) * to_si(B)
            H = arr(hk, dims, shape, [3]) * to_si(hk)
            Qn = arr(qsrc, dims, shape, [3]) * to_si(qsrc)
            AH = np.einsum('...ij,...j->...i', A * np.ones(full + [1, 1]), H * np.ones(full + [1]))
            with np.errstate(all='ignore'):
                kap = np.abs(A).sum(axis=-1).max(axis=-1) * np.abs(np.linalg.inv(A)).sum(axis=-1).max(axis=-1)
                resid = np.abs(2 * math.pi * sA * AH - Qn).max(axis=-1)
                ratio = resid / (kap * U53 * np.abs(Qn).sum(axis=-1) * ones)
            s['hkl_residual'] = worst(ratio, 64.0)
            s['kappa_inf_max'] = float(np.max(kap))
            nf = ~np.isfinite(H * np.ones(full + [1])).all(axis=-1) & np.isfinite(Qn * np.ones(full + [1])).all(axis=-1)
            s['hkl_nonfinite'] = {'n': int(nf.sum()), 'flat_index': int(np.argmax(nf.reshape(-1))) if nf.any() else None}
            he, rj = outs.get('hkl_el'), outs.get('rejoined')
            if he is not None:
                s['split_mismatch'] = int(sum(np.sum(arr(he[c], dims, shape, []) != arr(hk, dims, shape, [3])[..., i])
                                              for i, c in enumerate(('h', 'k', 'l')) if sorted(he[c].dims) == sorted(hk.dims)))
            if rj is not None and sorted(rj.dims) == sorted(hk.dims):
                s['rejoin_mismatch'] = int(np.sum(arr(rj, dims, shape, [3]) != arr(hk, dims, shape, [3])))
        else:
            s['hkl_shape'] = {'dims': list(hk.dims), 'hd': hd, 'Q_dims': list(qsrc.dims)}
    return s


def at(v, mi):
    for d in list(v.dims):
        v = v[d, mi[d]]
    return v


def gather(v, dims, shape, idx):
    """the elements of v at the flat indices idx (C order of the full dims/shape) as a 1-d variable over 'p'; a 0-d v stays"""
    if not v.dims:
        return v
    out = []
    for i in idx:
        mi = dict(zip(dims, (int(x) for x in np.unravel_index(i, shape))))
        out.append(at(v, mi))
    return sc.concat(out, 'p')


def sampled(dims, shape, ops, outs, errors, idx):
    lam, bi, bf, R, Um, B, Qin = ops
    g = lambda v: gather(v, dims, shape, idx)  # noqa: E731
    r = {'operands': {'wavelength': stored(g(lam)), 'incident_beam': stored(g(bi)), 'scattered_beam': stored(g(bf)),
                      'R': stored_rot(g(R)), 'U': stored_rot(g(Um)), 'B': stored_rot(g(B))}, 'flat_index': list(idx)}
    if Qin is not None:
        r['operands']['Q'] = stored(g(Qin))
    for k, v in outs.items():
        if k == 'Qvec_for_hkl':
            continue
        try:
            if isinstance(v, dict):
                r[k] = {'dict': {c: describe_any(g(x)) for c, x in v.items()}}
            else:
                r[k] = describe_any(g(v))
        except Exception as ex:     # a result of another shape than the operands: reported by the summary
            r[k] = {'error': 'shape:' + type(ex).__name__, 'error_text': str(ex)[:200]}
    r.update(errors)
    return r


def kernels(ops):
    lam, bi, bf, R, Um, B, Qin = ops
    outs, errors = {}, {}

    def attempt(key, f):
        try:
            outs[key] = f()
            return outs[key]
        except Exception as ex:
            errors[key] = {'error': type(ex).__name__, 'error_text': str(ex)[:200]}
            return None
    el = attempt('Qel', lambda: tof.Q_elements_from_wavelength(wavelength=lam, incident_beam=bi, scattered_beam=bf))
    qv = attempt('Qvec', lambda: tof.Q_vec_from_Q_elements(**el)) if el is not None else None
    tt = attempt('two_theta', lambda: beamline.two_theta(incident_beam=bi, scattered_beam=bf))
    if tt is not None:
        attempt('Qscalar', lambda: tof.Q_from_wavelength(wavelength=lam, two_theta=tt))
    ub = attempt('UB', lambda: tof.ub_matrix_from_u_and_b(u_matrix=Um, b_matrix=B))
    qh = Qin if Qin is not None else qv
    if ub is not None and qh is not None:
        hk = attempt('hkl', lambda: tof.hkl_vec_from_Q_vec(Q_vec=qh, ub_matrix=ub, sample_rotation=R))
        if hk is not None:
            he = attempt('hkl_el', lambda: tof.hkl_elements_from_hkl_vec(hkl_vec=hk))
            if he is not None:
                attempt('rejoined', lambda: tof.Q_vec_from_Q_elements(Qx=he['h'], Qy=he['k'], Qz=he['l']))
    return outs, errors


def via_graph(start, dims, shape, ops):
    from scippneutron.conversion.graph import tof as gtof
    lam, bi, bf, R, Um, B, Qin = ops
    outs, errors = {}, {}
    coords = {'wavelength': lam, 'incident_beam': bi, 'scattered_beam': bf, 'sample_rotation': R, 'u_matrix': Um, 'b_matrix': B}
    da = sc.DataArray(sc.zeros(dims=dims, shape=shape), coords={k: v.copy() for k, v in coords.items()})
    opts = {'rename_dims': False, 'keep_inputs': True, 'keep_intermediate': True, 'keep_aliases': True}
    try:
        dq = da.transform_coords(['Q_vec', 'Qx', 'Qy', 'Qz'], graph=gtof.elastic_Q_vec(start), **opts)
        outs['Qel'] = {c: dq.coords[c] for c in ('Qx', 'Qy', 'Qz')}
        outs['Qvec'] = dq.coords['Q_vec']
    except Exception as ex:
        errors['Qvec'] = {'error': type(ex).__name__, 'error_text': str(ex)[:200]}
    dh = da.copy(deep=False)
    if Qin is not None:
        dh.coords['Q_vec'] = Qin.copy()
    try:
        out = dh.transform_coords(['hkl_vec', 'h', 'k', 'l', 'ub_matrix'], graph=gtof.elastic_hkl(start), **opts)
        outs['UB'] = out.coords['ub_matrix']
        outs['hkl'] = out.coords['hkl_vec']
        outs['hkl_el'] = {c: out.coords[c] for c in ('h', 'k', 'l')}
        if Qin is None:
            outs['Qvec_for_hkl'] = out.coords['Q_vec']
    except Exception as ex:
        errors['hkl'] = {'error': type(ex).__name__, 'error_text': str(ex)[:200]}
    return outs, errors


def evaluate(dims, shape, ops, outs, errors, samples):
    try:
        summ = summarise(dims, shape, ops, outs)
    except Exception as ex:
        summ = {'summary_error': f'{type(ex).__name__}: {ex}'[:300]}
    n = int(np.prod(shape))
    idx = [int(i) for i in samples if 0 <= int(i) < n]
    for k in ('Qvec_definition', 'Qvec_norm_vs_scalar_Q', 'hkl_residual', 'Qvec_nonfinite', 'hkl_nonfinite'):
        i = (summ.get(k) or {}).get('flat_index')
        if i is not None and i not in idx:
            idx.append(i)
    if len(idx) < 2:
        idx = (idx + [0, n - 1])[:2]
    res = {'summary': summ}
    try:
        res['sampled'] = sampled(dims, shape, ops, outs, errors, idx)
    except Exception as ex:
        res['sampled_error'] = f'{type(ex).__name__}: {ex}'[:300]
    return res


def main():
    req = json.load(sys.stdin)
    out = []
    for c in req['cases']:
        res = {'id': c['id']}
        try:
            dims, shape, *ops = build_case(c)
        except Exception as ex:
            res['build_error'] = f'{type(ex).__name__}: {ex}'
            out.append(res)
            continue
        snap = [v.copy() for v in ops if v is not None]
        outs, errors = kernels(ops)
        res.update(evaluate(dims, shape, ops, outs, errors, c.get('samples') or []))
        if c.get('graph'):
            try:
                gouts, gerrors = via_graph(c['graph'], dims, shape, ops)
                res['graph'] = evaluate(dims, shape, ops, gouts, gerrors, c.get('samples') or [])
            except Exception as ex:
                res['graph'] = {'error': f'{type(ex).__name__}: {ex}'[:300]}
        res['inputs_unchanged'] = all(sc.identical(a, b, equal_nan=True) for a, b in zip([v for v in ops if v is not None], snap))
        out.append(res)
    print('RESULT ' + json.dumps({'cases': out, 'scipp': sc.__version__, 'numpy': np.__version__}))


if __name__ == '__main__':
    main()
