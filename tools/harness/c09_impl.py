#!/venv/bin/python
"""C09 implementation runner (runs in /venv with PYTHONPATH=<repo>/src).

stdin : {"mode": "rows" | "calls" | "histories" | "replay_call" | "replay_history", ...}
stdout: 'RESULT <json>'

rows       validates every row of the aliasing classification used by tools/alias2coq.py against the
           real scipp / numpy / Python with numpy.shares_memory (what the primitive does when its
           condition holds and when it does not).
calls      calls public entry points with generated arguments (unit/dtype choices that make every
           internal copy=False conversion a no-op, and choices that do not), deep snapshot of every
           argument before and after, and a second call with equal arguments (repeatability).
histories  interleavings of factory / combinator / lookup calls with mutations of the returned objects.
"""
import copy
import dataclasses
import importlib
import inspect
import io
import itertools
import json
import math
import sys
import traceback

import numpy as np
import scipp as sc


# ============================================================================ deep snapshots
def snap(o, ids=True, depth=0, seen=None):
    """value-level description of everything reachable from o (values, variances, unit, dtype, dims,
    masks, coords; for containers / instances their structure and — with ids — the identity of the parts)"""
    if seen is None:
        seen = set()
    if depth > 8:
        return '<deep>'
    if o is None or isinstance(o, (bool, int, str, bytes)):
        return repr(o)
    if isinstance(o, float):
        return float(o).hex() if not math.isnan(o) else 'nan'
    if isinstance(o, (np.floating, np.integer, np.bool_)):
        return repr(o.item())
    if isinstance(o, np.ndarray):
        return ('nd', str(o.dtype), o.shape, o.tobytes().hex() if o.dtype != object else repr(o.tolist()))
    if isinstance(o, sc.Variable):
        if o.bins is not None:
            c = o.bins.constituents
            return ('binned', tuple(o.dims), tuple(o.shape), snap(c['begin'], ids, depth + 1, seen),
                    snap(c['end'], ids, depth + 1, seen), snap(c['data'], ids, depth + 1, seen))
        try:
            vals = np.asarray(o.values)
            v = vals.tobytes().hex() if vals.dtype != object else repr(vals.tolist())
        except Exception:
            v = repr(o.values)
        var = None if o.variances is None else np.asarray(o.variances).tobytes().hex()
        return ('var', tuple(o.dims), tuple(o.shape), str(o.unit), str(o.dtype), v, var)
    if isinstance(o, sc.DataArray):
        return ('da', o.name, snap(o.data, ids, depth + 1, seen),
                tuple(sorted((str(k), snap(v, ids, depth + 1, seen), bool(o.coords[k].aligned) if hasattr(o.coords[k], 'aligned') else True)
                             for k, v in o.coords.items())),
                tuple(sorted((str(k), snap(v, ids, depth + 1, seen)) for k, v in o.masks.items())))
    if isinstance(o, (sc.Dataset, sc.DataGroup)):
        return (type(o).__name__, tuple((str(k), snap(v, ids, depth + 1, seen)) for k, v in o.items()))
    if isinstance(o, (sc.Unit, sc.DType)):
        return repr(o)
    if id(o) in seen:
        return '<cycle>'
    if isinstance(o, dict):
        seen = seen | {id(o)}
        return ('dict', tuple((repr(k), id(v) if ids else 0, snap(v, ids, depth + 1, seen)) for k, v in o.items()))
    if isinstance(o, (list, tuple)):
        seen = seen | {id(o)}
        return (type(o).__name__, tuple((id(v) if ids else 0, snap(v, ids, depth + 1, seen)) for v in o))
    if isinstance(o, (set, frozenset)):
        return ('set', tuple(sorted(repr(x) for x in o)))
    if inspect.isfunction(o) or inspect.isbuiltin(o) or inspect.ismethod(o) or inspect.isclass(o):
        return ('callable', getattr(o, '__module__', ''), getattr(o, '__qualname__', repr(o)))
    if isinstance(o, io.StringIO):
        return ('stringio', o.getvalue())
    if inspect.isgenerator(o):
        return ('generator', id(o) if ids else 0)
    d = None
    if dataclasses.is_dataclass(o):
        d = {f.name: getattr(o, f.name) for f in dataclasses.fields(o)}
    elif hasattr(o, '__dict__'):
        d = dict(vars(o))
    elif hasattr(o, '__slots__'):
        d = {k: getattr(o, k) for k in o.__slots__ if hasattr(o, k)}
    if d is not None:
        seen = seen | {id(o)}
        return ('obj', type(o).__name__, tuple((k, id(v) if ids else 0, snap(v, ids, depth + 1, seen)) for k, v in sorted(d.items())))
    return ('repr', repr(o))


def first_diff(a, b, path=''):
    if type(a) != type(b):
        return path or '<root>'
    if isinstance(a, tuple):
        if len(a) != len(b):
            return path + '/len'
        for i, (x, y) in enumerate(zip(a, b)):
            d = first_diff(x, y, f'{path}/{i}')
            if d:
                return d
        return None
    return None if a == b else (path or '<root>')


def shares(a, b):
    def arr(x):
        if isinstance(x, sc.DataArray):
            x = x.data
        if isinstance(x, sc.Variable):
            return np.asarray(x.values)
        return x if isinstance(x, np.ndarray) else None
    A, B = arr(a), arr(b)
    if A is None or B is None:
        return None
    return bool(np.shares_memory(A, B))


# ============================================================================ rows of the aliasing table
def rows():
    from scippneutron._utils import as_float_type
    x = lambda: sc.array(dims=['x'], values=[1.0, 2.0, 3.0, 4.0], unit='angstrom')
    xv = lambda: sc.array(dims=['x'], values=[1.0, 2.0, 3.0], variances=[1.0, 1.0, 1.0], unit='angstrom')
    v3 = lambda: sc.vectors(dims=['x'], values=[[1.0, 2, 3], [4, 5, 6]], unit='m')
    x2 = lambda: sc.array(dims=['x', 'y'], values=[[1.0, 2.0], [3.0, 4.0]], unit='m')
    x32 = sc.array(dims=['x'], values=[1.0, 2.0], dtype='float32')
    out = []

    def row(name, cls, f_true, f_false, mk=x):
        """cls: model class; f_true / f_false: the primitive applied when its aliasing condition holds / fails"""
        r = {'name': name, 'cls': cls}
        for tag, f in (('when_true', f_true), ('when_false', f_false)):
            if f is None:
                r[tag] = None
                continue
            a = mk()
            try:
                res = f(a)
                r[tag] = shares(a, res)
            except Exception as ex:       # noqa: BLE001
                r[tag] = 'error:' + type(ex).__name__ + ':' + str(ex)[:80]
        out.append(r)

    ang = sc.Unit('angstrom')
    # --- MaybeAlias rows: (condition holds, condition fails)
    row('x.to(unit=, copy=False)', 'maybe', lambda a: a.to(unit='angstrom', copy=False), lambda a: a.to(unit='nm', copy=False))
    row('x.to(dtype=, copy=False)', 'maybe', lambda a: a.to(dtype='float64', copy=False), lambda a: a.to(dtype='float32', copy=False))
    row('x.to(unit=, dtype=, copy=False)', 'maybe', lambda a: a.to(unit='angstrom', dtype='float64', copy=False),
        lambda a: a.to(unit='angstrom', dtype='float32', copy=False))
    row('x.astype(copy=False)', 'maybe', lambda a: a.astype('float64', copy=False), lambda a: a.astype('float32', copy=False))
    row('sc.to_unit(x, copy=False)', 'maybe', lambda a: sc.to_unit(a, ang, copy=False), lambda a: sc.to_unit(a, 'm', copy=False))
    row('as_float_type(x, ref)', 'maybe', lambda a: as_float_type(a, a), lambda a: as_float_type(a, x32))
    row('x[dim, a:b] / x[mask]', 'maybe', lambda a: a['x', 0:2], lambda a: a[a > sc.scalar(1.5, unit='angstrom')])
    row('x[dim, i] / x[i]', 'maybe', lambda a: a['x', 1], lambda a: a[a > sc.scalar(9.0, unit='angstrom')])
    row('v.fields.x', 'maybe', lambda a: a.fields.x, None, mk=v3)
    row('sc.values(x)', 'maybe', lambda a: sc.values(a), lambda a: sc.values(xv()))
    row('x.transpose()', 'maybe', lambda a: a.transpose(), None, mk=x2)
    row('x.flatten(to=)', 'maybe', lambda a: a.flatten(to='z'), lambda a: a.transpose().flatten(to='z'), mk=x2)
    row('x.fold()', 'maybe', lambda a: a.fold('x', sizes={'a': 2, 'b': 2}), None)
    row('x.broadcast()', 'maybe', lambda a: a.broadcast(sizes={'x': 4, 'y': 2}), None)
    row('x.squeeze()', 'maybe', lambda a: a['x', 0:1].squeeze(), None)
    row('x.rename_dims()', 'maybe', lambda a: a.rename_dims(x='z'), None)
    row('np.asarray(a)', 'maybe', lambda a: np.asarray(a.values), lambda a: np.asarray(a.values, dtype='float32'))
    # --- always views (attributes; modelled as the object itself)
    row('x.values', 'view', lambda a: a.values, None)
    row('da.data', 'view', lambda a: sc.DataArray(a).data, None)
    row('da.coords[k]', 'view', lambda a: sc.DataArray(a.copy(), coords={'x': a}).coords['x'], None)
    row('da[dim, a:b] (DataArray view: data)', 'view', lambda a: sc.DataArray(a)['x', 0:2].data, None)
    row('sc.DataArray(data=x) holds x', 'view', lambda a: sc.DataArray(a).data, None)
    row('sc.DataArray(coords={k: x}) holds x', 'view', lambda a: sc.DataArray(a.copy(), coords={'x': a}).coords['x'], None)
    # --- shallow copies: new container, same buffers
    row('x.copy(deep=False)', 'shallow', lambda a: a.copy(deep=False), None)
    row('da.copy(deep=False).data', 'shallow', lambda a: sc.DataArray(a).copy(deep=False).data, None)
    row('da.copy(deep=False).coords[k]', 'shallow', lambda a: sc.DataArray(a.copy(), coords={'x': a}).copy(deep=False).coords['x'], None)
    # --- out= returns (and writes) the out argument
    row('sc.sqrt(x, out=x)', 'out', lambda a: sc.sqrt(a * a, out=a), None)
    row('sc.atan2(y=, x=, out=y)', 'out', lambda a: sc.atan2(y=a, x=a.copy(), out=a), None, mk=lambda: sc.array(dims=['x'], values=[1.0, 2.0]))
    row('sc.abs(x, out=x)', 'out', lambda a: sc.abs(a, out=a), None)
    row('sc.exp(x, out=x)', 'out', lambda a: sc.exp(a, out=a), None, mk=lambda: sc.array(dims=['x'], values=[1.0, 2.0]))
    row('sc.reciprocal(x, out=x)', 'out', lambda a: sc.reciprocal(a, out=a), None)
    # --- Fresh rows (both columns must not share)
    one = sc.scalar(1.0, unit='angstrom')
    fresh = {
        'x.copy()': lambda a: a.copy(), 'x.to(unit=) [default copy]': lambda a: a.to(unit='angstrom'),
        'x.to(unit=, copy=True)': lambda a: a.to(unit='angstrom', copy=True), 'x.astype() [default copy]': lambda a: a.astype('float64'),
        'sc.to_unit(x) [default copy]': lambda a: sc.to_unit(a, 'angstrom'),
        'x + y': lambda a: a + one, 'x - y': lambda a: a - one, 'x * y': lambda a: a * one, 'x / y': lambda a: a / one,
        'x ** 2': lambda a: a ** 2, '-x': lambda a: -a, '1 * x': lambda a: 1 * a, 'x / 1': lambda a: a / 1,
        'sc.sqrt': lambda a: sc.sqrt(a * a), 'sc.sin': lambda a: sc.sin(a.to(unit='rad', copy=True) if False else sc.array(dims=['x'], values=a.values, unit='rad')),
        'sc.abs': lambda a: sc.abs(a), 'sc.reciprocal': lambda a: sc.reciprocal(a), 'sc.exp': lambda a: sc.exp(sc.array(dims=['x'], values=a.values)),
        'sc.where': lambda a: sc.where(a > one, a, a), 'sc.concat': lambda a: sc.concat([a], 'x'),
        'sc.min/max': lambda a: sc.concat([sc.min(a), sc.max(a)], 'x'), 'x.min()/max()': lambda a: sc.concat([a.min(), a.max()], 'x'),
        'x.mean()': lambda a: a.mean(), 'sc.full': lambda a: sc.full(value=a['x', 0].value, unit=a.unit, sizes=a.sizes),
        'sc.scalar(x.value)': lambda a: sc.scalar(a['x', 0].value, unit=a.unit),
        'copy.deepcopy': lambda a: copy.deepcopy(a), 'np.array(a)': lambda a: np.array(a.values),
        'np.repeat': lambda a: np.repeat(a.values, 2), 'np.tile': lambda a: np.tile(a.values, 2),
        'np.nextafter': lambda a: np.nextafter(a.values, np.inf), 'np.stack': lambda a: np.stack((a.values, a.values), axis=1),
        'sc.sort': lambda a: sc.sort(a, 'x'), 'sc.sort(key=)': lambda a: sc.sort(a, key=a),
        'sc.round': lambda a: sc.round(a), 'sc.cumsum': lambda a: sc.cumsum(a),
        'sc.index(x.value)': lambda a: sc.index(int(a['x', 0].value)),
        'da.group(label)': lambda a: sc.DataArray(a, coords={'g': sc.array(dims=['x'], values=[0, 0, 1, 1], unit=None)}).group('g').bins.constituents['data'].data,
        'da.group(label).bins.size()': lambda a: sc.DataArray(a, coords={'g': sc.array(dims=['x'], values=[0, 0, 1, 1], unit=None)}).group('g').bins.size().data,
        'x % y': lambda a: a % one,
    }
    for k, f in fresh.items():
        row(k, 'fresh', f, f)
    fresh_v = {'sc.norm': lambda a: sc.norm(a), 'sc.dot': lambda a: sc.dot(a, a), 'sc.cross': lambda a: sc.cross(a, a),
               'v / sc.norm(v)': lambda a: a / sc.norm(a), 'v - w': lambda a: a - a,
               'sc.vectors(values=x.values)': lambda a: sc.vectors(dims=['x'], values=a.values, unit='m'),
               'rotation * v': lambda a: sc.spatial.rotations_from_rotvecs(sc.vector([0.0, 0, 0.1], unit='rad')) * a,
               'sc.spatial.as_vectors': lambda a: sc.spatial.as_vectors(a.fields.x, a.fields.y, a.fields.z)}
    for k, f in fresh_v.items():
        row(k, 'fresh', f, f, mk=v3)
    # --- containers
    def shallow_da_own_dicts():
        da = sc.DataArray(x(), coords={'x': x()}, masks={'m': x() > sc.scalar(2.0, unit='angstrom')})
        c = da.copy(deep=False)
        c.coords['extra'] = x()
        del c.masks['m']
        return ('extra' not in da.coords and 'm' in da.masks and bool(shares(c.coords['x'], da.coords['x']))
                and bool(shares(c.data, da.data)))

    def setattr_stores():
        @dataclasses.dataclass(frozen=True)
        class Fz:
            f: object = None
        o, v = Fz(), x()
        object.__setattr__(o, 'f', v)
        return o.f is v
    def store_through(attr, new, mk=x, via=lambda a: a.copy(deep=False)):
        """c = <shallow copy / view of a>; c.<attr> = new: is the store seen through a (the translator's BUFFER_ATTRS row)?"""
        a = mk()
        before = snap(a)
        c = via(a)
        setattr(c, attr, new)
        return snap(a) != before
    x0 = lambda: sc.scalar(0.0, unit='angstrom')
    mk_da = lambda: sc.DataArray(x(), coords={'x': x()})

    def rebinding_data_is_local():
        da = mk_da()
        before = snap(da)
        c = da.copy(deep=False)
        c.data = x() * 2.0
        return snap(da) == before
    d = {'a': x()}
    cont = [
        ('c = x.copy(deep=False); c.value = v writes the storage of x', 'view', store_through('value', 1e-15, mk=x0)),
        ('c = x.copy(deep=False); c.values = v writes the storage of x', 'view', store_through('values', np.array([9.0, 8.0, 7.0, 6.0]))),
        ('c = x.copy(deep=False); c.variances = v writes the storage of x', 'view', store_through('variances', np.array([9.0, 8.0, 7.0]), mk=xv)),
        ('c = x.copy(deep=False); c.variance = v writes the storage of x', 'view',
         store_through('variance', 2.0, mk=lambda: sc.scalar(1.0, variance=1.0))),
        ('c = x.copy(deep=False); c.unit = u changes the unit of x', 'view', store_through('unit', 'm')),
        ('v = x[dim, a:b]; v.values = w writes x', 'view', store_through('values', np.array([9.0, 8.0]), via=lambda a: a['x', 0:2])),
        ('c = da.copy(deep=False); c.values = v writes the data of da', 'view', store_through('values', np.array([9.0, 8.0, 7.0, 6.0]), mk=mk_da)),
        ('c = da.copy(deep=False); c.unit = u changes the unit of da', 'view', store_through('unit', 'm', mk=mk_da)),
        ('c = da.copy(deep=False); c.data = v rebinds the data of the copy only', 'view', rebinding_data_is_local()),
        ('dict(d) shares values', 'shallow', dict(d)['a'] is d['a'] and dict(d) is not d),
        ('list(l) shares elements', 'shallow', list([d])[0] is d),
        ('copy.copy(obj) shares attributes', 'shallow', copy.copy(d)['a'] is d['a']),
        ('{**d} shares values', 'shallow', {**d}['a'] is d['a']),
        ('d.items()/values() hand out the stored values', 'view', next(iter(d.values())) is d['a']),
        ('x.value of a 0-d float variable is a copy', 'fresh-scalar', isinstance(sc.scalar(1.0).value, float)),
        ('da.copy(deep=False) has its own coords / masks dicts over the same variables', 'shallow', shallow_da_own_dicts()),
        ('object.__setattr__(ob, name, v) stores v itself', 'view', setattr_stores()),
    ]
    for name, cls, okv in cont:
        out.append({'name': name, 'cls': cls, 'when_true': bool(okv), 'when_false': None, 'container': True})
    return out


# ============================================================================ argument generation
# name -> (units [canonical, other], (lo, hi) in the canonical unit, is_vector)
SCALARS = {
    'tof': (['us', 'ms'], (2e3, 6e4)), 'Ltotal': (['m', 'mm'], (5.0, 160.0)), 'L1': (['m', 'mm'], (5.0, 160.0)),
    'L2': (['m', 'mm'], (0.5, 12.0)), 'two_theta': (['rad', 'deg'], (0.1, 3.0)), 'wavelength': (['angstrom', 'nm'], (0.5, 12.0)),
    'energy': (['meV', 'eV'], (1.0, 400.0)), 'incident_energy': (['meV', 'eV'], (200.0, 900.0)),
    'final_energy': (['meV', 'eV'], (200.0, 900.0)), 'Q': (['1/angstrom', '1/nm'], (0.2, 12.0)),
    'Qx': (['1/angstrom', '1/nm'], (0.2, 12.0)), 'Qy': (['1/angstrom', '1/nm'], (0.2, 12.0)),
    'Qz': (['1/angstrom', '1/nm'], (0.2, 12.0)), 'time': (['s', 'ms'], (1e-3, 7e-2)), 'distance': (['m', 'mm'], (1.0, 40.0)),
    'pulse_time': (['us', 'ms'], (1e5, 2e5)),
}
VECTORS = {'incident_beam': (0.0, 0.0, 10.0), 'scattered_beam': (0.3, 0.4, 2.0), 'position': (0.3, 0.4, 12.0),
           'sample_position': (0.0, 0.0, 10.0), 'source_position': (0.0, 0.0, 0.0), 'gravity': (0.0, -9.81, 0.0),
           'Q_vec': (1.0, 2.0, 3.0), 'hkl_vec': (1.0, 0.0, 2.0)}
VARIANTS = [{'dtype': 'float64', 'unit': 0}, {'dtype': 'float64', 'unit': 1}, {'dtype': 'float32', 'unit': 0},
            {'dtype': 'int64', 'unit': 0}]
N = 5


class Rng:
    """tiny deterministic generator (the same arguments can be rebuilt for the repeatability check)"""

    def __init__(self, seed):
        self.r = np.random.default_rng(seed)

    def uniform(self, lo, hi, n):
        return self.r.uniform(lo, hi, n)


def gen_arg(name, variant, layout, rng, pos=0):
    if name in VECTORS:
        base = np.array(VECTORS[name])
        unit = {'gravity': 'm/s^2', 'Q_vec': '1/angstrom', 'hkl_vec': 'dimensionless'}.get(name, ['m', 'mm'][variant['unit'] if name != 'gravity' else 0])
        scale = 1000.0 if unit == 'mm' else 1.0
        if layout == 'scalar' or name in ('incident_beam', 'gravity', 'sample_position', 'source_position'):
            return sc.vector(base * scale, unit=unit)
        vals = base[None, :] * scale + rng.uniform(-0.2, 0.2, (N, 3)) * scale
        return sc.vectors(dims=['x'], values=vals, unit=unit)
    if name in ('ub_matrix', 'u_matrix', 'b_matrix', 'sample_rotation'):
        m = np.eye(3) + 0.1 * rng.uniform(-1, 1, (3, 3))
        unit = '1/angstrom' if name in ('ub_matrix', 'b_matrix') else 'dimensionless'
        return sc.spatial.linear_transform(value=m, unit=unit)
    units, (lo, hi) = SCALARS[name]
    unit = units[variant['unit']]
    f = float(sc.scalar(1.0, unit=units[0]).to(unit=unit).value)
    dt = variant['dtype']
    if layout == 'scalar':
        vals = rng.uniform(lo, hi, 1) * f
        if dt == 'int64':
            vals = np.maximum(np.round(vals), 1)
        return sc.scalar(vals.astype(dt)[0], unit=unit, dtype=dt)
    dim, n = ('x', N) if (layout != '2d' or pos == 0) else ('y', 3)
    vals = np.sort(rng.uniform(lo, hi, n)) * f
    if dt == 'int64':
        vals = np.maximum(np.round(vals), 1)
    return sc.array(dims=[dim], values=vals.astype(dt), unit=unit, dtype=dt)


def auto_args(fn, variant, layout, rng):
    sig = inspect.signature(fn)
    kw = {}
    for i, (n, p) in enumerate(sig.parameters.items()):
        if n not in SCALARS and n not in VECTORS and n not in ('ub_matrix', 'u_matrix', 'b_matrix', 'sample_rotation'):
            return None
        kw[n] = gen_arg(n, variant, layout, rng, i)
    return kw


# ============================================================================ explicit builders
def peak_data(rng, variant):
    dt = 'float64' if variant['dtype'] == 'int64' else variant['dtype']
    unit = ['angstrom', 'nm'][variant['unit']]
    f = 0.1 if unit == 'nm' else 1.0
    xs = np.linspace(0.5, 4.5, 200)
    y = 5 + 0.3 * xs + 40 * np.exp(-(xs - 1.5) ** 2 / (2 * 0.05 ** 2)) + 25 * np.exp(-(xs - 3.2) ** 2 / (2 * 0.08 ** 2))
    y = y + rng.uniform(-0.2, 0.2, len(xs))
    da = sc.DataArray(sc.array(dims=['d'], values=y.astype(dt), variances=np.abs(y).astype(dt), unit='counts', dtype=dt),
                      coords={'d': sc.array(dims=['d'], values=(xs * f).astype(dt), unit=unit, dtype=dt)})
    est = sc.array(dims=['d'], values=(np.array([1.5, 3.2]) * f).astype(dt), unit=unit, dtype=dt)
    return da, est, f, unit, dt


def builders(variant, layout, seed, sections=None):
    """-> list of (label, callable, args, kwargs, options); sections: only these families (None = all)"""
    out = []
    rng = Rng(seed)

    def add(label, fn, *args, _opts=None, **kwargs):
        out.append((label, fn, list(args), kwargs, _opts or {}))

    tu, wu = ['s', 'ms'][variant['unit']], ['angstrom', 'nm'][variant['unit']]
    dtf = 'float64' if variant['dtype'] == 'int64' else variant['dtype']
    tf_, wf_ = (1e3 if tu == 'ms' else 1.0), (0.1 if wu == 'nm' else 1.0)
    du = ['m', 'mm'][variant['unit']]
    mk_dist = lambda v=8.0: sc.scalar(np.array(v * (1000.0 if du == 'mm' else 1.0)).astype(dtf)[()], unit=du, dtype=dtf)

    from scippneutron.tof import chopper_cascade as CC

    def guard(name, f):
        if sections is not None and name not in sections:
            return
        try:
            f()
        except Exception as ex:      # noqa: BLE001
            out.append((f'<section {name}>', None, [], {}, {'skip': f'builder raised {type(ex).__name__}: {str(ex)[:100]}'}))

    def sec_kernels():
        from scippneutron.conversion import beamline as B, tof as T
        for mod, mname in ((T, 'conversion.tof'), (B, 'conversion.beamline')):
            for n, fn in sorted(vars(mod).items()):
                if n.startswith('_') or not inspect.isfunction(fn) or fn.__module__ != mod.__name__:
                    continue
                kw = auto_args(fn, variant, layout, rng)
                if kw is None:
                    out.append((f'{mname}.{n}', None, [], {}, {'skip': 'no argument generator'}))
                    continue
                pos_ok = all(p.kind != p.KEYWORD_ONLY for p in inspect.signature(fn).parameters.values())
                if pos_ok:
                    add(f'{mname}.{n}', fn, *kw.values())
                else:
                    add(f'{mname}.{n}', fn, **kw)
        # non-orthogonal gravity (generic path)
        kw = {k: gen_arg(k, variant, layout, rng) for k in ('incident_beam', 'scattered_beam', 'wavelength', 'gravity')}
        kw['gravity'] = sc.vector([0.0, -9.7, 0.9], unit='m/s^2')
        add('conversion.beamline.scattering_angles_with_gravity[generic]', B.scattering_angles_with_gravity, **kw)

    guard('kernels', sec_kernels)
    def sec_chopper_cascade():
        dtc = 'float64'      # the cascade does not support single precision (scipp refuses mixed concat)
        mk_time = lambda: sc.array(dims=['vertex'], values=(np.array([0.0, 0.003, 0.003, 0.0]) * tf_).astype(dtc), unit=tu, dtype=dtc)
        mk_wav = lambda: sc.array(dims=['vertex'], values=(np.array([1.0, 1.0, 10.0, 10.0]) * wf_).astype(dtc), unit=wu, dtype=dtc)
        add('tof.chopper_cascade.propagate_times', CC.propagate_times, mk_time(), mk_wav(), mk_dist())
        add('tof.chopper_cascade.wavelength_to_inverse_velocity', CC.wavelength_to_inverse_velocity, mk_wav())
        add('tof.chopper_cascade.Subframe', CC.Subframe, mk_time(), mk_wav())
        mk_sub = lambda: CC.Subframe(mk_time(), mk_wav())
        add('tof.chopper_cascade.Subframe.propagate_by', CC.Subframe.propagate_by, mk_sub(), mk_dist(3.0))
        add('tof.chopper_cascade.Subframe.is_regular', CC.Subframe.is_regular, mk_sub())
        for prop in ('start_time', 'end_time', 'start_wavelength', 'end_wavelength'):
            add(f'tof.chopper_cascade.Subframe.{prop}', getattr(CC.Subframe, prop).fget, mk_sub())
        mk_frame = lambda: CC.Frame(distance=mk_dist(0.0), subframes=[mk_sub()])
        mk_chopper = lambda: CC.Chopper(distance=mk_dist(6.0),
                                        time_open=sc.array(dims=['cutout'], values=[0.001, 0.02], unit='s', dtype=dtc),
                                        time_close=sc.array(dims=['cutout'], values=[0.011, 0.03], unit='s', dtype=dtc))
        add('tof.chopper_cascade.Frame.propagate_to', CC.Frame.propagate_to, mk_frame(), mk_dist(5.0))
        add('tof.chopper_cascade.Frame.chop', CC.Frame.chop, mk_frame(), mk_chopper())
        add('tof.chopper_cascade.Frame.bounds', CC.Frame.bounds, mk_frame())
        add('tof.chopper_cascade.Frame.subbounds', CC.Frame.subbounds, mk_frame())
        mk_seq = lambda: CC.FrameSequence.from_source_pulse(
            time_min=sc.scalar(0.0, unit=tu, dtype=dtc), time_max=sc.scalar(np.array(0.003 * tf_).astype(dtc)[()], unit=tu, dtype=dtc),
            wavelength_min=sc.scalar(np.array(1.0 * wf_).astype(dtc)[()], unit=wu, dtype=dtc),
            wavelength_max=sc.scalar(np.array(10.0 * wf_).astype(dtc)[()], unit=wu, dtype=dtc))
        add('tof.chopper_cascade.FrameSequence.from_source_pulse', CC.FrameSequence.from_source_pulse,
            sc.scalar(0.0, unit=tu, dtype=dtc), sc.scalar(np.array(0.003 * tf_).astype(dtc)[()], unit=tu, dtype=dtc),
            sc.scalar(np.array(1.0 * wf_).astype(dtc)[()], unit=wu, dtype=dtc), sc.scalar(np.array(10.0 * wf_).astype(dtc)[()], unit=wu, dtype=dtc))
        add('tof.chopper_cascade.FrameSequence.propagate_to', CC.FrameSequence.propagate_to, mk_seq(), mk_dist(20.0))
        add('tof.chopper_cascade.FrameSequence.chop', CC.FrameSequence.chop, mk_seq(), [mk_chopper(), CC.Chopper(
            distance=mk_dist(3.0), time_open=sc.array(dims=['cutout'], values=[0.0005], unit='s', dtype=dtc),
            time_close=sc.array(dims=['cutout'], values=[0.02], unit='s', dtype=dtc))])
        add('tof.chopper_cascade.FrameSequence.__getitem__', CC.FrameSequence.__getitem__, mk_seq().chop([mk_chopper()]), mk_dist(7.0))
        add('tof.chopper_cascade.Chopper.__getitem__', CC.Chopper.__getitem__, mk_chopper(), 0)

    guard('chopper cascade', sec_chopper_cascade)
    def sec_disk_chopper_and_filtering():
        from scippneutron import chopper as CH
        # ---- slit edges: classes of VALUES (angles are periodic: any begin <= end is valid, inside one turn or not),
        #      x unit (deg / rad) x dtype (float64: the internal dtype conversions are no-ops; float32 / int64: they copy)
        #      x layout (1-d, or 2-d edges for the '2d' layout).  Values in deg.
        au = ['deg', 'rad'][variant['unit']]
        adt = variant['dtype']
        r_ = Rng(seed + 7)
        n_rand = int(r_.r.integers(1, 5))
        cuts = np.sort(r_.uniform(0.0, 360.0, 2 * n_rand))
        turns = r_.r.integers(-2, 3, n_rand) * 360.0
        EDGE_CLASSES = {
            'inside-one-turn': ([0.0, 124.0], [60.0, 126.0]),
            'across-tdc': ([-20.0, 100.0], [15.0, 130.0]),              # a slit over top-dead-centre: negative begin
            'beyond-one-turn': ([350.0, 380.0], [370.0, 400.0]),
            'negative': ([-300.0, -100.0], [-200.0, -50.0]),
            'single-wide-slit': ([-90.0], [180.0]),
            'random-turn-offsets': (list(cuts[0::2] + turns), list(cuts[1::2] + turns)),
        }

        def edge_var(vals):
            v = np.asarray(vals, dtype='float64')
            if au == 'rad':
                v = np.deg2rad(v)
            if adt == 'int64':
                v = np.round(v)
            if layout == '2d' and len(v) % 2 == 0 and len(v) >= 2:
                return sc.array(dims=['disk', 'slit'], values=v.reshape(2, -1).astype(adt), unit=au, dtype=adt)
            return sc.array(dims=['slit'], values=v.astype(adt), unit=au, dtype=adt)

        def ang(v):       # beam position / phase: scalars in the edge unit (always floating point)
            return sc.scalar(float(np.deg2rad(v)) if au == 'rad' else float(v), unit=au, dtype=dtf)

        freq_sign = -1.0 if (seed % 2) else 1.0      # clockwise / anticlockwise
        freq_mult = [1.0, 2.0, 0.5][seed % 3]         # chopper at 1x, 2x, 1/2 of the pulse frequency

        def dc_args(ec):
            b, e = EDGE_CLASSES[ec]
            return {'axle_position': sc.vector([0.0, 0.0, 2.0], unit=du),
                    'frequency': sc.scalar(np.array(freq_sign * 14.0 * freq_mult).astype(dtf)[()], unit='Hz', dtype=dtf),
                    'beam_position': ang(45.0), 'phase': ang(-20.0),
                    'slit_begin': edge_var(b), 'slit_end': edge_var(e),
                    'slit_height': sc.scalar(np.array(0.4).astype(dtf)[()], unit='m', dtype=dtf),
                    'radius': sc.scalar(np.array(0.5).astype(dtf)[()], unit='m', dtype=dtf)}

        def nexus_chopper(ec='inside-one-turn', split=False):
            b, e = EDGE_CLASSES[ec]
            a = dc_args(ec)
            g = {'type': CH.DiskChopperType.single, 'position': a['axle_position'], 'rotation_speed': a['frequency'],
                 'beam_position': a['beam_position'], 'phase': a['phase'], 'slit_height': a['slit_height'], 'radius': a['radius']}
            if split or a['slit_begin'].ndim != 1:
                g['slit_begin'], g['slit_end'] = a['slit_begin'], a['slit_end']
            else:
                inter = np.empty(2 * len(b))
                inter[0::2], inter[1::2] = b, e
                if au == 'rad':
                    inter = np.deg2rad(inter)
                if adt == 'int64':
                    inter = np.round(inter)
                g['slit_edges'] = sc.array(dims=['slit'], values=inter.astype(adt), unit=au, dtype=adt)
            return sc.DataGroup(g)

        pf = lambda: sc.scalar(np.array(14.0).astype(dtf)[()], unit='Hz', dtype=dtf)
        for ec in EDGE_CLASSES:
            tag = f'[{ec}]'
            add('chopper.DiskChopper' + tag, CH.DiskChopper, **dc_args(ec))
            add('chopper.DiskChopper.from_nexus' + tag, CH.DiskChopper.from_nexus, nexus_chopper(ec))
            add('chopper.DiskChopper.from_nexus[slit_begin/slit_end]' + tag, CH.DiskChopper.from_nexus, nexus_chopper(ec, split=True))
            mk_dc = lambda ec=ec: CH.DiskChopper(**dc_args(ec))
            try:
                mk_dc()
            except Exception as ex:      # noqa: BLE001  (e.g. rounded integer edges in rad that collide)
                out.append(('chopper.DiskChopper.<methods>' + tag, None, [], {}, {'skip': f'constructor refuses: {type(ex).__name__}: {str(ex)[:80]}'}))
                continue
            for m in ('time_offset_open', 'time_offset_close', 'open_duration'):
                add(f'chopper.DiskChopper.{m}' + tag, getattr(CH.DiskChopper, m), mk_dc(), pulse_frequency=pf())
            add('chopper.DiskChopper.time_offset_angle_at_beam' + tag, CH.DiskChopper.time_offset_angle_at_beam, mk_dc(),
                angle=edge_var(EDGE_CLASSES[ec][0]), n_repetitions=1 + seed % 2)
            add('chopper.DiskChopper.__eq__' + tag, CH.DiskChopper.__eq__, mk_dc(), mk_dc())
            add('tof.chopper_cascade.Chopper.from_disk_chopper' + tag, CC.Chopper.from_disk_chopper, mk_dc(), pf(), 2)
        mk_dc = lambda: CH.DiskChopper(**dc_args('across-tdc'))
        for prop in ('n_slits', 'angular_frequency', 'is_clockwise'):
            add(f'chopper.DiskChopper.{prop}', getattr(CH.DiskChopper, prop).fget, mk_dc())
        add('chopper.DiskChopper.make_svg', CH.DiskChopper.make_svg, mk_dc())
        add('chopper.DiskChopper._repr_html_', CH.DiskChopper._repr_html_, mk_dc(), _opts={'norepeat': True})   # fresh element ids per call
        # NeXus layout with NXlog groups
        def nx_raw():
            log = lambda v, u: sc.DataGroup({'value': sc.DataArray(sc.array(dims=['time'], values=[v], unit=u, dtype=dtf),
                                                                   coords={'time': sc.array(dims=['time'], values=[0.0], unit='s')})})
            g = dict(nexus_chopper('across-tdc').items())
            g['rotation_speed'] = log(14.0, 'Hz')
            g['phase'] = log(-20.0, 'deg')
            g['top_dead_center'] = sc.DataGroup({'time': sc.array(dims=['time'], values=[1.0, 2.0], unit='s')})
            g['type'] = 'Chopper type single'
            return sc.DataGroup(g)
        add('chopper.extract_chopper_from_nexus', CH.extract_chopper_from_nexus, nx_raw())
        add('chopper.DiskChopper.from_nexus[extracted]', CH.DiskChopper.from_nexus, CH.extract_chopper_from_nexus(nx_raw()))

        def freq_log(tdt='float64', tunit='s'):
            v = np.array([14.0, 14.0, 14.01, 14.0, 20.0, 28.0, 28.0, 28.02, 28.0, 28.0, 5.0])
            return sc.DataArray(sc.array(dims=['time'], values=v.astype(dtf), unit='Hz', dtype=dtf),
                                coords={'time': sc.arange('time', len(v), unit=tunit, dtype=tdt)})
        add('chopper.find_plateaus', CH.find_plateaus, freq_log(), atol=sc.scalar(0.1, unit='Hz/s'), min_n_points=3)
        add('chopper.find_plateaus[index variable, int coord]', CH.find_plateaus, freq_log('int64', 'ms'),
            atol=sc.scalar(np.array(0.1).astype(dtf)[()], unit='Hz/ms', dtype=dtf), min_n_points=sc.index(3), plateau_dim='p')
        mk_plat = lambda: CH.find_plateaus(freq_log(), atol=sc.scalar(0.1, unit='Hz/s'), min_n_points=3)
        add('chopper.collapse_plateaus', CH.collapse_plateaus, mk_plat())
        add('chopper.collapse_plateaus[int coord]', CH.collapse_plateaus,
            CH.find_plateaus(freq_log('int64', 'ms'), atol=sc.scalar(0.1, unit='Hz/ms'), min_n_points=3))
        add('chopper.filter_in_phase', CH.filter_in_phase, CH.collapse_plateaus(mk_plat()),
            reference=sc.scalar(np.array(14.0).astype(dtf)[()], unit='Hz', dtype=dtf), rtol=sc.scalar(np.array(0.01).astype(dtf)[()], dtype=dtf))
        # ---- SPELLINGS of the scalar arguments: every form a caller can write the same quantity in, the accepted ones and
        #      the ones the function refuses (an argument must be unchanged - values, dtype, dims AND unit - after a refusal
        #      too; a 'usability' conversion of a refused spelling is where a write to the caller's object hides)
        rs_ = Rng(seed + 11)
        n_seed = int(rs_.r.integers(1, 6))
        COUNT_SPELLINGS = {
            'python int': lambda n: n, 'numpy int': lambda n: np.int64(n), 'python float': lambda n: float(n),
            'index': lambda n: sc.index(n), 'int64 unit=None': lambda n: sc.scalar(n, unit=None),
            'int32 unit=None': lambda n: sc.scalar(n, unit=None, dtype='int32'),
            'float64 unit=None': lambda n: sc.scalar(float(n), unit=None),
            'int64 dimensionless': lambda n: sc.scalar(n), 'float64 dimensionless': lambda n: sc.scalar(float(n), unit='dimensionless'),
            'float32 dimensionless': lambda n: sc.scalar(float(n), unit='dimensionless', dtype='float32'),
            'int64 counts': lambda n: sc.scalar(n, unit='counts'),
            '1-element array unit=None': lambda n: sc.array(dims=['n'], values=[n], unit=None),
            '1-element array dimensionless': lambda n: sc.array(dims=['n'], values=[n], unit='dimensionless'),
        }
        for sp, mk in COUNT_SPELLINGS.items():
            for n in sorted({3, n_seed}):
                add(f'chopper.find_plateaus[min_n_points: {sp}, n={n}]', CH.find_plateaus, freq_log(),
                    atol=sc.scalar(0.1, unit='Hz/s'), min_n_points=mk(n))
        ATOL_SPELLINGS = {
            'float64 Hz/s': lambda: sc.scalar(0.1, unit='Hz/s'), 'float32 Hz/s': lambda: sc.scalar(0.1, unit='Hz/s', dtype='float32'),
            'int64 Hz/s': lambda: sc.scalar(1, unit='Hz/s'), 'mHz/s': lambda: sc.scalar(100.0, unit='mHz/s'),
            'Hz/ms': lambda: sc.scalar(1e-4, unit='Hz/ms'), 'with variance': lambda: sc.scalar(0.1, variance=0.01, unit='Hz/s'),
            'dimensionless': lambda: sc.scalar(0.1), 'unit=None': lambda: sc.scalar(0.1, unit=None), 'wrong unit': lambda: sc.scalar(0.1, unit='Hz'),
            'python float': lambda: 0.1, '1-element array': lambda: sc.array(dims=['a'], values=[0.1], unit='Hz/s'),
            'seeded': lambda: sc.scalar(float(rs_.uniform(0.005, 3.0, 1)[0]), unit='Hz/s'),
        }
        for sp, mk in ATOL_SPELLINGS.items():
            add(f'chopper.find_plateaus[atol: {sp}]', CH.find_plateaus, freq_log(), atol=mk(), min_n_points=sc.index(2), plateau_dim='p')

        def rich_log():       # data with variances, a mask and a second coordinate (all of it caller-owned)
            d = freq_log()
            d.variances = np.full(d.sizes['time'], 0.01).astype(dtf)
            d.masks['bad'] = sc.array(dims=['time'], values=[False] * (d.sizes['time'] - 1) + [True])
            d.coords['temperature'] = sc.array(dims=['time'], values=np.linspace(290.0, 291.0, d.sizes['time']), unit='K')
            return d
        add('chopper.find_plateaus[data with variances, mask, extra coord]', CH.find_plateaus, rich_log(), atol=sc.scalar(0.1, unit='Hz/s'),
            min_n_points=2)
        add('chopper.find_plateaus[no plateau]', CH.find_plateaus, freq_log(), atol=sc.scalar(0.1, unit='Hz/s'), min_n_points=100)
        add('chopper.collapse_plateaus[data with variances, mask, extra coord]', CH.collapse_plateaus,
            CH.find_plateaus(rich_log(), atol=sc.scalar(0.1, unit='Hz/s'), min_n_points=2))
        add('chopper.collapse_plateaus[no plateau]', CH.collapse_plateaus,
            CH.find_plateaus(freq_log(), atol=sc.scalar(0.1, unit='Hz/s'), min_n_points=100))
        add('chopper.collapse_plateaus[coord name refused]', CH.collapse_plateaus, mk_plat(), coord='no-such-coord')
        add('chopper.collapse_plateaus[other plateau dim, coord as keyword]', CH.collapse_plateaus,
            CH.find_plateaus(freq_log(), atol=sc.scalar(0.1, unit='Hz/s'), min_n_points=sc.index(2), plateau_dim='p'), coord='time')
        REF_SPELLINGS = {
            'float64 Hz': lambda: sc.scalar(14.0, unit='Hz'), 'float32 Hz': lambda: sc.scalar(14.0, unit='Hz', dtype='float32'),
            'int64 Hz': lambda: sc.scalar(14, unit='Hz'), 'kHz': lambda: sc.scalar(0.014, unit='kHz'), '1/s': lambda: sc.scalar(14.0, unit='1/s'),
            'with variance': lambda: sc.scalar(14.0, variance=0.01, unit='Hz'),
            'dimensionless': lambda: sc.scalar(14.0), 'unit=None': lambda: sc.scalar(14.0, unit=None), 'python float': lambda: 14.0,
            'zero': lambda: sc.scalar(0.0, unit='Hz'), 'seeded': lambda: sc.scalar(float(rs_.r.choice([7.0, 14.0, 28.0, 56.0, 13.9])), unit='Hz'),
        }
        RTOL_SPELLINGS = {
            'float64 dimensionless': lambda: sc.scalar(0.01), 'float32 dimensionless': lambda: sc.scalar(0.01, dtype='float32'),
            'int64 dimensionless': lambda: sc.scalar(0), 'unit=None': lambda: sc.scalar(0.01, unit=None), 'percent': lambda: sc.scalar(1.0, unit='percent'),
            'python float': lambda: 0.01, 'with variance': lambda: sc.scalar(0.01, variance=1e-6),
            'per element': lambda: sc.array(dims=['plateau'], values=[0.01, 0.5]),
        }
        mk_coll = lambda: CH.collapse_plateaus(mk_plat())
        for sp, mk in REF_SPELLINGS.items():
            add(f'chopper.filter_in_phase[reference: {sp}]', CH.filter_in_phase, mk_coll(), reference=mk(), rtol=sc.scalar(0.01))
        for sp, mk in RTOL_SPELLINGS.items():
            add(f'chopper.filter_in_phase[rtol: {sp}]', CH.filter_in_phase, mk_coll(), reference=sc.scalar(14.0, unit='Hz'), rtol=mk())

    guard('disk chopper and filtering', sec_disk_chopper_and_filtering)
    def sec_peaks():
        from scippneutron import peaks as P
        from scippneutron.peaks import model as M
        da, est, f, unit, dt = peak_data(Rng(seed + 1), variant)
        xvar = lambda: da.coords['d'].copy()
        par = lambda **k: {n: sc.scalar(np.array(v).astype(dt)[()], unit=u, dtype=dt) for n, (v, u) in k.items()}
        gp = lambda p='': par(**{p + 'amplitude': (3.0, f'counts*{unit}'), p + 'loc': (1.5 * f, unit), p + 'scale': (0.05 * f, unit)})
        # ---- parameter VALUE classes.  Ordinary values, and the degenerate but valid ones a caller (or the optimiser, whose
        #      bounds are closed: scale in [0, inf), fraction in [0, 1]) hands in: an argument write that stores the value that
        #      is already there for ordinary parameters (a clamp, a normalisation, abs) only shows for these.
        tiny = float(np.finfo(dt).tiny)
        PARAM_CLASSES = {
            '': {},
            'scale=0': {'scale': 0.0}, 'scale=tiny': {'scale': tiny}, 'scale<0': {'scale': -0.05 * f}, 'scale=-0.0': {'scale': -0.0},
            'scale=inf': {'scale': float('inf')},
            'amplitude=0': {'amplitude': 0.0}, 'amplitude<0': {'amplitude': -3.0},
            'loc-outside': {'loc': -7.5 * f}, 'all-zero': {'amplitude': 0.0, 'loc': 0.0, 'scale': 0.0},
            'fraction=0': {'fraction': 0.0}, 'fraction=1': {'fraction': 1.0}, 'fraction>1': {'fraction': 1.5},
            'with-variances': {'_var': True}, 'scale=0,with-variances': {'scale': 0.0, '_var': True},
        }
        seeded = Rng(seed + 3)
        PARAM_CLASSES['seeded-signs'] = {k: float(v) for k, v in zip(
            ('amplitude', 'loc', 'scale', 'fraction'), seeded.r.choice([-1.0, 0.0, tiny, 1.0], 4) * seeded.uniform(0.0, 2.0, 4) * f)}
        units_of = {'amplitude': f'counts*{unit}', 'loc': unit, 'scale': unit, 'fraction': 'dimensionless'}
        base_of = {'amplitude': 3.0, 'loc': 1.5 * f, 'scale': 0.05 * f, 'fraction': 0.4}

        def peak_params(names, pc, p=''):
            spec = PARAM_CLASSES[pc]
            outp = {}
            for n in names:
                v = np.array(spec.get(n, base_of[n])).astype(dt)[()]
                kw = {'variance': np.array(abs(float(v)) * 0.01 + 1e-6).astype(dt)[()]} if spec.get('_var') else {}
                outp[p + n] = sc.scalar(v, unit=units_of[n], dtype=dt, **kw)
            return outp
        gp = lambda p='', pc='': peak_params(('amplitude', 'loc', 'scale'), pc, p)
        vp = lambda p='', pc='': peak_params(('amplitude', 'loc', 'scale', 'fraction'), pc, p)
        pp = lambda p='', z=1.0: par(**{p + 'a0': (1.0 * z, 'counts'), p + 'a1': (0.5 * z, f'counts/{unit}'), p + 'a2': (0.1 * z, f'counts/{unit}^2')})
        comp = lambda: M.PolynomialModel(degree=2, prefix='b_') + M.GaussianModel(prefix='p_')
        comp2 = lambda: M.LorentzianModel(prefix='l_') + M.PseudoVoigtModel(prefix='v_')
        for pc in PARAM_CLASSES:
            tag = f'[{pc}]' if pc else ''
            # parameters with variances (as they come out of a fit): scipp refuses to broadcast them, so x is 0-d there
            xarg = (lambda: xvar()['d', 60].copy()) if PARAM_CLASSES[pc].get('_var') else xvar
            uses_fraction = 'fraction' in PARAM_CLASSES[pc]
            if not uses_fraction or pc == 'seeded-signs':
                add('peaks.model.GaussianModel.__call__' + tag, M.GaussianModel.__call__, M.GaussianModel(), xarg(), **gp(pc=pc))
                add('peaks.model.LorentzianModel.__call__' + tag, M.LorentzianModel.__call__, M.LorentzianModel(), xarg(), **gp(pc=pc))
                add('peaks.model.CompositeModel.__call__' + tag, M.CompositeModel.__call__, comp(), xarg(), **pp('b_'), **gp('p_', pc))
                add('peaks.model.GaussianModel.fwhm' + tag, M.GaussianModel.fwhm, M.GaussianModel(), gp(pc=pc))
                add('peaks.model.LorentzianModel.fwhm' + tag, M.LorentzianModel.fwhm, M.LorentzianModel(), gp(pc=pc))
            add('peaks.model.PseudoVoigtModel.__call__' + tag, M.PseudoVoigtModel.__call__, M.PseudoVoigtModel(), xarg(), **vp(pc=pc))
            add('peaks.model.PseudoVoigtModel.fwhm' + tag, M.PseudoVoigtModel.fwhm, M.PseudoVoigtModel(), vp(pc=pc))
            add('peaks.model.CompositeModel.__call__[lorentzian+pseudo-voigt]' + tag, M.CompositeModel.__call__, comp2(), xarg(),
                **gp('l_', pc), **vp('v_', pc))
        add('peaks.model.PolynomialModel.__call__', M.PolynomialModel.__call__, M.PolynomialModel(degree=2), xvar(), **pp())
        add('peaks.model.PolynomialModel.__call__[all-zero]', M.PolynomialModel.__call__, M.PolynomialModel(degree=2), xvar(), **pp(z=0.0))
        add('peaks.model.PolynomialModel.__call__[negative]', M.PolynomialModel.__call__, M.PolynomialModel(degree=2), xvar(), **pp(z=-1.0))
        for cls, kw in ((M.GaussianModel, {}), (M.LorentzianModel, {}), (M.PseudoVoigtModel, {}), (M.PolynomialModel, {'degree': 1})):
            add(f'peaks.model.{cls.__name__}.guess', M.Model.guess, cls(**kw), sc.values(da['d', 30:80]))
            add(f'peaks.model.{cls.__name__}.with_prefix', M.Model.with_prefix, cls(**kw), 'q_')
            add(f'peaks.model.{cls.__name__}.param_bounds', M.Model.param_bounds.fget, cls(**kw))
            add(f'peaks.model.{cls.__name__}.param_names', M.Model.param_names.fget, cls(**kw))
        add('peaks.model.CompositeModel.guess', M.Model.guess, comp(), sc.values(da['d', 30:80]))
        add('peaks.model.Model.__add__', M.Model.__add__, M.PolynomialModel(degree=1, prefix='b_'), M.GaussianModel(prefix='p_'))
        win = sc.scalar(np.array(0.6 * f).astype(dt)[()], unit=unit, dtype=dt)
        add('peaks.fit_peaks[scalar window]', P.fit_peaks, da.copy(), peak_estimates=est.copy(), windows=win, background='linear', peak='gaussian')
        w2 = sc.array(dims=['d', 'range'], values=(np.array([[1.2, 1.8], [2.9, 3.5]]) * f).astype(dt), unit=unit, dtype=dt)
        add('peaks.fit_peaks[explicit windows]', P.fit_peaks, da.copy(), peak_estimates=est.copy(), windows=w2,
            background=M.PolynomialModel(degree=1), peak=(M.LorentzianModel(), 'gaussian'))
        # ---- explicit 2-d windows: classes of edge VALUES relative to the data range [0.5, 4.5] and to each other (label-based
        #      slicing accepts edges outside the data), x dim order x order of the estimates x dtype / unit of the window array,
        #      with every optional argument given as a caller-owned object.  A clamp / sort / separation written into the
        #      caller's array only shows when it changes a value, i.e. for edges outside the data, overlapping or unordered windows.
        rw = Rng(seed + 5)
        u_ = rw.uniform(0.1, 2.0, 4)
        WINDOW_CLASSES = {
            'edges-outside-data': [[-1.0, 1.8], [2.9, 9.0]],
            'lower-edge-outside': [[0.2, 1.8], [2.9, 3.5]],
            'overlapping': [[1.0, 3.4], [1.4, 3.6]],
            'overlapping,outside': [[-2.0, 3.4], [1.4, 7.0]],
            'window-beyond-data': [[7.0, 9.0], [2.9, 3.5]],
            'reversed-edges': [[1.8, 1.2], [2.9, 3.5]],
            'infinite-edges': [[-np.inf, 1.8], [2.9, np.inf]],
            'seeded': [[1.5 - u_[0], 1.5 + u_[1]], [3.2 - u_[2], 3.2 + u_[3]]],
        }
        names_ = list(WINDOW_CLASSES)
        if layout != '1d':       # the layout axis does not exist for peaks: the other layouts carry further seeded windows only
            WINDOW_CLASSES = {'seeded': WINDOW_CLASSES['seeded']}
        elif not (variant['dtype'] == 'float64' and variant['unit'] == 0):
            # every class for the base variant; the other dtype / unit variants: out-of-range, seeded and one class chosen by the seed
            WINDOW_CLASSES = {k: WINDOW_CLASSES[k] for k in names_ if k in ('edges-outside-data', 'seeded', names_[(seed + 3) % len(names_)])}

        def window_array(vals, order=(0, 1), transposed=False, wdt=None, wunit=None):
            v = np.array(vals, dtype='float64')[list(order)] * f
            if wunit is not None:
                v = sc.array(dims=['d', 'range'], values=v, unit=unit).to(unit=wunit).values
            if transposed:
                return sc.array(dims=['range', 'd'], values=v.T.astype(wdt or dt), unit=wunit or unit, dtype=wdt or dt)
            return sc.array(dims=['d', 'range'], values=v.astype(wdt or dt), unit=wunit or unit, dtype=wdt or dt)
        other_unit = 'nm' if unit == 'angstrom' else 'angstrom'
        fp = lambda: P.FitParameters(guess_background_fraction=float(rw.uniform(0.2, 0.8, 1)[0]),
                                     neighbor_separation_factor=float(rw.uniform(0.1, 0.9, 1)[0]))
        fr = lambda: P.FitRequirements(min_p_value=0.001, max_peak_width_factor=1.5, min_peak_width_factor=0.5)
        # every class in the plain form; the dim-order / estimate-order / parameter-object forms for the out-of-range class, the
        # seeded class and one further class chosen by the seed (a fit costs ~0.1 s).  The aligned re-run (arguments converted
        # to the units / dtypes of the traced copy=False conversions) is made for the out-of-range and seeded classes.
        full_forms = {'edges-outside-data', 'seeded', names_[seed % len(names_)]}
        for wc, vals in WINDOW_CLASSES.items():
            na = {} if wc in ('edges-outside-data', 'seeded') else {'noalign': True}
            add(f'peaks.fit_peaks[explicit windows: {wc}]', P.fit_peaks, da.copy(), peak_estimates=est.copy(), windows=window_array(vals),
                background='linear', peak='gaussian', _opts=dict(na))
            if wc not in full_forms:
                continue
            add(f'peaks.fit_peaks[explicit windows: {wc}, transposed, parameter objects]', P.fit_peaks, da.copy(), peak_estimates=est.copy(),
                windows=window_array(vals, transposed=True), background=[M.PolynomialModel(degree=1), 'quadratic'],
                peak=[M.GaussianModel(), M.LorentzianModel()], fit_parameters=fp(), fit_requirements=fr(), _opts={'noalign': True})
            add(f'peaks.fit_peaks[explicit windows: {wc}, unsorted estimates]', P.fit_peaks, da.copy(), peak_estimates=sc.array(dims=['d'], values=est.values[::-1].copy(), unit=unit, dtype=dt),
                windows=window_array(vals, order=(1, 0)), background='linear', peak='lorentzian', fit_parameters=fp(), _opts={'noalign': True})
        for wc in ('edges-outside-data', 'seeded'):
            if wc not in WINDOW_CLASSES:
                continue
            vals = WINDOW_CLASSES[wc]
            if dt != 'float64':
                add(f'peaks.fit_peaks[explicit windows: {wc}, float64 windows]', P.fit_peaks, da.copy(), peak_estimates=est.copy(),
                    windows=window_array(vals, wdt='float64'), background='linear', peak='gaussian')
            add(f'peaks.fit_peaks[explicit windows: {wc}, windows in {other_unit}]', P.fit_peaks, da.copy(), peak_estimates=est.copy(),
                windows=window_array(vals, wunit=other_unit), background='linear', peak='gaussian')
            add(f'peaks.fit_peaks[explicit windows: {wc}, data with mask]', P.fit_peaks,
                da.assign_masks(m=da.coords['d'] > sc.scalar(np.array(4.2 * f).astype(dt)[()], unit=unit, dtype=dt)),
                peak_estimates=est.copy(), windows=window_array(vals), background='linear', peak='gaussian')
        # scalar window: wider than the data / estimates outside the data (the internal clipping and separation are active),
        # optional arguments as caller-owned objects, the separation factor also as a Variable
        wide = sc.scalar(np.array(float(rw.uniform(1.0, 9.0, 1)[0]) * f).astype(dt)[()], unit=unit, dtype=dt)
        est_out = sc.array(dims=['d'], values=(np.array([0.2, 1.5, 3.2, 5.1]) * f).astype(dt), unit=unit, dtype=dt)
        add('peaks.fit_peaks[scalar window wider than the data, parameter objects]', P.fit_peaks, da.copy(), peak_estimates=est.copy(),
            windows=wide, background='linear', peak='gaussian', fit_parameters=fp(), fit_requirements=fr())
        add('peaks.fit_peaks[scalar window, estimates outside the data]', P.fit_peaks, da.copy(), peak_estimates=est_out,
            windows=win.copy(), background=('linear',), peak=('gaussian', 'pseudo_voigt'), fit_parameters=fp())
        add('peaks.fit_peaks[scalar window, separation factor as a variable]', P.fit_peaks, da.copy(), peak_estimates=est.copy(),
            windows=win.copy(), background='linear', peak='gaussian',
            fit_parameters=P.FitParameters(neighbor_separation_factor=sc.scalar(np.array(0.2).astype(dt)[()], dtype=dt)))
        add(f'peaks.fit_peaks[scalar window in {other_unit}]', P.fit_peaks, da.copy(), peak_estimates=est.copy(),
            windows=win.to(unit=other_unit), background='linear', peak='gaussian')
        try:
            res = P.fit_peaks(da, peak_estimates=est, windows=win, background='linear', peak='gaussian')
            mk_res = lambda: P.fit_peaks(da, peak_estimates=est, windows=win, background='linear', peak='gaussian')
            add('peaks.remove_peaks', P.remove_peaks, sc.values(da), mk_res())
            add('peaks.FitResult.eval_model', P.FitResult.eval_model, mk_res()[0], xvar())
            add('peaks.FitResult.eval_peak', P.FitResult.eval_peak, mk_res()[0], xvar())
            add('peaks.FitResult.report', P.FitResult.report, mk_res()[0])
            add('peaks.FitResult.better_than', P.FitResult.better_than, mk_res()[0], mk_res()[1])
            # a fit that ended on the boundary of the parameter domain (scale = 0: what the 'avoid division by 0' guards exist for)
            def degenerate(r_, value):
                popt = {k: (sc.scalar(np.array(value).astype(dt)[()], unit=v.unit, dtype=dt) if k.endswith('scale') else v.copy())
                        for k, v in r_.popt.items()}
                return dataclasses.replace(r_, popt=popt)
            for tag, value in (('scale=0', 0.0), ('scale<0', -0.05 * f)):
                add(f'peaks.FitResult.eval_model[{tag}]', P.FitResult.eval_model, degenerate(copy.deepcopy(res[0]), value), xvar())
                add(f'peaks.FitResult.eval_peak[{tag}]', P.FitResult.eval_peak, degenerate(copy.deepcopy(res[0]), value), xvar())
                add(f'peaks.remove_peaks[{tag}]', P.remove_peaks, sc.values(da), [degenerate(r_, value) for r_ in copy.deepcopy(res)])
        except Exception as ex:     # noqa: BLE001
            out.append(('peaks.remove_peaks', None, [], {}, {'skip': f'fit_peaks raised {type(ex).__name__} for this variant'}))

    guard('peaks', sec_peaks)
    def sec_absorption_atoms():
        from scippneutron import absorption as A
        from scippneutron import atoms as AT
        lu = ['mm', 'm'][variant['unit']]
        lf = 1.0 if lu == 'mm' else 1e-3
        mk_cyl = lambda: A.Cylinder(sc.vector([0.0, 1.0, 0.0]), sc.vector([0.0, 0.0, 0.0], unit=lu), sc.scalar(1.0 * lf, unit=lu),
                                    sc.scalar(2.0 * lf, unit=lu))
        add('absorption.Cylinder.beam_intersection', A.Cylinder.beam_intersection, mk_cyl(),
            sc.vectors(dims=['p'], values=[[0.1 * lf, 0.2 * lf, 0.0], [0.0, 0.5 * lf, 0.3 * lf]], unit=lu), sc.vector([0.0, 0.0, 1.0]))
        for kind in ('cheap', 'medium', 'expensive'):
            add(f'absorption.Cylinder.quadrature[{kind}]', A.Cylinder.quadrature, mk_cyl(), kind)
        add('absorption.Cylinder.quadrature[mc]', A.Cylinder.quadrature, mk_cyl(), ('mc', 50), _opts={'norepeat': True})
        add('absorption.Cylinder.center', A.Cylinder.center.fget, mk_cyl())
        add('absorption.Cylinder.volume', A.Cylinder.volume.fget, mk_cyl())
        mk_mat = lambda: A.Material(AT.ScatteringParams.for_isotope('V'), sc.scalar(0.07, unit='1/angstrom^3'))
        add('absorption.Material.attenuation_coefficient', A.Material.attenuation_coefficient, mk_mat(),
            sc.scalar(np.array(1.8 * wf_).astype(dtf)[()], unit=wu, dtype=dtf))
        add('absorption.compute_transmission_map', A.compute_transmission_map, mk_cyl(), mk_mat(),
            beam_direction=sc.vector([0.0, 0.0, 1.0]), wavelength=sc.linspace('wavelength', 1.0 * wf_, 2.0 * wf_, 2, unit=wu),
            detector_position=sc.vectors(dims=['x'], values=[[0.0, 0.0, 1.0], [0.5, 0.0, 1.0]], unit='m'), quadrature_kind='cheap')
        for iso in ('H', '2H', 'V', '50V', '3He'):
            add(f'atoms.Atom.for_isotope[{iso}]', AT.Atom.for_isotope, iso)
            add(f'atoms.ScatteringParams.for_isotope[{iso}]', AT.ScatteringParams.for_isotope, iso)
        add('atoms.Atom.atomic_weight', AT.Atom.atomic_weight.fget, AT.Atom.for_isotope('V'))
        add('atoms.Atom.atomic_mass', AT.Atom.atomic_mass.fget, AT.Atom.for_isotope('50V'))
        add('atoms.reference_wavelength', AT.reference_wavelength)

    guard('absorption / atoms', sec_absorption_atoms)
    def sec_io():
        from scippneutron.io import cif as CIF, save_xye, load_xye
        from scippneutron.metadata import Beamline, Person
        xye_da = lambda: sc.DataArray(sc.array(dims=['tof'], values=[1.0, 2.5, 4.0], variances=[0.1, 0.2, 0.3], unit='counts'),
                                      coords={'tof': sc.array(dims=['tof'], values=(np.array([10.0, 20.0, 30.0])).astype(dtf), unit=['us', 'ms'][variant['unit']], dtype=dtf)})
        add('io.save_xye', save_xye, io.StringIO(), xye_da(), _opts={'ignore_args': [0]})
        def xye_text():
            f_ = io.StringIO()
            save_xye(f_, xye_da())
            return io.StringIO(f_.getvalue())
        add('io.load_xye', load_xye, xye_text(), dim='tof', unit='counts', coord_unit='us', _opts={'ignore_args': [0]})
        powder = lambda: sc.DataArray(sc.array(dims=['tof'], values=[13.6, 26.0, 9.7], variances=[0.7, 1.1, 0.5]),
                                      coords={'tof': sc.array(dims=['tof'], values=[1.2, 1.4, 2.3], unit='us')})
        cal = lambda: sc.DataArray(sc.array(dims=['cal'], values=[3.4, 0.2]), coords={'power': sc.array(dims=['cal'], values=[0, 1])})
        authors = lambda: (Person(name='A. Author', role='measurement', corresponding=True), Person(name='B. Author', role='analysis', email='b@x.org'))
        mk_cif = lambda: CIF.CIF('blk', comment='c').with_reducers('prog 1.0').with_authors(*authors())
        add('io.cif.CIF.with_reduced_powder_data', CIF.CIF.with_reduced_powder_data, mk_cif(), powder())
        add('io.cif.CIF.with_powder_calibration', CIF.CIF.with_powder_calibration, mk_cif(), cal())
        add('io.cif.CIF.with_authors', CIF.CIF.with_authors, mk_cif(), *authors())
        add('io.cif.CIF.with_reducers', CIF.CIF.with_reducers, mk_cif(), 'other 2.0', 'third')
        add('io.cif.CIF.with_beamline', CIF.CIF.with_beamline, mk_cif(), Beamline(name='bl', facility='ESS', site='Lund'))
        add('io.cif.CIF.copy', CIF.CIF.copy, mk_cif())
        add('io.cif.CIF.save', CIF.CIF.save, mk_cif().with_reduced_powder_data(powder()), io.StringIO(),
            _opts={'ignore_args': [1], 'result_from_arg': 1, 'mask_dates': True, 'same_args_repeat': True})
        add('io.cif.CIF.schema', CIF.CIF.schema.fget, mk_cif())
        mk_block = lambda: CIF.Block('b', [{'k.a': 1, 'k.b': 'text'}, CIF.Loop({'l.x': sc.array(dims=['r'], values=[1.0, 2.0]),
                                                                           'l.y': sc.array(dims=['r'], values=[3.0, 4.0], variances=[0.1, 0.2])})])
        add('io.cif.Block.copy', CIF.Block.copy, mk_block())
        add('io.cif.Block.write', CIF.Block.write, mk_block(), io.StringIO(), _opts={'ignore_args': [1], 'result_from_arg': 1})
        add('io.cif.Block.schema', CIF.Block.schema.fget, mk_block())
        add('io.cif.save_cif[block]', CIF.save_cif, io.StringIO(), mk_block(), comment='top', _opts={'ignore_args': [0], 'result_from_arg': 0})
        add('io.cif.save_cif[builder]', CIF.save_cif, io.StringIO(), mk_cif(), comment='top',
            _opts={'ignore_args': [0], 'result_from_arg': 0, 'mask_dates': True, 'same_args_repeat': True})
        add('io.cif.Loop', CIF.Loop, {'l.x': sc.array(dims=['r'], values=[1.0, 2.0])})
        add('io.cif.Chunk', CIF.Chunk, {'k.a': sc.scalar(1.5, variance=0.01), 'k.b': 'text'})
        # ---- the low-level interface with READY-MADE chunks / loops (objects the caller keeps and reuses in several blocks)
        ldt = variant['dtype']
        cols = lambda: {'l.x': sc.array(dims=['r'], values=np.array([1, 2, 3]).astype(ldt), unit=['us', 'ms'][variant['unit']], dtype=ldt),
                        'l.y': sc.array(dims=['r'], values=[3.0, 4.0, 5.5], variances=[0.1, 0.2, 0.3])}
        pairs = lambda: {'k.a': sc.scalar(1.5, variance=0.01), 'k.b': 'text', 'k.c': 'two\nlines', 'k.d': 7}
        ITEM = {
            'loop': lambda own: CIF.Loop(cols(), comment=own, schema=CIF.PD_SCHEMA),
            'chunk': lambda own: CIF.Chunk(pairs(), comment=own, schema=CIF.CORE_SCHEMA),
            'dict': lambda own: pairs(),
            'pairs': lambda own: list(pairs().items()),
        }

        def written(*blocks):
            def g():
                f_ = io.StringIO()
                CIF.save_cif(f_, list(blocks))
                return f_.getvalue()
            return g
        ADD_COMMENTS = {'no comment': '', 'comment': 'added with a comment', 'non-ascii comment': 'mesuré à 5 K'}
        for kind, mk in ITEM.items():
            for own in (('', 'own comment') if kind in ('loop', 'chunk') else ('',)):
                for cname, addc in ADD_COMMENTS.items():
                    for share in (('unshared', 'in earlier block', 'in copy of earlier block', 'twice in the same block', 'in earlier block via add')
                                  if kind in ('loop', 'chunk') else ('unshared',)):
                        item = mk(own)
                        target = CIF.Block('second', comment='the block added to')
                        opts = {'ignore_args': [0]}        # Block.add appends to the block it is called on: that is its documented effect
                        if share != 'unshared':
                            first = CIF.Block('first', [{'a.b': 1}, item], comment='earlier')
                            if share == 'in earlier block via add':
                                first = CIF.Block('first')
                                first.add(item)
                            if share == 'in copy of earlier block':
                                target = first.copy()
                                target.name = 'second'
                            if share == 'twice in the same block':
                                target = first
                            opts['watch_extra'] = {'earlier block': first} if target is not first else {}
                            opts['observers'] = {'text the earlier block writes': written(first)} if target is not first else {}
                        opts['observers'] = dict(opts.get('observers', {}), **{'text the item writes': (lambda it=item: _item_text(it))}) \
                            if kind in ('loop', 'chunk') else opts.get('observers', {})
                        label = f'io.cif.Block.add[{kind}{", " + own if own else ""}; {cname}; {share}]'
                        kw = {'comment': addc} if addc else {}
                        add(label, CIF.Block.add, target, item, _opts=opts, **kw)
        # constructors / setters: the caller's containers and the objects built from the same containers
        c0, p0 = cols(), pairs()
        l_a, l_b = CIF.Loop(c0, comment='a'), CIF.Loop(c0, comment='b')
        add('io.cif.Loop.__setitem__', CIF.Loop.__setitem__, l_a, 'l.z', sc.array(dims=['r'], values=np.array([7, 8, 9]).astype(ldt), dtype=ldt),
            _opts={'ignore_args': [0], 'watch_extra': {'columns the loop was built from': c0, 'other loop built from the same columns': l_b},
                   'observers': {'text the other loop writes': lambda: _item_text(l_b)}})
        add('io.cif.Loop.__setitem__[existing column]', CIF.Loop.__setitem__, CIF.Loop(c0), 'l.x', c0['l.y'],
            _opts={'ignore_args': [0], 'watch_extra': {'columns the loop was built from': c0}})
        add('io.cif.Loop.__setitem__[refused: other length]', CIF.Loop.__setitem__, CIF.Loop(c0), 'l.z', sc.array(dims=['r'], values=[1.0]),
            _opts={'watch_extra': {'columns the loop was built from': c0}})
        k_a, k_b = CIF.Chunk(p0, comment='a'), CIF.Chunk(p0, comment='b')
        add('io.cif.Chunk.__setitem__', CIF.Chunk.__setitem__, k_a, 'k.z', sc.scalar(2.5, unit='m'),
            _opts={'ignore_args': [0], 'watch_extra': {'pairs the chunk was built from': p0, 'other chunk built from the same pairs': k_b},
                   'observers': {'text the other chunk writes': lambda: _item_text(k_b)}})
        add('io.cif.Chunk.__setitem__[existing key]', CIF.Chunk.__setitem__, CIF.Chunk(p0), 'k.a', 'replaced',
            _opts={'ignore_args': [0], 'watch_extra': {'pairs the chunk was built from': p0}})
        add('io.cif.Loop[comment, schema]', CIF.Loop, cols(), comment='c', schema=CIF.PD_SCHEMA)
        add('io.cif.Loop[pairs]', CIF.Loop, dict(cols()), comment='é', schema=[CIF.PD_SCHEMA, CIF.CORE_SCHEMA])
        add('io.cif.Chunk[comment, schema]', CIF.Chunk, pairs(), comment='c', schema=CIF.CORE_SCHEMA)
        add('io.cif.Chunk[pairs]', CIF.Chunk, list(pairs().items()), comment='é')
        shared_l, shared_c = ITEM['loop']('shared loop'), ITEM['chunk']('')
        add('io.cif.Block[ready-made items]', CIF.Block, 'b', [shared_c, shared_l, pairs()], comment='bc', schema=CIF.PD_SCHEMA)
        mk_two = lambda: (lambda l_, c_: [CIF.Block('one', [c_, l_], comment='1'), CIF.Block('two', [l_, {'x.y': 2}, c_], schema=CIF.PD_SCHEMA)])(
            ITEM['loop']('shared loop'), ITEM['chunk']('shared chunk'))
        add('io.cif.save_cif[blocks sharing items]', CIF.save_cif, io.StringIO(), mk_two(), comment='top',
            _opts={'ignore_args': [0], 'result_from_arg': 0})
        add('io.cif.save_cif[block, non-ascii comment]', CIF.save_cif, io.StringIO(), mk_two()[0], comment='mesuré',
            _opts={'ignore_args': [0], 'result_from_arg': 0})
        add('io.cif.save_cif[generator of blocks]', CIF.save_cif, io.StringIO(), tuple(mk_two()),
            _opts={'ignore_args': [0], 'result_from_arg': 0})
        two = mk_two()
        add('io.cif.Block.write[items shared with another block]', CIF.Block.write, two[1], io.StringIO(),
            _opts={'ignore_args': [1], 'result_from_arg': 1, 'watch_extra': {'other block': two[0]},
                   'observers': {'text the other block writes': written(two[0])}})
        add('io.cif.Block.copy[items shared with another block]', CIF.Block.copy, two[1],
            _opts={'watch_extra': {'other block': two[0]}})
        add('io.cif.Block.schema[items with schemas]', CIF.Block.schema.fget, mk_two()[1])
        add('io.cif.Block.schema[own schema]', CIF.Block.schema.fget, CIF.Block('b', [ITEM['loop']('')], schema=CIF.CORE_SCHEMA))
        add('io.cif.Chunk.write', CIF.Chunk.write, ITEM['chunk']('c'), io.StringIO(), _opts={'ignore_args': [1], 'result_from_arg': 1})
        add('io.cif.Loop.write', CIF.Loop.write, ITEM['loop']('c'), io.StringIO(), _opts={'ignore_args': [1], 'result_from_arg': 1})
        add('io.cif.Loop.schema', CIF.Loop.schema.fget, ITEM['loop']('c'))
        # the builder over data the caller keeps: two builders derived from one base share the loops made from the data
        base = mk_cif().with_reduced_powder_data(powder(), comment='reduced')
        add('io.cif.CIF.with_reduced_powder_data[comment; base already has data]', CIF.CIF.with_reduced_powder_data, base, powder(),
            comment='second data set', _opts={'observers': {'text the base builder writes': lambda: _builder_text(base)}})
        add('io.cif.CIF.with_powder_calibration[comment]', CIF.CIF.with_powder_calibration, mk_cif(), cal(), comment='calibration')

    guard('io', sec_io)
    def sec_graphs_conversions():
        from scippneutron.conversion.graph import beamline as GB, tof as GT
        from scippneutron.core import conversions as CV
        for n in ('elastic', 'kinematic', 'elastic_dspacing', 'elastic_energy', 'elastic_Q', 'elastic_Q_vec', 'elastic_hkl',
                  'elastic_wavelength', 'direct_inelastic', 'indirect_inelastic'):
            add(f'conversion.graph.tof.{n}', getattr(GT, n), 'tof')
        for n in ('L1', 'L2', 'incident_beam', 'scattered_beam', 'two_theta'):
            add(f'conversion.graph.beamline.{n}', getattr(GB, n))
        for n in ('beamline', 'Ltotal'):
            for s in (True, False):
                add(f'conversion.graph.beamline.{n}[{s}]', getattr(GB, n), s)
        for em in ('elastic', 'direct_inelastic', 'indirect_inelastic'):
            add(f'conversion_graph[{em}]', CV.conversion_graph, 'tof', 'energy_transfer' if em != 'elastic' else 'wavelength', True, em)
        add('conversion_graph[no scatter]', CV.conversion_graph, 'tof', 'wavelength', False, 'elastic')
        def tof_data():
            tof = sc.array(dims=['tof'], values=(np.array([4000.0, 5000.0, 6100.0, 7300.0]) * (1e-3 if variant['unit'] else 1)).astype(dtf),
                           unit=['us', 'ms'][variant['unit']], dtype=dtf)
            return sc.DataArray(sc.ones(dims=['spectrum', 'tof'], shape=[2, 3], unit='counts'),
                                coords={'tof': tof, 'position': sc.vectors(dims=['spectrum'], values=[[1.0, 0, 0], [0, 1, 0.2]], unit='m'),
                                        'source_position': sc.vector([0.0, 0, -10], unit='m'), 'sample_position': sc.vector([0.0, 0, 0], unit='m')})
        import scippneutron as scn
        for tgt in ('wavelength', 'dspacing', 'energy', 'Q', 'two_theta'):
            add(f'convert[tof->{tgt}]', scn.convert, tof_data(), 'tof', tgt, True)
        add('convert[tof->wavelength, no scatter]', scn.convert, tof_data(), 'tof', 'wavelength', False)
        add('deduce_conversion_graph', scn.deduce_conversion_graph, tof_data(), 'tof', 'dspacing', True)
    guard('graphs / conversions', sec_graphs_conversions)
    return out



# ============================================================================ calls: snapshots before / after, repeatability
import re
DATE_RE = re.compile(r'_audit\.creation_date\s+\S+')


def _item_text(item):
    f_ = io.StringIO()
    item.write(f_)
    return f_.getvalue()


def _builder_text(builder):
    f_ = io.StringIO()
    builder.save(f_)
    return DATE_RE.sub('_audit.creation_date <date>', f_.getvalue())


def result_snapshot(res, args, opts):
    if 'result_from_arg' in opts:
        res = args[opts['result_from_arg']].getvalue()
    if opts.get('mask_dates') and isinstance(res, str):
        res = DATE_RE.sub('_audit.creation_date <date>', res)
    return snap(res, ids=False)


def run_one(label, fn, args, kwargs, opts, args2):
    rec = {'label': label}
    if fn is None:
        rec.update(status='skip', why=opts.get('skip'))
        return rec
    ign = set(opts.get('ignore_args', []))
    # watch_extra: objects that are not arguments of THIS call but share parts with them (an earlier block holding the same loop,
    # the dict a chunk was built from); observers: what earlier results produce today (the text an earlier block writes)
    extra = opts.get('watch_extra', {})
    observers = opts.get('observers', {})
    watched = lambda a, k: (tuple(snap(x) for i, x in enumerate(a) if i not in ign) + tuple((n, snap(v)) for n, v in k.items())
                            + tuple(('extra:' + n, snap(v)) for n, v in extra.items())
                            + tuple(('observer:' + n, snap(g())) for n, g in observers.items()))
    before = watched(args, kwargs)
    try:
        res = fn(*args, **kwargs)
        status = 'ok'
        rs = result_snapshot(res, args, opts)
    except Exception as ex:      # noqa: BLE001
        status, rs = 'raises:' + type(ex).__name__, None
        rec['error'] = str(ex)[:160]
    after = watched(args, kwargs)
    rec['status'] = status
    rec['changed'] = first_diff(before, after)
    rec['n_watched'] = len(args) - len(ign) + len(kwargs) + len(extra) + len(observers)
    if opts.get('norepeat'):
        rec['repeat_equal'] = None
        return rec
    # the same call again, on the same argument objects (fresh file objects only)
    a2 = [args2[i] if i in ign else x for i, x in enumerate(args)]
    try:
        res2 = fn(*a2, **kwargs)
        st2, rs2 = 'ok', result_snapshot(res2, a2, opts)
    except Exception as ex:      # noqa: BLE001
        st2, rs2 = 'raises:' + type(ex).__name__, None
    rec['repeat_equal'] = (st2 == status and rs2 == rs)
    if not rec['repeat_equal']:
        rec['repeat_diff'] = first_diff(rs, rs2) if (rs is not None and rs2 is not None) else f'{status} vs {st2}'
        if isinstance(rs, str) and isinstance(rs2, str):
            la, lb = rs.split('\\n'), rs2.split('\\n')
            d = [(x, y) for x, y in zip(la, lb) if x != y]
            rec['repeat_diff'] = f'first differing line: {d[0][0]!r} vs {d[0][1]!r}' if d else 'length differs'
    return rec


class Tracer:
    """records every unit/dtype conversion requested with copy=False (x.to, x.astype, sc.to_unit): which object,
    which unit, which dtype.  Used to derive the argument units/dtypes that make those conversions no-ops."""

    def __init__(self):
        self.seen = []

    def __enter__(self):
        self.saved = [(sc.Variable, 'to', sc.Variable.to), (sc.Variable, 'astype', sc.Variable.astype),
                      (sc.DataArray, 'to', sc.DataArray.to), (sc.DataArray, 'astype', sc.DataArray.astype),
                      (sc, 'to_unit', sc.to_unit)]
        seen = self.seen

        def mk_to(orig):
            def to(self_, *a, unit=None, dtype=None, copy=True):
                if copy is False:
                    seen.append((self_, unit, dtype))
                return orig(self_, *a, unit=unit, dtype=dtype, copy=copy)
            return to

        def mk_astype(orig):
            def astype(self_, type, *a, copy=True):
                if copy is False:
                    seen.append((self_, None, type))
                return orig(self_, type, *a, copy=copy)
            return astype
        o_to_unit = sc.to_unit

        def to_unit(x, unit, *a, copy=True):
            if copy is False:
                seen.append((x, unit, None))
            return o_to_unit(x, unit, *a, copy=copy)
        sc.Variable.to, sc.Variable.astype = mk_to(sc.Variable.to), mk_astype(sc.Variable.astype)
        sc.DataArray.to, sc.DataArray.astype = mk_to(sc.DataArray.to), mk_astype(sc.DataArray.astype)
        sc.to_unit = to_unit
        import scippneutron.conversion.tof as T
        return self

    def __exit__(self, *exc):
        for obj, name, val in self.saved:
            setattr(obj, name, val)
        return False


def slots_of(args, kwargs):
    """the places an argument variable can sit: top-level positions and attributes of argument objects"""
    out = []
    for i, a in enumerate(args):
        out.append((a, ('pos', i)))
    for k, v in kwargs.items():
        out.append((v, ('kw', k)))
    for holder, _ in list(out):
        d = None
        if dataclasses.is_dataclass(holder) and not isinstance(holder, type):
            d = {f.name: getattr(holder, f.name) for f in dataclasses.fields(holder)}
        elif hasattr(holder, '__dict__') and not isinstance(holder, (sc.Variable, sc.DataArray)):
            d = dict(vars(holder))
        for k, v in (d or {}).items():
            if isinstance(v, (sc.Variable, sc.DataArray)):
                out.append((v, ('attr', holder, k)))
        if isinstance(holder, (dict, sc.DataGroup)):
            for k, v in holder.items():
                if isinstance(v, (sc.Variable, sc.DataArray)):
                    out.append((v, ('item', holder, k)))
    return out


def align(fn, args, kwargs):
    """run once under the tracer; convert (copies of) the arguments to the units/dtypes the function asked for with
    copy=False, in place in the args list / kwargs dict / holder objects.  Returns a description of what was aligned."""
    done = []
    for _ in range(2):
        with Tracer() as t:
            try:
                fn(*args, **kwargs)
            except Exception:      # noqa: BLE001
                pass
        slots = slots_of(args, kwargs)
        changed = False
        for obj, unit, dtype in t.seen:
            for v, where in slots:
                # the converted object is the argument itself or a VIEW of it (slice / flatten / transpose / data of a
                # data array): then the conversion is a no-op exactly when the argument has that unit / dtype
                same = v is obj
                if not same and isinstance(obj, (sc.Variable, sc.DataArray)) and isinstance(v, (sc.Variable, sc.DataArray)):
                    try:
                        same = bool(shares(v, obj)) and obj.bins is None and v.bins is None
                    except Exception:      # noqa: BLE001
                        same = False
                if same:
                    try:
                        kw = {}
                        if unit is not None and sc.Unit(str(unit)) != v.unit:
                            kw['unit'] = unit
                        if dtype is not None and v.dtype != dtype:
                            kw['dtype'] = dtype
                        if not kw:
                            continue
                        new = v.to(**kw)
                    except Exception:      # noqa: BLE001
                        continue
                    if where[0] == 'pos':
                        args[where[1]] = new
                    elif where[0] == 'kw':
                        kwargs[where[1]] = new
                    elif where[0] == 'item':
                        where[1][where[2]] = new
                    else:
                        object.__setattr__(where[1], where[2], new)
                    done.append(f'{where[0]}:{where[-1]} -> {kw}')
                    changed = True
        if not changed:
            break
    return done


def run_calls(payload):
    out = []
    only = payload.get('only')
    for combo in payload['combos']:
        variant, layout, seed = combo['variant'], combo['layout'], combo['seed']
        sections = payload.get('sections')
        try:
            b1 = builders(variant, layout, seed, sections)
            b2 = builders(variant, layout, seed, sections)
        except Exception as ex:      # noqa: BLE001
            out.append({'label': '<builders>', 'status': 'harness-error', 'error': traceback.format_exc()[-800:], 'combo': combo})
            continue
        b3 = builders(variant, layout, seed, sections) if payload.get('aligned', True) else None
        b4 = builders(variant, layout, seed, sections) if b3 is not None else None
        for j, ((label, fn, args, kwargs, opts), (_, _, args2, _, _)) in enumerate(zip(b1, b2)):
            if only and label not in only and label + '[aligned]' not in only:
                continue
            rec = run_one(label, fn, args, kwargs, opts, args2)
            rec['combo'] = combo
            out.append(rec)
            if b3 is None or fn is None or opts.get('norepeat') or opts.get('noalign') or j >= len(b3):
                continue
            # the same entry point with the arguments converted to the units / dtypes that make its internal
            # copy=False conversions no-ops (derived by tracing those conversions)
            _, fn3, args3, kwargs3, opts3 = b3[j]
            try:
                how = align(fn3, args3, kwargs3)
            except Exception as ex:      # noqa: BLE001
                how = []
            if how:
                rec2 = run_one(label + '[aligned]', fn3, args3, kwargs3, opts3, b4[j][2])
                rec2['combo'] = combo
                rec2['aligned'] = how
                out.append(rec2)
    return out


# ============================================================================ histories
class World:
    """the operations of half (b): call / observe / mutate, and reset of all module-level state"""

    def __init__(self):
        from scippneutron import atoms
        from scippneutron.conversion.graph import beamline as GB, tof as GT
        from scippneutron.core import conversions as CV
        from scippneutron.io import cif
        from scippneutron.metadata import Beamline, Person
        from scippneutron.peaks import model as M
        self.atoms, self.GB, self.GT, self.CV, self.cif, self.M = atoms, GB, GT, CV, cif, M
        self.Beamline, self.Person = Beamline, Person
        self.saved = {}
        for mod in (GT, GB):
            for n, v in vars(mod).items():
                if isinstance(v, dict) and not n.startswith('__'):
                    self.saved[(mod, n)] = (v, self.deep(v))
        self.reset()

    @staticmethod
    def deep(d):
        return {k: (World.deep(v) if isinstance(v, dict) else v) for k, v in d.items()}

    def reset(self):
        for f in (self.atoms.Atom.for_isotope, self.atoms.ScatteringParams.for_isotope):
            if hasattr(f, 'cache_clear'):
                f.cache_clear()
        for n, v in vars(self.atoms).items():
            if hasattr(v, 'cache_clear'):
                v.cache_clear()
        for cls in (self.atoms.Atom, self.atoms.ScatteringParams):
            for n, v in vars(cls).items():
                f = getattr(v, '__func__', v)
                if hasattr(f, 'cache_clear'):
                    f.cache_clear()
        for (mod, n), (obj, cp) in self.saved.items():
            obj.clear()
            obj.update(self.deep(cp))
        M, cif = self.M, self.cif
        self.models = [M.GaussianModel(prefix='g_'), M.PolynomialModel(degree=1, prefix='b_') + M.LorentzianModel(prefix='l_')]
        self.builder = cif.CIF('base', comment='base comment').with_reducers('prog 1').with_authors(
            self.Person(name='A', role='r1'))
        self.block = cif.Block('blk', [cif.Chunk({'k.a': 1}, comment='chunk of the base block'),
                                       cif.Loop({'l.x': sc.array(dims=['r'], values=[1.0, 2.0])})], comment='bc')

    KEYS = {'tofkey': ['tof', 'wavelength'], 'bool': [True, False], 'iso': ['H', '50V', 'V'], 'model': [0, 1], 'none': [None]}

    def call(self, op, key):
        GT, GB, CV, at = self.GT, self.GB, self.CV, self.atoms
        if op.startswith('graph.tof.'):
            k = self.KEYS['tofkey'][key]
            if op.endswith('inelastic'):
                k = 'tof'
            return getattr(GT, op.split('.')[-1])(k)
        if op.startswith('graph.beamline.'):
            n = op.split('.')[-1]
            return getattr(GB, n)(self.KEYS['bool'][key]) if n in ('beamline', 'Ltotal') else getattr(GB, n)()
        if op == 'conversion_graph':
            return CV.conversion_graph('tof', ['wavelength', 'energy_transfer'][key], True, ['elastic', 'direct_inelastic'][key])
        if op == 'Atom.for_isotope':
            return at.Atom.for_isotope(self.KEYS['iso'][key])
        if op == 'ScatteringParams.for_isotope':
            return at.ScatteringParams.for_isotope(self.KEYS['iso'][key])
        if op == 'Model.with_prefix':
            return self.models[key].with_prefix('p_')
        if op == 'Model.__add__':
            return self.models[0] + self.models[1]
        if op == 'CIF.copy':
            return self.builder.copy()
        if op == 'CIF.with_reducers':
            return self.builder.with_reducers('prog 2')
        if op == 'CIF.with_authors':
            return self.builder.with_authors(self.Person(name='B', role='r2'))
        if op == 'CIF.with_beamline':
            return self.builder.with_beamline(self.Beamline(name='bl', facility='ESS'))
        if op == 'Block.copy':
            return self.block.copy()
        raise KeyError(op)

    def observe(self, op, r):
        if isinstance(r, dict):
            return tuple(sorted((repr(k), getattr(v, '__module__', '') + '.' + getattr(v, '__qualname__', repr(v))) for k, v in r.items()))
        if op == 'Atom.for_isotope':
            def g(n):
                try:
                    return snap(getattr(r, n), ids=False)
                except ValueError:
                    return 'undefined'
            return (r.isotope, r.z, g('atomic_weight'), g('atomic_mass'))
        if op == 'ScatteringParams.for_isotope':
            return snap(r, ids=False)
        if op.startswith('Model.'):
            def m(x):
                sub = (m(x._left), m(x._right)) if hasattr(x, '_left') else ()
                return (type(x).__name__, x.prefix, tuple(sorted(x.param_names)), repr(sorted(x.param_bounds.items())), sub)
            return m(r)
        if op.startswith('CIF.'):
            d = {k: v for k, v in vars(r).items() if k != '_id_generator'}
            return (r.name, r.comment, snap(d, ids=False))
        if op == 'Block.copy':
            return (r.name, r.comment, snap(vars(r), ids=False))
        raise KeyError(op)

    def mutate(self, op, r, path):
        """what a caller can do to a returned object; returns False if the path cannot be mutated"""
        if isinstance(r, dict):
            if path is not None:
                return False
            r['__mutated__'] = 1
            r.pop(next(iter(r)))
            return True
        if op in ('Atom.for_isotope', 'ScatteringParams.for_isotope'):
            if path is None:
                try:
                    r.isotope = 'mutated'
                    return True
                except dataclasses.FrozenInstanceError:
                    return False
            try:
                v = getattr(r, path)
            except ValueError:
                return False
            if v is None:
                return False
            v *= 2.0                      # in-place arithmetic on the returned variable
            return True
        if op.startswith('Model.'):
            if path is not None:
                return False
            r._prefix = 'mut_'
            r._prefixed_param_names.add('mutated')
            return True
        if op.startswith('CIF.'):
            if path is None:
                r.comment = 'mutated'
            elif path == '_block':
                r.name = 'mutated'
            elif path == '_reducers':
                r._reducers.append('mutated')
            elif path == '_authors':
                r._authors.append(self.Person(name='mutated'))
            elif path == '_content':
                r._content.append(self.cif.Chunk({'m.x': 1}))
            else:
                return False
            return True
        if op == 'Block.copy':
            if path is None:
                r.name = 'mutated'
            elif path == '_content':
                # through the public interface: a new chunk, and an item the copy already holds (shared with the block it was
                # copied from: Block.copy is documented as shallow) added once more under a comment of its own
                r.add({'m.x': 1})
                r.add(r._content[0], comment='mutated')
            else:
                return False
            return True
        raise KeyError(op)


def run_histories(payload):
    w = World()
    pristine = {}
    out = []
    for h in payload['histories']:
        w.reset()
        for act in h:
            if act[0] == 'call' and (act[1], act[2]) not in pristine:
                w.reset()
                pristine[(act[1], act[2])] = w.observe(act[1], w.call(act[1], act[2]))
        w.reset()
        handles, flags, err, applied = [], [], None, []
        try:
            for act in h:
                if act[0] == 'call':
                    r = w.call(act[1], act[2])
                    handles.append((act[1], r))
                    flags.append(w.observe(act[1], r) == pristine[(act[1], act[2])])
                else:
                    op, r = handles[act[1]]
                    applied.append(bool(w.mutate(op, r, act[2])))
        except Exception:       # noqa: BLE001
            err = traceback.format_exc()[-600:]
        out.append({'flags': flags, 'error': err, 'applied': applied})
    w.reset()
    return out


def main():
    payload = json.load(sys.stdin)
    mode = payload['mode']
    res = {'scipp': sc.__version__}
    if mode == 'rows':
        res['rows'] = rows()
    elif mode == 'calls':
        res['calls'] = run_calls(payload)
    elif mode == 'histories':
        res['histories'] = run_histories(payload)
    elif mode == 'all':
        res['rows'] = rows()
        res['calls'] = run_calls(payload)
        res['histories'] = run_histories(payload)
    print('RESULT ' + json.dumps(res, default=str))


if __name__ == '__main__':
    main()
