#!/venv/bin/python
"""C20 harness: run the REAL Material.attenuation_coefficient (in /venv with PYTHONPATH=<repo>/src).

stdin : {"groups": [ {"id": .., "operands": {"n": OP, "ss": OP|null, "sa": OP|null, "wl": OP},
                      "isotope": str|null} ]}
   OP as in kernels_impl.py.  With "isotope" the scattering parameters are the bundled ones of
   that nuclide (ss / sa operands ignored and reported back as stored by the implementation);
   otherwise a ScatteringParams is built from the ss / sa operands (null -> None, a blank column).
stdout: 'RESULT <json>' — per group the operands as stored (exact) and the result per element
   (exact) or the exception class.  No comparison here; Coq compares with the model.
"""
import json
import os
import sys

sys.path.insert(0, os.path.dirname(os.path.abspath(__file__)))
import scipp as sc  # noqa: E402
from kernels_impl import build_operand, describe_result, stored  # noqa: E402

from scippneutron.absorption.material import Material  # noqa: E402
from scippneutron.atoms import ScatteringParams, reference_wavelength  # noqa: E402


def main():
    req = json.load(sys.stdin)
    out = []
    for g in req['groups']:
        res = {'id': g['id']}
        try:
            ops = {k: (build_operand(v) if v is not None else None) for k, v in g['operands'].items()}
            if g.get('isotope'):
                p = ScatteringParams.for_isotope(g['isotope'])
                ops['ss'] = p.total_scattering_cross_section
                ops['sa'] = p.absorption_cross_section
            else:
                p = ScatteringParams(isotope='X', total_scattering_cross_section=ops['ss'],
                                     absorption_cross_section=ops['sa'])
        except Exception as ex:  # the harness itself could not build the case: report, do not judge
            res['build_error'] = f'{type(ex).__name__}: {ex}'
            out.append(res)
            continue
        res['operands'] = {k: (stored(v) if v is not None else None) for k, v in ops.items()}
        snap = {k: v.copy() for k, v in ops.items() if v is not None}
        try:
            m = Material(scattering_params=p, effective_sample_number_density=ops['n'])
            r = m.attenuation_coefficient(ops['wl'])
            res['result'] = describe_result(r)
        except Exception as ex:
            res['error'] = type(ex).__name__
            res['error_text'] = str(ex)[:200]
        res['inputs_unchanged'] = all(sc.identical(ops[k], snap[k]) for k in snap)
        out.append(res)
    rw = reference_wavelength()
    print('RESULT ' + json.dumps({'groups': out, 'reference_wavelength': stored(rw), 'scipp': sc.__version__}))


if __name__ == '__main__':
    main()
