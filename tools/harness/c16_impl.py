#!/venv/bin/python
"""Implementation runner for C16 (scippneutron.peaks.model), runs in /venv with PYTHONPATH=<repo>/src.

stdin : {"groups": [GROUP]}
  GROUP  = {"id":..., "what": "call"|"fwhm"|"construct"|"names"|"bounds"|"guess", "model": MODEL, "x": VAR?,
            "y": VAR? (guess), "params": {name: VAR}}
  MODEL  = {"kind": "gauss"|"lorentz"|"pvoigt"|"poly", "prefix": final prefix, "ctor": constructor prefix,
            "chain": [prefixes passed to successive .with_prefix calls], "degree": int?}
         | {"kind": "comp", ..., "left": MODEL, "right": MODEL, "via": "ctor"|"add"}
  VAR    = {"values": [hex floats | ints], "unit": [[unit name, power], ...], "dtype": "float64|float32|int64",
            "dim": "x" | null}                       0-d (dim null) or 1-d in the given order
         | {..., "dims": [d0, d1], "shape": [n0, n1], "transposed": bool}
                                                     2-d, values in logical row-major order; transposed: the
                                                     variable is a non-contiguous view (memory order d1, d0)
stdout: 'RESULT <json>': per group the operands as stored (exact rationals, unit multiplier and base powers)
        and the result per element (exact) or the exception class.
"""
import json
import os
import sys

import numpy as np
import scipp as sc

sys.path.insert(0, os.path.dirname(os.path.abspath(__file__)))
from kernels_impl import unit_info, exact  # noqa: E402

from scippneutron.peaks import model as M  # noqa: E402


def mk_unit(spec):
    u = sc.Unit('dimensionless')
    for name, power in spec:
        u = u * sc.Unit(name) ** power
    return u


def mk_var(spec):
    vals = [float.fromhex(v) if isinstance(v, str) else v for v in spec['values']]
    unit = mk_unit(spec['unit'])
    dt = spec['dtype']
    if spec.get('dims'):
        dims, shape = list(spec['dims']), list(spec['shape'])
        arr = np.array(vals).astype(dt).reshape(shape)
        if spec.get('transposed'):
            base = sc.array(dims=dims[::-1], values=np.ascontiguousarray(arr.T), unit=unit, dtype=dt)
            return base.transpose(dims)
        return sc.array(dims=dims, values=arr, unit=unit, dtype=dt)
    if spec.get('dim') is None:
        return sc.scalar(np.array(vals[0]).astype(dt)[()], unit=unit, dtype=dt)
    return sc.array(dims=[spec['dim']], values=np.array(vals).astype(dt), unit=unit, dtype=dt)


def stored(var):
    return {'unit': unit_info(var.unit), 'dtype': str(var.dtype), 'dims': list(var.dims), 'shape': list(var.shape),
            'values': [exact(x) for x in np.asarray(var.values).reshape(-1)]}


LEAF = {'gauss': M.GaussianModel, 'lorentz': M.LorentzianModel, 'pvoigt': M.PseudoVoigtModel}


def build(m):
    """constructed with prefix m['ctor'] (or, for via='add', by left + right), then re-prefixed by every
    entry of m['chain'] in turn; the final prefix is m['prefix']"""
    k = m['kind']
    first = m.get('ctor', m['prefix'])
    if k == 'comp':
        left, right = build(m['left']), build(m['right'])
        obj = (left + right) if m.get('via') == 'add' else M.CompositeModel(left, right, prefix=first)
    elif k == 'poly':
        obj = M.PolynomialModel(degree=m['degree'], prefix=first)
    else:
        obj = LEAF[k](prefix=first)
    for p in m.get('chain', []):
        obj = obj.with_prefix(p)
    return obj


def describe(r):
    if not isinstance(r, sc.Variable):
        return {'py': repr(r)}
    return {'unit': unit_info(r.unit), 'dtype': str(r.dtype), 'dims': list(r.dims), 'shape': list(r.shape),
            'values': [exact(x) for x in np.asarray(r.values).reshape(-1)]}


def main():
    req = json.load(sys.stdin)
    out = []
    for g in req['groups']:
        res = {'id': g['id']}
        try:
            params = {k: mk_var(v) for k, v in g.get('params', {}).items()}
            x = mk_var(g['x']) if g.get('x') is not None else None
            res['params'] = {k: stored(v) for k, v in params.items()}
            if x is not None:
                res['x'] = stored(x)
        except Exception as ex:
            res['build_error'] = f'{type(ex).__name__}: {ex}'
            out.append(res)
            continue
        try:
            model = build(g['model'])
        except Exception as ex:
            res['construct_error'] = type(ex).__name__
            res['error_text'] = str(ex)[:200]
            out.append(res)
            continue
        res['param_names'] = sorted(model.param_names)
        if g['what'] in ('construct', 'names'):
            out.append(res)
            continue
        if g['what'] in ('bounds', 'guess'):
            try:
                if g['what'] == 'bounds':
                    b = model.param_bounds
                    res['keys'] = sorted(b)
                    res['bounds'] = {k: [float(v[0]), float(v[1])] for k, v in b.items()}
                else:
                    y = mk_var(g['y'])
                    da = sc.DataArray(y, coords={y.dim: x})
                    gs = model.guess(da)
                    res['keys'] = sorted(gs)
                    res['guess'] = {k: (stored(v) if isinstance(v, sc.Variable) else {'py': repr(v)}) for k, v in gs.items()}
            except Exception as ex:
                res['error'] = type(ex).__name__
                res['error_text'] = str(ex)[:200]
            out.append(res)
            continue
        snap = {k: v.copy() for k, v in params.items()}
        xsnap = x.copy() if x is not None else None
        try:
            if g['what'] == 'call':
                r = model(x, **params)
            else:
                r = model.fwhm(params)
            res['result'] = describe(r)
        except Exception as ex:
            res['error'] = type(ex).__name__
            res['error_text'] = str(ex)[:200]
        res['inputs_unchanged'] = all(sc.identical(params[k], snap[k], equal_nan=True) for k in params) and (
            x is None or sc.identical(x, xsnap, equal_nan=True))
        if not res['inputs_unchanged']:
            # which argument was modified in place: name -> [value before, value after]
            mod = {k: [stored(snap[k])['values'], stored(params[k])['values']] for k in params
                   if not sc.identical(params[k], snap[k], equal_nan=True)}
            if x is not None and not sc.identical(x, xsnap, equal_nan=True):
                mod['x'] = [stored(xsnap)['values'][:8], stored(x)['values'][:8]]
            res['modified'] = mod
        if 'result' in res:
            # the same call once more with the SAME model and argument objects: the result may not depend on
            # what an earlier evaluation left behind (in the arguments or in the model object)
            try:
                r2 = model(x, **params) if g['what'] == 'call' else model.fwhm(params)
                if isinstance(r2, sc.Variable) and isinstance(r, sc.Variable) and not sc.identical(r2, r, equal_nan=True):
                    res['repeat'] = describe(r2)
            except Exception as ex:
                res['repeat'] = {'error': type(ex).__name__}
        out.append(res)
    print('RESULT ' + json.dumps({'groups': out, 'scipp': sc.__version__}))


if __name__ == '__main__':
    main()
