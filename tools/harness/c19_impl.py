#!/venv/bin/python
"""C19 implementation runner (runs in /venv with PYTHONPATH=<repo>/src).

stdin : {"cases": [CASE, ...]}
  CASE (plateau) = {"kind": "plateau", "coord": "float"|"float32"|"int"|"datetime", "xdtype": "int32" (optional, coord int),
                    "x": [hex-float strings (float32: the exact value) | ints (int64 values / datetime64[ns] ticks)],
                    "y": [hex-float strings], "ydtype": "float64"|"float32"|"int64"|"int32",
                    "atol": hex-float, "min_n": int,
                    optional attachments of the series: "var": [hex-float] (variances of the data, float dtypes only),
                    "mask": [0|1] (a mask 'bad' along t), "extra": [int] (a further int64 coordinate 'sp' along t)}
  CASE (phase)   = {"kind": "phase", "f": [hex-float], "fdtype": "float64"|"float32"|"int64",
                    "ref": hex-float, "rtol": hex-float}
  CASE (history) = {"kind": "history", "objects": [OBJ, ...], "steps": [STEP, ...]}
      OBJ  = the series part of a plateau case (coord, x, y, ydtype) or of a phase case (kind "phase", f, fdtype);
             every OBJ becomes ONE DataArray object that lives as long as the history
      STEP = {"op": "find", "obj": k, "atol": hex, "min_n": n}     find_plateaus(obj_k) (+ collapse of the result);
                                                                   the result is remembered as plateaus_k
             {"op": "set", "obj": k, "how": "values" (da.values[lo:lo+len] = y) | "data" (da.data = new variable)
                                         | "data_values" (da.data.values[lo:..] = y) | "coord" (da.coords['t'] = new variable)
                                         | "coord_values" (da.coords['t'].values[lo:..] = x), "lo": i, "y" / "x": [...]}
             {"op": "pset", "obj": k, "how": "scale_data" (plateaus_k.bins.data *= 2) | "shift_coord" (bins.coords['t'] += c)
                                          | "event_value" (plateaus_k[bin].value.values[j] = v)
                                          | "event_coord" (plateaus_k[bin].value.coords['t'].values[j] = c), ...}
             {"op": "collapse", "obj": k}                          collapse_plateaus(plateaus_k) again
             {"op": "phase", "obj": k, "ref": hex, "rtol": hex}    filter_in_phase(obj_k)
      The SAME Python objects are passed to the package on every step; nothing else calls the package in between.
      After the last step every find / collapse / phase step is repeated on the deep copy of its argument that was
      taken just before the call ("fresh": the answer on a fresh object with the same content).
stdout: 'RESULT <json>' with, per case,
  plateau: {"error": <exception class>, "msg": ...}  or
           {"bins": [[ [x, y], ... ] per plateau], "begin_end": [[b, e], ...] (positions in scipp's bin buffer),
            "plateau_coord": [...], "collapsed": [[mean, low, high], ...] | {"error": cls}}
           (x: hex-float or int, y/mean: hex-float; low/high like x)
           + "bin_meta": names of the coordinates / masks of the bin content and whether it has variances,
             "att_bins": per plateau, per point [variance | null, mask | null, sp | null] (when anything is attached),
             "collapsed_var": [hex-float per plateau] | null, "collapsed_masks": [names]
  phase:   {"kept": [[index, hex-float], ...]}  or {"error": cls}
  history: {"steps": [null (set / pset) | plateau result + {"x", "y": content of the object at the call, "fresh_same": bool,
                      "fresh": result on the copy when different} | {"bins" (content of plateaus_k at the call), "collapsed",
                      "input_unchanged", "fresh_same"} | phase result + {"f": content at the call, "fresh_same"}]}
The index of a kept element is read from a coordinate that travels with the element.
"""
import json
import sys

import numpy as np
import scipp as sc

from scippneutron.chopper.filtering import collapse_plateaus, filter_in_phase, find_plateaus


def fh(v):
    return float(v).hex()


def cx_of(kind):
    if kind in ('float', 'float32'):
        return fh
    return lambda v: int(np.asarray(v).astype('int64'))


def coord_var(kind, x, xdtype=None):
    if kind == 'float':
        return sc.array(dims=['t'], values=np.array([float.fromhex(v) for v in x], dtype='float64'), unit='s')
    if kind == 'float32':
        return sc.array(dims=['t'], values=np.array([float.fromhex(v) for v in x], dtype='float64').astype('float32'),
                        unit='s')
    if kind == 'int':
        return sc.array(dims=['t'], values=np.array(x, dtype=xdtype or 'int64'), unit='s')
    return sc.datetimes(dims=['t'], values=np.array(x, dtype='int64').astype('datetime64[ns]'), unit='ns')


def coord_elems(kind, x, xdtype=None):
    """numpy values to be written into an existing coordinate"""
    if kind in ('float', 'float32'):
        return np.array([float.fromhex(v) for v in x], dtype='float64').astype('float64' if kind == 'float' else 'float32')
    if kind == 'int':
        return np.array(x, dtype=xdtype or 'int64')
    return np.array(x, dtype='int64').astype('datetime64[ns]')


def data_elems(ydtype, y):
    return np.array([float.fromhex(v) for v in y], dtype='float64').astype(ydtype or 'float64')


def data_var(ydtype, y):
    return sc.array(dims=['t'], values=data_elems(ydtype, y), unit='Hz')


def atol_unit(kind):
    return 'Hz/ns' if kind == 'datetime' else 'Hz/s'


def make_da(c):
    """the series; optional attachments: "var" (variances of the data, float dtypes), "mask" (a mask 'bad' along t),
    "extra" (a further int64 coordinate 'sp' along t)"""
    data = data_var(c.get('ydtype'), c['y'])
    if c.get('var') is not None:
        data.variances = data_elems(c.get('ydtype'), c['var'])
    da = sc.DataArray(data, coords={'t': coord_var(c['coord'], c['x'], c.get('xdtype'))})
    if c.get('extra') is not None:
        da.coords['sp'] = sc.array(dims=['t'], values=np.array(c['extra'], dtype='int64'), unit=None)
    if c.get('mask') is not None:
        da.masks['bad'] = sc.array(dims=['t'], values=np.array(c['mask'], dtype=bool))
    return da


def att_content(p):
    """what travels with every point of every bin besides (t, value): [variance | None, mask | None, sp | None]"""
    out = []
    for b in p:
        bv = b.value
        n = len(bv)
        va = bv.variances
        ma = bv.masks['bad'].values if 'bad' in bv.masks else None
        ex = bv.coords['sp'].values if 'sp' in bv.coords else None
        out.append([[None if va is None else fh(va[i]), None if ma is None else int(bool(ma[i])),
                     None if ex is None else int(ex[i])] for i in range(n)])
    return out


def bin_meta(p):
    buf = p.bins.constituents['data']
    return {'coords': sorted(buf.coords.keys()), 'masks': sorted(buf.masks.keys()), 'has_var': buf.variances is not None}


def bins_content(p, kind):
    cx = cx_of(kind)
    bins = []
    for b in p:                       # what a user sees: the content of each plateau bin
        bv = b.value
        bins.append([[cx(a), fh(v)] for a, v in zip(bv.coords['t'].values, bv.values)])
    return bins


def observe_collapse(p, kind):
    cx = cx_of(kind)
    try:
        col = collapse_plateaus(p, coord='t')
        edges = col.coords['t'].values
        means = col.values
        cvar = col.variances
        return {'collapsed': [[fh(m), cx(e[0]), cx(e[1])] for m, e in zip(means, edges)],
                'collapsed_var': None if cvar is None else [fh(v) for v in cvar],
                'collapsed_masks': sorted(col.masks.keys()),
                'collapsed_dims': list(col.coords['t'].dims),
                'collapsed_dtypes': [str(col.dtype), str(col.coords['t'].dtype)]}
    except Exception as ex:
        return {'collapsed': {'error': type(ex).__name__, 'msg': str(ex)[:200]}}


def observe_find(da, kind, atol, min_n):
    """find_plateaus + collapse of its result; returns (observation, plateaus or None)"""
    x_before = da.coords['t'].values.copy()
    y_before = da.values.copy()
    try:
        p = find_plateaus(da, atol=sc.scalar(float.fromhex(atol), unit=atol_unit(kind)), min_n_points=int(min_n))
    except Exception as ex:  # the class is the observation
        return {'error': type(ex).__name__, 'msg': str(ex)[:200]}, None
    out = {'bins': bins_content(p, kind)}
    cons = p.bins.constituents
    out['begin_end'] = [[int(a), int(b)] for a, b in zip(cons['begin'].values, cons['end'].values)]
    out['plateau_coord'] = [int(v) for v in p.coords['plateau'].values]
    out['dims'] = list(p.dims)
    out['dtypes'] = [str(cons['data'].dtype), str(cons['data'].coords['t'].dtype)]
    out['bin_meta'] = bin_meta(p)
    if out['bin_meta'] != {'coords': ['t'], 'masks': [], 'has_var': False} or len(da.coords) > 1 or len(da.masks) > 0 \
            or da.variances is not None:
        out['att_bins'] = att_content(p)
    out['input_unchanged'] = bool(np.array_equal(da.coords['t'].values, x_before)
                                  and np.array_equal(da.values, y_before))
    out.update(observe_collapse(p, kind))
    return out, p


def run_plateau(c):
    return observe_find(make_da(c), c['coord'], c['atol'], c['min_n'])[0]


def make_phase(c):
    f = np.array([float.fromhex(v) for v in c['f']], dtype='float64').astype(c.get('fdtype') or 'float64')
    return sc.DataArray(sc.array(dims=['t'], values=f, unit='Hz'),
                        coords={'t': sc.arange('t', len(f), unit='s'),
                                'idx': sc.arange('t', len(f), unit=None)})


def observe_phase(da, ref, rtol):
    before = da.values.copy()
    try:
        r = filter_in_phase(da, reference=sc.scalar(float.fromhex(ref), unit='Hz'),
                            rtol=sc.scalar(float.fromhex(rtol)))
    except Exception as ex:
        return {'error': type(ex).__name__, 'msg': str(ex)[:200]}
    return {'kept': [[int(i), fh(v)] for i, v in zip(r.coords['idx'].values, r.values)],
            'time': [int(v) for v in r.coords['t'].values], 'dtype': str(r.dtype),
            'input_unchanged': bool(np.array_equal(da.values, before, equal_nan=True))}


def run_phase(c):
    return observe_phase(make_phase(c), c['ref'], c['rtol'])


VOLATILE = ('msg',)


def same_obs(a, b):
    fa = {k: v for k, v in a.items() if k not in VOLATILE}
    fb = {k: v for k, v in b.items() if k not in VOLATILE}
    return json.dumps(fa, sort_keys=True) == json.dumps(fb, sort_keys=True)


def run_history(c):
    objs = c['objects']
    das = [make_phase(o) if o.get('kind') == 'phase' else make_da(o) for o in objs]
    plats = [None] * len(objs)
    out = []
    later = []                         # (step index, thunk on the deep copy taken before the call)
    for st in c['steps']:
        k = st['obj']
        o = objs[k]
        da = das[k]
        op = st['op']
        if op == 'find':
            kind = o['coord']
            cx = cx_of(kind)
            snap = da.copy()
            content = {'x': [cx(v) for v in da.coords['t'].values], 'y': [fh(v) for v in da.values],
                       'ydtype_now': str(da.dtype), 'xdtype_now': str(da.coords['t'].dtype)}
            obs, p = observe_find(da, kind, st['atol'], st['min_n'])
            plats[k] = p
            obs.update(content)
            later.append((len(out), lambda snap=snap, kind=kind, st=st: observe_find(snap, kind, st['atol'], st['min_n'])[0]))
            out.append(obs)
        elif op == 'set':
            how = st['how']
            lo = st.get('lo', 0)
            if how == 'values':
                v = data_elems(str(da.dtype), st['y'])
                da.values[lo:lo + len(v)] = v
            elif how == 'data_values':
                v = data_elems(str(da.dtype), st['y'])
                da.data.values[lo:lo + len(v)] = v
            elif how == 'data':
                da.data = data_var(st.get('ydtype') or o.get('ydtype'), st['y'])
            elif how == 'coord':
                da.coords['t'] = coord_var(o['coord'], st['x'], o.get('xdtype'))
            elif how == 'coord_values':
                v = coord_elems(o['coord'], st['x'], o.get('xdtype'))
                da.coords['t'].values[lo:lo + len(v)] = v
            else:
                raise ValueError(how)
            out.append(None)
        elif op == 'pset':
            p = plats[k]
            if p is None or len(p) == 0:
                out.append({'skipped': True})
                continue
            kind = o['coord']
            how = st['how']
            if how == 'scale_data':
                p.bins.data *= sc.scalar(2, dtype=p.bins.constituents['data'].dtype)
            elif how == 'shift_coord':
                if kind == 'datetime':
                    p.bins.coords['t'] += sc.scalar(int(st['c']), unit='ns', dtype='int64')
                elif kind == 'int':
                    p.bins.coords['t'] += sc.scalar(int(st['c']), unit='s', dtype=o.get('xdtype') or 'int64')
                else:
                    p.bins.coords['t'] += sc.scalar(float.fromhex(st['c']), unit='s',
                                                    dtype='float64' if kind == 'float' else 'float32')
            elif how == 'event_value':
                b = p[st['bin'] % len(p)].value
                b.values[st['j'] % len(b)] = data_elems(str(b.dtype), [st['v']])[0]
            elif how == 'event_coord':
                b = p[st['bin'] % len(p)].value
                b.coords['t'].values[st['j'] % len(b)] = coord_elems(kind, [st['c']], o.get('xdtype'))[0]
            else:
                raise ValueError(how)
            out.append(None)
        elif op == 'collapse':
            p = plats[k]
            if p is None:
                out.append({'skipped': True})
                continue
            kind = o['coord']
            snap = p.copy()
            obs = {'bins': bins_content(p, kind), 'ydtype_now': str(p.bins.constituents['data'].dtype)}
            obs.update(observe_collapse(p, kind))
            obs['input_unchanged'] = bins_content(p, kind) == obs['bins']
            later.append((len(out), lambda snap=snap, kind=kind: observe_collapse(snap, kind)))
            out.append(obs)
        elif op == 'phase':
            snap = da.copy()
            content = {'f': [fh(v) for v in da.values], 'fdtype_now': str(da.dtype)}
            obs = observe_phase(da, st['ref'], st['rtol'])
            obs.update(content)
            later.append((len(out), lambda snap=snap, st=st: observe_phase(snap, st['ref'], st['rtol'])))
            out.append(obs)
        else:
            raise ValueError(op)
    for i, thunk in later:
        fresh = thunk()
        mine = {k: v for k, v in out[i].items() if k in fresh}
        if same_obs(mine, fresh):
            out[i]['fresh_same'] = True
        else:
            out[i]['fresh_same'] = False
            out[i]['fresh'] = fresh
    return {'steps': out}


def main():
    payload = json.load(sys.stdin)
    res = []
    for c in payload['cases']:
        if c['kind'] == 'plateau':
            res.append(run_plateau(c))
        elif c['kind'] == 'history':
            res.append(run_history(c))
        else:
            res.append(run_phase(c))
    print('RESULT ' + json.dumps({'cases': res, 'scipp': sc.__version__, 'numpy': np.__version__}))


if __name__ == '__main__':
    import warnings
    warnings.simplefilter('ignore')
    main()
