#!/venv/bin/python
"""C19 implementation runner (runs in /venv with PYTHONPATH=<repo>/src).

stdin : {"cases": [CASE, ...]}
  CASE (plateau) = {"kind": "plateau", "coord": "float"|"int"|"datetime",
                    "x": [hex-float strings | ints (int64 values / datetime64[ns] ticks)],
                    "y": [hex-float strings], "ydtype": "float64"|"int64",
                    "atol": hex-float, "min_n": int}
  CASE (phase)   = {"kind": "phase", "f": [hex-float], "ref": hex-float, "rtol": hex-float}
stdout: 'RESULT <json>' with, per case,
  plateau: {"error": <exception class>, "msg": ...}  or
           {"bins": [[ [x, y], ... ] per plateau], "begin_end": [[b, e], ...] (positions in scipp's bin buffer),
            "plateau_coord": [...], "collapsed": [[mean, low, high], ...] | {"error": cls}}
           (x: hex-float or int, y/mean: hex-float; low/high like x)
  phase:   {"kept": [[index, hex-float], ...]}  or {"error": cls}
The index of a kept element is read from a coordinate that travels with the element.
"""
import json
import sys

import numpy as np
import scipp as sc

from scippneutron.chopper.filtering import collapse_plateaus, filter_in_phase, find_plateaus


def fh(v):
    return float(v).hex()


def run_plateau(c):
    kind = c['coord']
    y = np.array([float.fromhex(v) for v in c['y']], dtype='float64')
    if c.get('ydtype') == 'int64':
        y = y.astype('int64')
    data = sc.array(dims=['t'], values=y, unit='Hz')
    if kind == 'float':
        x = sc.array(dims=['t'], values=np.array([float.fromhex(v) for v in c['x']], dtype='float64'), unit='s')
        aunit = 'Hz/s'
    elif kind == 'int':
        x = sc.array(dims=['t'], values=np.array(c['x'], dtype='int64'), unit='s')
        aunit = 'Hz/s'
    else:
        x = sc.datetimes(dims=['t'], values=np.array(c['x'], dtype='int64').astype('datetime64[ns]'), unit='ns')
        aunit = 'Hz/ns'
    da = sc.DataArray(data, coords={'t': x})
    x_before = da.coords['t'].values.copy()
    y_before = da.values.copy()
    try:
        p = find_plateaus(da, atol=sc.scalar(float.fromhex(c['atol']), unit=aunit), min_n_points=int(c['min_n']))
    except Exception as ex:  # the class is the observation
        return {'error': type(ex).__name__, 'msg': str(ex)[:200]}
    out = {}

    def cx(v):
        if kind == 'float':
            return fh(v)
        return int(np.asarray(v).astype('int64'))
    bins = []
    for b in p:                       # what a user sees: the content of each plateau bin
        bv = b.value
        xs = bv.coords['t'].values
        ys = bv.values
        bins.append([[cx(a), fh(v)] for a, v in zip(xs, ys)])
    out['bins'] = bins
    cons = p.bins.constituents
    out['begin_end'] = [[int(a), int(b)] for a, b in zip(cons['begin'].values, cons['end'].values)]
    out['plateau_coord'] = [int(v) for v in p.coords['plateau'].values]
    out['dims'] = list(p.dims)
    out['input_unchanged'] = bool(np.array_equal(da.coords['t'].values, x_before)
                                  and np.array_equal(da.values, y_before))
    try:
        col = collapse_plateaus(p, coord='t')
        edges = col.coords['t'].values
        means = col.values
        out['collapsed'] = [[fh(m), cx(e[0]), cx(e[1])] for m, e in zip(means, edges)]
        out['collapsed_dims'] = list(col.coords['t'].dims)
    except Exception as ex:
        out['collapsed'] = {'error': type(ex).__name__, 'msg': str(ex)[:200]}
    return out


def run_phase(c):
    f = np.array([float.fromhex(v) for v in c['f']], dtype='float64')
    da = sc.DataArray(sc.array(dims=['t'], values=f, unit='Hz'),
                      coords={'t': sc.arange('t', len(f), unit='s'),
                              'idx': sc.arange('t', len(f), unit=None)})
    try:
        r = filter_in_phase(da, reference=sc.scalar(float.fromhex(c['ref']), unit='Hz'),
                            rtol=sc.scalar(float.fromhex(c['rtol'])))
    except Exception as ex:
        return {'error': type(ex).__name__, 'msg': str(ex)[:200]}
    return {'kept': [[int(i), fh(v)] for i, v in zip(r.coords['idx'].values, r.values)],
            'time': [int(v) for v in r.coords['t'].values]}


def main():
    payload = json.load(sys.stdin)
    res = []
    for c in payload['cases']:
        if c['kind'] == 'plateau':
            res.append(run_plateau(c))
        else:
            res.append(run_phase(c))
    print('RESULT ' + json.dumps({'cases': res, 'scipp': sc.__version__, 'numpy': np.__version__}))


if __name__ == '__main__':
    import warnings
    warnings.simplefilter('ignore')
    main()
