#!/venv/bin/python
"""C03: the PUBLIC entry points of the straight-beamline geometry, called in given orders within one process.

stdin : {"sessions": [SESSION], "fork": true}
  SESSION = {"id": n,
             "groups": [{"gid": k, "layout": "positions"|"beams"|"partial", "container": "DataArray"|"Dataset",
                         "operands": {"source"|"sample"|"position"|"b1"|"b2": OPERAND (see kernels_impl.py)}}],
                         (layout "partial": the data carries exactly the coordinates named by the operands, any of
                          source_position, sample_position, position, incident_beam, scattered_beam (vectors), L1, L2,
                          Ltotal, two_theta (scalars) -- a monitor without sample position, a secondary flight path alone,
                          precomputed beams or lengths instead of positions ...)
             "calls":  [{"op": "call", "entry": ENTRY, "group": k} | {"op": "mutate", "graph": CONSTRUCTOR}]}
  ENTRY = "L1" | "L2" | "Ltotal[T]" | "Ltotal[F]" | "two_theta" | "incident_beam" | "scattered_beam" | "position"
          | "source_position" | "sample_position"                      (scippneutron.<name>(da[, scatter=...]))
          | "g.<CONSTRUCTOR>:<node>"                                    (da.transform_coords(node, graph=graph.beamline.<constructor>(...)))
  CONSTRUCTOR = "L1" | "L2" | "Ltotal[T]" | "Ltotal[F]" | "two_theta" | "incident_beam" | "scattered_beam" | "beamline[T]" | "beamline[F]"
  "mutate": a caller empties the dictionary that the constructor returned (its own copy, as far as the caller can tell).

Every session runs in a process state of its own: all but the last in a child forked from the freshly imported
(idle, single-threaded) parent, the last one in the parent itself (whose executed lines _covwrap records).  A session is
a HISTORY: the calls are made one after the other on the same data objects; every result is reported, so that the
caller can compare each of them with the Euclidean definition whatever was asked for before.  After the history the
kernels of conversion/beamline.py are evaluated directly on the same coordinates (reference for "public == kernel").
stdout: 'RESULT <json>'.
"""
import json
import os
import sys

import numpy as np
import scipp as sc

from kernels_impl import build_operand, describe_result, stored

COORD = {'source': 'source_position', 'sample': 'sample_position', 'position': 'position',
         'b1': 'incident_beam', 'b2': 'scattered_beam'}
COORD.update({n: n for n in ('source_position', 'sample_position', 'incident_beam', 'scattered_beam', 'L1', 'L2', 'Ltotal',
                             'two_theta')})
DIM_ORDER = ['x', 'y', 'p']


def build_group(spec):
    coords = {COORD[n]: build_operand(o) for n, o in spec['operands'].items()}
    sizes = {}
    for v in coords.values():
        for d, s in zip(v.dims, v.shape):
            sizes[d] = s
    dims = [d for d in DIM_ORDER if d in sizes]
    data = sc.ones(dims=dims, shape=[sizes[d] for d in dims], unit='counts')
    if spec.get('container') == 'Dataset':
        obj = sc.Dataset({'a': data, 'b': data * 2.0}, coords=coords)
    else:
        obj = sc.DataArray(data, coords=coords)
    return obj, coords


def graph_of(cname):
    from scippneutron.conversion.graph import beamline as G
    if cname.endswith(']'):
        base, flag = cname[:-3], cname[-2] == 'T'
        return getattr(G, base)(scatter=flag)
    return getattr(G, cname)()


def call_entry(entry, da):
    import scippneutron as scn
    if entry.startswith('g.'):
        cname, node = entry[2:].split(':')
        out = da.transform_coords(node, graph=graph_of(cname), rename_dims=False, keep_aliases=False, keep_inputs=False,
                                  keep_intermediate=False)
        return out.coords[node]
    if entry.startswith('Ltotal['):
        return scn.Ltotal(da, scatter=entry[7] == 'T')
    return getattr(scn, entry)(da)


def kernel_reference(layout, c):
    """the kernels of conversion/beamline.py applied directly to the coordinates"""
    from scippneutron.conversion import beamline as B
    ref = {}

    def put(name, f):
        try:
            ref[name] = {'result': describe_result(f())}
        except Exception as ex:
            ref[name] = {'error': type(ex).__name__, 'error_text': str(ex)[:200]}

    if layout == 'partial':
        return partial_reference(c)
    if layout == 'positions':
        src, smp, pos = c['source_position'], c['sample_position'], c['position']
        inc = lambda: B.straight_incident_beam(source_position=src, sample_position=smp)  # noqa: E731
        sca = lambda: B.straight_scattered_beam(position=pos, sample_position=smp)  # noqa: E731
        put('Ltotal[F]', lambda: B.total_straight_beam_length_no_scatter(source_position=src, position=pos))
        put('position', lambda: pos)
        put('source_position', lambda: src)
        put('sample_position', lambda: smp)
    else:
        inc = lambda: c['incident_beam']  # noqa: E731
        sca = lambda: c['scattered_beam']  # noqa: E731
    put('incident_beam', inc)
    put('scattered_beam', sca)
    put('L1', lambda: B.L1(incident_beam=inc()))
    put('L2', lambda: B.L2(scattered_beam=sca()))
    put('Ltotal[T]', lambda: B.total_beam_length(L1=B.L1(incident_beam=inc()), L2=B.L2(scattered_beam=sca())))
    put('two_theta', lambda: B.two_theta(incident_beam=inc(), scattered_beam=sca()))
    return ref


def partial_reference(c):
    """data that carries only the coordinates c: every quantity from its definition (kernels of conversion/beamline.py applied
    directly; a coordinate the data carries is used as it is); a quantity whose definition needs a coordinate that is neither
    carried nor defined is a KeyError, whatever the units of the others"""
    from scippneutron.conversion import beamline as B
    defs = {'incident_beam': (B.straight_incident_beam, ('source_position', 'sample_position')),
            'scattered_beam': (B.straight_scattered_beam, ('position', 'sample_position')),
            'L1': (B.L1, ('incident_beam',)), 'L2': (B.L2, ('scattered_beam',)),
            'two_theta': (B.two_theta, ('incident_beam', 'scattered_beam'))}
    ltotal = {True: (B.total_beam_length, ('L1', 'L2')),
              False: (B.total_straight_beam_length_no_scatter, ('source_position', 'position'))}

    def rule(name, scatter):
        return ltotal[scatter] if name == 'Ltotal' else defs.get(name)

    def lacking(name, scatter):
        if name in c:
            return []
        r = rule(name, scatter)
        if r is None:
            return [name]
        return [m for a in r[1] for m in lacking(a, scatter)]

    def get(name, scatter):
        if name in c:
            return c[name]
        f, args = rule(name, scatter)
        return f(**{a: get(a, scatter) for a in args})

    ref = {}
    for qn in ('L1', 'L2', 'Ltotal[T]', 'Ltotal[F]', 'two_theta', 'incident_beam', 'scattered_beam', 'position', 'source_position',
               'sample_position'):
        name, scatter = ('Ltotal', qn[7] == 'T') if qn.startswith('Ltotal') else (qn, True)
        miss = lacking(name, scatter)
        if miss:
            ref[qn] = {'error': 'KeyError', 'error_text': 'not defined by the coordinates of the data: lacks ' + ', '.join(miss)}
            continue
        try:
            ref[qn] = {'result': describe_result(get(name, scatter))}
        except Exception as ex:
            ref[qn] = {'error': type(ex).__name__, 'error_text': str(ex)[:200]}
    return ref


def run_session(s):
    out = {'id': s['id'], 'groups': {}, 'calls': []}
    objs = {}
    for g in s['groups']:
        try:
            obj, coords = build_group(g)
        except Exception as ex:
            out['build_error'] = f'group {g["gid"]}: {type(ex).__name__}: {ex}'
            return out
        objs[g['gid']] = (obj, coords, {k: v.copy() for k, v in coords.items()}, g['layout'])
        out['groups'][str(g['gid'])] = {'operands': {n: stored(coords[COORD[n]]) for n in g['operands']}}
    for c in s['calls']:
        if c['op'] == 'mutate':
            try:
                graph_of(c['graph']).clear()
                out['calls'].append({'mutated': c['graph']})
            except Exception as ex:
                out['calls'].append({'error': type(ex).__name__, 'error_text': str(ex)[:200]})
            continue
        obj = objs[c['group']][0]
        try:
            r = call_entry(c['entry'], obj)
            out['calls'].append({'result': describe_result(r)})
        except Exception as ex:
            out['calls'].append({'error': type(ex).__name__, 'error_text': str(ex)[:200]})
    for gid, (obj, coords, snap, layout) in objs.items():
        e = out['groups'][str(gid)]
        e['inputs_unchanged'] = all(sc.identical(obj.coords[k], snap[k], equal_nan=True) for k in snap)
        e['kernel'] = kernel_reference(layout, snap)
    return out


def cov_hits():
    """the line-coverage table of tools/harness/_covwrap.py when this script runs under it (else None): a forked child
    hands the lines it executed back to the parent, which is the process whose table is written out"""
    f = sys._getframe()
    while f is not None:
        g = f.f_globals
        if isinstance(g.get('hits'), dict) and 'mon' in g and str(g.get('__file__', '')).endswith('_covwrap.py'):
            return g['hits']
        f = f.f_back
    return None


def run_forked(s):
    r, w = os.pipe()
    pid = os.fork()
    if pid == 0:
        code = 0
        try:
            os.close(r)
            try:
                res = run_session(s)
                res['forked'] = True
                h = cov_hits()
                if h is not None:
                    res['cov'] = {k: sorted(v) for k, v in h.items()}
            except BaseException as ex:
                res = {'id': s['id'], 'crash': f'{type(ex).__name__}: {ex}'}
            data = json.dumps(res).encode()
            off = 0
            while off < len(data):
                off += os.write(w, data[off:off + 65536])
            os.close(w)
        except BaseException:
            code = 1
        os._exit(code)
    os.close(w)
    chunks = []
    while True:
        b = os.read(r, 1 << 20)
        if not b:
            break
        chunks.append(b)
    os.close(r)
    os.waitpid(pid, 0)
    try:
        res = json.loads(b''.join(chunks).decode())
    except Exception:
        return {'id': s['id'], 'crash': 'child returned no result'}
    h = cov_hits()
    for k, lines in (res.pop('cov', None) or {}).items():
        if h is not None:
            h.setdefault(k, set()).update(lines)
    return res


def main():
    req = json.load(sys.stdin)
    import scippneutron  # noqa: F401  (module state of every child = state right after the import)
    sessions = req['sessions']
    out = []
    can_fork = bool(req.get('fork', True)) and hasattr(os, 'fork')
    for i, s in enumerate(sessions):
        last = i == len(sessions) - 1
        if can_fork and not last:
            try:
                out.append(run_forked(s))
                continue
            except OSError:
                can_fork = False
        res = run_session(s)
        res['forked'] = False
        out.append(res)
    print('RESULT ' + json.dumps({'sessions': out, 'scipp': sc.__version__, 'numpy': np.__version__}))


if __name__ == '__main__':
    main()
