#!/venv/bin/python
"""C20 harness: query the REAL nuclear-data lookups (runs in /venv with PYTHONPATH=<repo>/src).

stdin : {"names": [str, ...], "apis": ["scat", "atom", "elem"]}
stdout: 'RESULT <json>' with, per name (in the given order; repeated names exercise lru_cache),
   scat : {"ok": {"isotope": str, "fields": [OBS|null x 8]}} | {"err": class, "text": str}
   atom : {"ok": {"isotope": str, "z": int, "weight": OBS|null, "mass": OBS|null}} | {"err": ...}
   elem : {"group": str|null}            _parse_isotope_name(name); null = TypeError (no match);
          {"other": repr} when the helper returns something that is not a string (its interface changed)
 A result that cannot be read (missing attribute, wrong type) is reported as {"malformed": text} — this
 script never fails because the package changed a return type.
   OBS  = {"value": [num, den], "variance": [num, den]|null, "unit": {"mult": [n, d], "dims": [...],
           "name": str}, "dtype": str, "ndim": int}
 plus "units": how scipp itself resolves 'fm', 'barn', 'Da'.
No comparison is made here; the observations are compared with the model inside Coq.
"""
import json
import math
import numbers
import os
import sys
from fractions import Fraction

sys.path.insert(0, os.path.dirname(os.path.abspath(__file__)))
import scipp as sc  # noqa: E402
from kernels_impl import unit_info  # noqa: E402

import scippneutron.atoms as atoms  # noqa: E402
from scippneutron.atoms import Atom, ScatteringParams  # noqa: E402

FIELDS = ['coherent_scattering_length_re', 'coherent_scattering_length_im',
          'incoherent_scattering_length_re', 'incoherent_scattering_length_im',
          'coherent_scattering_cross_section', 'incoherent_scattering_cross_section',
          'total_scattering_cross_section', 'absorption_cross_section']


def exact(x):
    x = float(x)
    if math.isnan(x) or math.isinf(x):
        return repr(x)
    fr = Fraction(x)
    return [str(fr.numerator), str(fr.denominator)]


def obs(v):
    if v is None:
        return None
    if not isinstance(v, sc.Variable):
        return {'not_a_variable': repr(v)[:80]}
    return {'value': exact(v.value) if v.ndim == 0 else None,
            'variance': exact(v.variance) if (v.ndim == 0 and v.variance is not None) else None,
            'unit': unit_info(v.unit), 'dtype': str(v.dtype), 'ndim': v.ndim}


def err(ex):
    return {'err': type(ex).__name__, 'text': str(ex)[:120]}


def text(x):
    return x if isinstance(x, str) else {'not_a_string': repr(x)[:80]}


def q_scat(name):
    try:
        p = ScatteringParams.for_isotope(name)
    except Exception as ex:
        return err(ex)
    try:
        return {'ok': {'isotope': text(p.isotope), 'fields': [obs(getattr(p, f)) for f in FIELDS]}}
    except Exception as ex:       # the returned object cannot be read as a ScatteringParams
        return {'malformed': f'{type(ex).__name__}: {ex}'[:160], 'repr': repr(p)[:160]}


def q_atom(name):
    try:
        a = Atom.for_isotope(name)
    except Exception as ex:
        return err(ex)
    try:
        z = a.z
        if isinstance(z, numbers.Integral) and not isinstance(z, bool):
            z = int(z)
        else:
            z = {'not_an_int': repr(z)[:80]}
        out = {'isotope': text(a.isotope), 'z': z}
        for key, prop in (('weight', 'atomic_weight'), ('mass', 'atomic_mass')):
            try:
                out[key] = obs(getattr(a, prop))
            except ValueError:       # documented: the property raises when the quantity is not defined
                out[key] = None
    except Exception as ex:       # the returned object cannot be read as an Atom
        return {'malformed': f'{type(ex).__name__}: {ex}'[:160], 'repr': repr(a)[:160]}
    return {'ok': out}


def q_elem(name):
    f = getattr(atoms, '_parse_isotope_name', None)
    if f is None:
        return {'unavailable': True}
    try:
        g = f(name)
    except TypeError:
        return {'group': None}
    except Exception as ex:
        return err(ex)
    if isinstance(g, str):
        return {'group': g}
    return {'other': repr(g)[:80]}       # the private helper's interface changed: nothing to compare directly


def main():
    req = json.load(sys.stdin)
    apis = req.get('apis', ['scat', 'atom', 'elem'])
    out = []
    for name in req['names']:
        r = {}
        for api, fn in (('scat', q_scat), ('atom', q_atom), ('elem', q_elem)):
            if api in apis:
                try:
                    r[api] = fn(name)
                except Exception as ex:      # never let one name end the sweep
                    r[api] = {'malformed': f'{type(ex).__name__}: {ex}'[:160]}
        out.append(r)
    units = {u: unit_info(sc.Unit(u)) for u in ('fm', 'barn', 'Da')}
    print('RESULT ' + json.dumps({'results': out, 'units': units, 'scipp': sc.__version__,
                                  'atoms_file': atoms.__file__}, default=repr))


if __name__ == '__main__':
    main()
