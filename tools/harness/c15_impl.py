#!/venv/bin/python
"""C15 implementation runner (runs in /venv with PYTHONPATH=<repo>/src).

stdin : {"tmpdir": path, "files": [FILE...], "refusals": [REF...]}
  FILE = {"id", "target": "path"|"pathlib"|"stringio"|"fileobj",
          "header": null (default: generated) | [character codes],
          "coords": [names]   (all 1-d along dim "d"; the one that must be written is "chosen"),
          "chosen": name, "coord_arg": name|null, "unit": str|null, "coord_unit": str|null,
          "x": [u64 bit patterns], "y": [...], "v": [...]}          (binary64 bit patterns as ints)
  REF  = {"id", "has_variances": bool, "ndim": 0|1|2, "masks": [names], "coords": [names],
          "scalar_coords": [names], "edges": [names], "coord_arg": name|null}
stdout: RESULT {"files": [...], "refusals": [...], "versions": {...}}
  per FILE: {"save_error": cls} | {"text": [codes of the raw file text], "s": [bits of numpy.sqrt(v)],
            "load_error": cls | "lx","ly","lv": [bit patterns returned by load_xye], "dims", "coord_name",
            "input_unchanged": bool}
  per REF : {"outcome": "saved" | "<exception as named in xye.py>", "msg", "facts_measured": {...}}
No comparison is made here; the observations go to Coq.
"""
import io
import json
import os
import pathlib
import sys
import warnings

import numpy as np
import scipp as sc

from scippneutron.io.xye import load_xye, save_xye

warnings.simplefilter('ignore')


def f64(bits):
    return np.array(bits, dtype=np.uint64).view(np.float64)


def bits(a):
    return [int(b) for b in np.ascontiguousarray(np.asarray(a, dtype=np.float64)).view(np.uint64)]


def exc_name(e):
    t = type(e)
    for nm in ('VariancesError', 'DimensionError', 'CoordError', 'UnitError', 'DTypeError'):
        if t is getattr(sc, nm, None):
            return 'sc.' + nm
    return t.__name__


def run_file(c, tmpdir):
    x, y, v = f64(c['x']), f64(c['y']), f64(c['v'])
    n = len(x)
    data = sc.array(dims=['d'], values=y.copy(), variances=v.copy(), unit=c.get('unit'))
    coords = {}
    for k, nm in enumerate(c['coords']):
        if nm == c['chosen']:
            coords[nm] = sc.array(dims=['d'], values=x.copy(), unit=c.get('coord_unit'))
        else:   # decoys: different values, so that writing the wrong coordinate shows
            coords[nm] = sc.array(dims=['d'], values=np.arange(n, dtype=np.float64) * (k + 2) + 0.25, unit='m')
    da = sc.DataArray(data, coords=coords)
    header = None if c['header'] is None else ''.join(chr(k) for k in c['header'])
    kw = {}
    if header is not None:
        kw['header'] = header
    if c.get('coord_arg') is not None:
        kw['coord'] = c['coord_arg']
    path = os.path.join(tmpdir, f'f{c["id"]}.xye')
    out = {}
    sio = None
    try:
        if c['target'] == 'path':
            save_xye(path, da, **kw)
        elif c['target'] == 'pathlib':
            save_xye(pathlib.Path(path), da, **kw)
        elif c['target'] == 'fileobj':
            with open(path, 'w') as f:
                save_xye(f, da, **kw)
        else:
            sio = io.StringIO()
            save_xye(sio, da, **kw)
    except Exception as e:
        return {'save_error': exc_name(e), 'msg': str(e)[:200]}
    if sio is not None:
        text = sio.getvalue()
    else:
        with open(path, newline='', encoding='latin-1') as f:   # raw characters, no newline translation
            text = f.read()
    out['text'] = [ord(ch) for ch in text]
    out['s'] = bits(np.sqrt(v))
    out['input_unchanged'] = bool(np.array_equal(bits(da.values), c['y']) and np.array_equal(bits(da.variances), c['v'])
                                  and np.array_equal(bits(da.coords[c['chosen']].values), c['x']))
    lkw = {'dim': 'd', 'unit': c.get('unit'), 'coord_unit': c.get('coord_unit')}
    try:
        if c['target'] == 'path':
            r = load_xye(path, **lkw)
        elif c['target'] == 'pathlib':
            r = load_xye(pathlib.Path(path), **lkw)
        elif c['target'] == 'fileobj':
            with open(path) as f:
                r = load_xye(f, **lkw)
        else:
            sio.seek(0)
            r = load_xye(sio, **lkw)
        out['dims'] = list(r.dims)
        out['coord_names'] = list(r.coords.keys())
        out['lx'] = bits(r.coords['d'].values)
        out['ly'] = bits(r.values)
        out['lv'] = bits(r.variances)
        out['units'] = [str(r.unit), str(r.coords['d'].unit)]
    except Exception as e:
        out['load_error'] = exc_name(e)
        out['msg'] = str(e)[:200]
    finally:
        if os.path.exists(path):
            os.unlink(path)
    return out


def run_refusal(c):
    nd = c['ndim']
    dims = ['d', 'e'][:nd]
    shape = [3, 2][:nd]
    vals = np.arange(1, 1 + int(np.prod(shape)) if nd else 2, dtype=np.float64).reshape(shape) if nd else np.float64(1.5)
    if nd == 0:
        data = sc.scalar(1.5, variance=0.5) if c['has_variances'] else sc.scalar(1.5)
    else:
        data = sc.array(dims=dims, values=vals, variances=vals * 0.5 if c['has_variances'] else None)
    coords = {}
    for k, nm in enumerate(c['coords']):
        if nm in c.get('scalar_coords', []) or nd == 0:
            coords[nm] = sc.scalar(float(k))
        else:
            # 1-d along the first data dimension (or named like the coordinate for 2-d data when possible)
            cd = nm if nm in dims else dims[0]
            ln = shape[dims.index(cd)]
            if nm in c.get('edges', []):
                ln += 1
            coords[nm] = sc.array(dims=[cd], values=np.arange(ln, dtype=np.float64) + k)
    masks = {}
    for nm in c.get('masks', []):
        masks[nm] = sc.array(dims=dims[:1], values=np.zeros(shape[0], dtype=bool)) if nd else sc.scalar(False)
    da = sc.DataArray(data, coords=coords, masks=masks)
    kw = {}
    if c.get('coord_arg') is not None:
        kw['coord'] = c['coord_arg']
    measured = {'has_variances': da.variances is not None, 'ndim': da.ndim, 'nmasks': len(da.masks),
                'ncoords': len(da.coords),
                'dim_in_coords': (da.dim in da.coords) if da.ndim == 1 else None}
    sio = io.StringIO()
    try:
        save_xye(sio, da, **kw)
        return {'outcome': 'saved', 'facts_measured': measured, 'nchars': len(sio.getvalue())}
    except Exception as e:
        return {'outcome': exc_name(e), 'msg': str(e)[:160], 'facts_measured': measured,
                'nchars': len(sio.getvalue())}


def main():
    p = json.load(sys.stdin)
    tmpdir = p['tmpdir']
    os.makedirs(tmpdir, exist_ok=True)
    res = {'files': [run_file(c, tmpdir) for c in p.get('files', [])],
           'refusals': [run_refusal(c) for c in p.get('refusals', [])],
           'versions': {'numpy': np.__version__, 'scipp': sc.__version__}}
    print('RESULT ' + json.dumps(res))


if __name__ == '__main__':
    main()
