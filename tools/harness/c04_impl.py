#!/venv/bin/python
"""C04 implementation runner (runs in /venv with PYTHONPATH=<repo>/src).

stdin : {"groups": [ {"id":..., "fn": "sawg"|"yz"|"drop"|"two_theta",
                      "b1": [hex,hex,hex], "b1_unit": str, "g": [hex x3], "g_unit": str,
                      "b2": [[hex x3], ...], "b2_unit": str,
                      "wl": [hex, ...], "wl_unit": str, "wl_dtype": "float64"|"float32",
                      "layout": "zip" | "outer" | "binned" | "scalar"} ]}
  zip    : b2 and wl share dim 'det' (element i of the result belongs to (b2[i], wl[i]))
  outer  : b2 has dim 'det', wl has dim 'wl' (result 2-d)
  binned : b2 has dim 'det'; wl is binned over 'det' with len(wl)//len(b2) events per detector
  scalar : everything 0-d (b2[0], wl[0])
stdout: 'RESULT <json>': per group the operands as stored (exact rationals, unit multiplier, base-unit
        powers) and the per-element results [(i_b2, i_wl, {name: exact})...] or the error class.
"""
import json
import math
import sys
from fractions import Fraction

import numpy as np
import scipp as sc
import scipp.constants

BASE = ['m', 'kg', 's', 'A', 'K', 'mol', 'cd', 'rad', 'counts']


def unit_info(u):
    d = u.to_dict()
    powers = d.get('powers', {})
    for k in powers:
        if k not in BASE:
            raise ValueError(f'unsupported base unit {k}')
    fr = Fraction(float(d.get('multiplier', 1.0)))
    return {'mult': [str(fr.numerator), str(fr.denominator)], 'dims': [int(powers.get(b, 0)) for b in BASE],
            'name': str(u)}


def exact(x):
    x = float(x)
    if math.isnan(x):
        return 'nan'
    if math.isinf(x):
        return 'inf' if x > 0 else '-inf'
    fr = Fraction(x)
    return [str(fr.numerator), str(fr.denominator)]


def fh(v):
    return float.fromhex(v) if isinstance(v, str) else float(v)


def vec(v, unit):
    return sc.vector([fh(c) for c in v], unit=unit)


def describe(var):
    """flat exact values + unit + dtype of a dense variable"""
    return {'unit': unit_info(var.unit), 'dtype': str(var.dtype), 'dims': list(var.dims), 'shape': list(var.shape),
            'values': [exact(x) for x in np.asarray(var.values, dtype=np.float64).reshape(-1)]}


def run_group(g):
    from scippneutron.conversion import beamline as bl
    res = {'id': g['id']}
    if g.get('b1s'):     # a per-pixel incident beam (dim 'det', zipped with the scattered beams)
        b1 = sc.vectors(dims=['det'], values=np.array([[fh(c) for c in v] for v in g['b1s']]), unit=g['b1_unit'])
    else:
        b1 = vec(g['b1'], g['b1_unit'])
    gr = vec(g['g'], g['g_unit'])
    layout = g['layout']
    nb, nw = len(g['b2']), len(g['wl'])
    b2vals = np.array([[fh(c) for c in v] for v in g['b2']])
    wlvals = np.array([fh(x) for x in g['wl']]).astype(g['wl_dtype'])
    if layout == 'scalar':
        b2 = sc.vector(b2vals[0], unit=g['b2_unit'])
        wl = sc.scalar(wlvals[0], unit=g['wl_unit'], dtype=g['wl_dtype'])
        pairs = [(0, 0)]
    elif layout == 'zip':
        b2 = sc.vectors(dims=['det'], values=b2vals, unit=g['b2_unit'])
        wl = sc.array(dims=['det'], values=wlvals, unit=g['wl_unit'], dtype=g['wl_dtype'])
        pairs = [(i, i) for i in range(nb)]
    elif layout == 'outer':
        b2 = sc.vectors(dims=['det'], values=b2vals, unit=g['b2_unit'])
        wl = sc.array(dims=['wl'], values=wlvals, unit=g['wl_unit'], dtype=g['wl_dtype'])
        pairs = None
    elif layout == 'binned':
        b2 = sc.vectors(dims=['det'], values=b2vals, unit=g['b2_unit'])
        per = nw // nb
        ev = sc.array(dims=['event'], values=wlvals[:per * nb], unit=g['wl_unit'], dtype=g['wl_dtype'])
        begin = sc.array(dims=['det'], values=np.arange(nb) * per, unit=None, dtype='int64')
        wl = sc.bins(begin=begin, end=begin + sc.scalar(per, unit=None), dim='event', data=ev)
        pairs = [(i, i * per + j) for i in range(nb) for j in range(per)]
    else:
        raise ValueError(layout)
    # operands exactly as stored
    wl_dense = wl.bins.constituents['data'] if wl.bins is not None else wl
    res['stored'] = {
        'b1': {'unit': unit_info(b1.unit), 'values': [exact(c) for c in np.asarray(b1.values).reshape(-1)]},
        'g': {'unit': unit_info(gr.unit), 'values': [exact(c) for c in gr.values]},
        'b2': {'unit': unit_info(b2.unit), 'values': [[exact(c) for c in row] for row in np.asarray(b2.values).reshape(-1, 3)]},
        'wl': {'unit': unit_info(wl_dense.unit), 'dtype': str(wl_dense.dtype),
               'values': [exact(x) for x in np.asarray(wl_dense.values, dtype=np.float64).reshape(-1)]},
    }
    snap = [b1.copy(), b2.copy(), wl.copy(), gr.copy()]
    try:
        fn = g['fn']
        if fn == 'sawg':
            r = bl.scattering_angles_with_gravity(incident_beam=b1, scattered_beam=b2, wavelength=wl, gravity=gr)
            out = {'two_theta': r['two_theta'], 'phi': r['phi']}
        elif fn == 'yz':
            out = {'gamma': bl.scattering_angle_in_yz_plane(incident_beam=b1, scattered_beam=b2, wavelength=wl, gravity=gr)}
        elif fn == 'drop':
            out = {'drop': bl._drop_due_to_gravity(distance=sc.norm(b2), wavelength=wl, gravity=gr)}
        elif fn == 'two_theta':
            out = {'two_theta': bl.two_theta(incident_beam=b1, scattered_beam=b2)}
        else:
            raise ValueError(fn)
        desc = {}
        for k, v in out.items():
            dense = v.bins.constituents['data'] if v.bins is not None else v
            desc[k] = describe(dense)
            if layout == 'outer' and fn != 'two_theta':
                desc[k]['order'] = list(v.dims)
        res['result'] = desc
        if pairs is None:
            # 2-d result: dims order as returned
            dims = list(next(iter(out.values())).dims)
            if dims == ['wl', 'det']:
                pairs = [(i, j) for j in range(len(wlvals)) for i in range(nb)]
            elif dims == ['det', 'wl']:
                pairs = [(i, j) for i in range(nb) for j in range(len(wlvals))]
            else:
                pairs = [(i, 0) for i in range(nb)]
        if fn == 'two_theta' and layout != 'scalar':
            pairs = [(i, 0) for i in range(nb)]
        res['pairs'] = pairs
    except Exception as ex:
        res['error'] = type(ex).__name__
        res['error_text'] = str(ex)[:200]
    now = [b1, b2, wl, gr]
    res['inputs_unchanged'] = all(sc.identical(a, b, equal_nan=True) for a, b in zip(now, snap))
    # history checks (see _histpass.py): the same call on the same objects, and after an in-place update of the operands
    import _histpass

    def call_with(e):
        fn = g['fn']
        if fn == 'sawg':
            r = bl.scattering_angles_with_gravity(incident_beam=e['b1'], scattered_beam=e['b2'], wavelength=e['wl'], gravity=e['gr'])
            return {'two_theta': r['two_theta'], 'phi': r['phi']}
        if fn == 'yz':
            return {'gamma': bl.scattering_angle_in_yz_plane(incident_beam=e['b1'], scattered_beam=e['b2'], wavelength=e['wl'], gravity=e['gr'])}
        if fn == 'drop':
            return {'drop': bl._drop_due_to_gravity(distance=sc.norm(e['b2']), wavelength=e['wl'], gravity=e['gr'])}
        return {'two_theta': bl.two_theta(incident_beam=e['b1'], scattered_beam=e['b2'])}

    def desc_all(o):
        return {k: describe(v.bins.constituents['data'] if v.bins is not None else v) for k, v in o.items()}

    try:
        first = {'result': desc_all(call_with({'b1': snap[0].copy(), 'b2': snap[1].copy(), 'wl': snap[2].copy(), 'gr': snap[3].copy()}))}
    except Exception as ex:
        first = {'error': type(ex).__name__}
    env = {'b1': snap[0], 'b2': snap[1], 'wl': snap[2], 'gr': snap[3]}
    try:
        first_same = {'result': desc_all(call_with(env))}
    except Exception as ex:
        first_same = {'error': type(ex).__name__}
    hv = []
    if not _histpass._same(first, first_same):
        hv.append({'key': 'repeat-call-differs:' + g['fn'], 'what': g['fn'] + ': fresh copies of the same operands give another result',
                   'replay': {'first': first, 'second': first_same}})
    else:
        hv = _histpass.checks(call_with, env, desc_all, first, 'gravity:' + g['fn'], sc)
    for v in hv:
        v['replay']['group'] = g
    res['history_violations'] = hv
    return res


def main():
    req = json.load(sys.stdin)
    out = []
    for g in req['groups']:
        try:
            out.append(run_group(g))
        except Exception as ex:   # an operand the harness itself cannot build: report, do not judge
            out.append({'id': g['id'], 'build_error': f'{type(ex).__name__}: {ex}'})
    consts = {}
    for nm in ('h', 'm_n'):
        c = getattr(sc.constants, nm)
        consts[nm] = {'value': exact(c.value), 'unit': unit_info(c.unit)}
    hv = []
    for r in out:
        for v in r.pop('history_violations', []):
            if len(hv) < 5:
                hv.append(v)
    print('RESULT ' + json.dumps({'groups': out, 'constants': consts, 'scipp': sc.__version__, 'harness_violations': hv}))


if __name__ == '__main__':
    main()
