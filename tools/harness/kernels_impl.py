#!/venv/bin/python
"""Generic implementation runner for kernel-style functions (runs in /venv with PYTHONPATH=/repo/src).

stdin : {"groups": [ {"id": ..., "expr": EXPR, "operands": {name: OPERAND}} ]}
  OPERAND = {"values": [floats as hex or ints] | [[x,y,z],...], "unit": str, "dtype": "float64|float32|int64|int32|vector3",
             "dim": "x" | "y" | null,            # null = 0-d scalar
             "binned": false}
            or, n-d (instead of "dim"):
            {"values": flat list in C order of ("dims", "shape"), "unit", "dtype",
             "dims": ["y", "x"], "shape": [3, 4],  # the LOGICAL dims / shape of the Variable handed to the kernel
             "layout": {"store": ["x", "y"],      # memory order of the underlying buffer; != dims -> a .transpose() view
                        "pad": {"x": [before, after, step]}}}   # the operand is the slice [before : ... : step] of a
                                                  # larger buffer (other, plausible values around / between its elements)
  EXPR    = "$name" | {"call": "pkg.module:function", "args": {kw: EXPR}, "pos": [EXPR], "get": key?}
stdout: 'RESULT <json>' with, per group, the operands as actually stored (exact rationals, unit
        multiplier and base-unit powers from scipp) and the result (per element, exact) or the error class.
"""
import importlib
import json
import math
import sys
from fractions import Fraction

import numpy as np
import scipp as sc

BASE = ['m', 'kg', 's', 'A', 'K', 'mol', 'cd', 'rad', 'counts']


def unit_info(u):
    d = sc.Unit(str(u)).to_dict() if not isinstance(u, sc.Unit) else u.to_dict()
    powers = d.get('powers', {})
    for k in powers:
        if k not in BASE:
            raise ValueError(f'unsupported base unit {k}')
    fr = Fraction(float(d.get('multiplier', 1.0)))
    return {'mult': [str(fr.numerator), str(fr.denominator)], 'dims': [int(powers.get(b, 0)) for b in BASE],
            'name': str(u)}


def exact(x):
    x = float(x)
    if math.isnan(x):
        return 'nan'
    if math.isinf(x):
        return 'inf' if x > 0 else '-inf'
    fr = Fraction(x)
    return [str(fr.numerator), str(fr.denominator)]


def _plain(v):
    return float.fromhex(v) if isinstance(v, str) else v


def build_nd(spec):
    """n-d operand with an explicit memory layout (module docstring): logical element [i_0, ..] of dims is
    values[ravel(i, shape)] whatever the layout"""
    dt = spec['dtype']
    dims = list(spec['dims'])
    shape = [int(n) for n in spec['shape']]
    unit = spec['unit']
    lay = spec.get('layout') or {}
    if dt == 'vector3':
        arr = np.array([[_plain(c) for c in v] for v in spec['values']], dtype='float64').reshape([*shape, 3])
        if not dims:
            return sc.vector(arr, unit=unit)
        if lay:
            raise ValueError('layout of vector operands is not supported')
        return sc.vectors(dims=dims, values=arr, unit=unit)
    arr = np.array([_plain(v) for v in spec['values']]).astype(dt).reshape(shape)
    if not dims:
        return sc.scalar(arr[()], unit=unit, dtype=dt)
    pad = {d: [int(x) for x in p] for d, p in (lay.get('pad') or {}).items()}
    store = list(lay.get('store') or dims)
    if sorted(store) != sorted(dims) or any(d not in dims for d in pad):
        raise ValueError('layout does not match dims')
    big_shape, sl = [], []
    for d, n in zip(dims, shape):
        before, after, step = pad.get(d, [0, 0, 1])
        if before < 0 or after < 0 or step < 1:
            raise ValueError('bad padding')
        span = (n - 1) * step + 1 if n > 0 else 0
        big_shape.append(before + span + after)
        sl.append(slice(before, before + span, step))
    # the surrounding buffer holds other values of the same kind (a positional read of the buffer gets those)
    flat = arr.reshape(-1)
    if flat.size:
        other = (flat[::-1].astype('float64') * 1.37 + (1 if dt.startswith('int') else 0)).astype(dt)
        big = np.resize(other, big_shape).astype(dt)
    else:
        big = np.zeros(big_shape, dtype=dt)
    big[tuple(sl)] = arr
    perm = [dims.index(d) for d in store]
    base = sc.array(dims=store, values=np.ascontiguousarray(big.transpose(perm)), unit=unit, dtype=dt)
    var = base
    for d, s in zip(dims, sl):
        if d in pad:
            var = var[d, s]
    if store != dims:
        var = var.transpose(dims)
    return var


def build_operand(spec):
    if 'dims' in spec:
        return build_nd(spec)
    dt = spec['dtype']
    dim = spec.get('dim')
    vals = spec['values']
    unit = spec['unit']
    if dt == 'vector3':
        arr = np.array([[float.fromhex(c) if isinstance(c, str) else float(c) for c in v] for v in vals])
        if dim is None:
            return sc.vector(arr[0], unit=unit)
        return sc.vectors(dims=[dim], values=arr, unit=unit)
    conv = [float.fromhex(v) if isinstance(v, str) else v for v in vals]
    if dim is None:
        return sc.scalar(np.array(conv[0]).astype(dt)[()], unit=unit, dtype=dt)
    return sc.array(dims=[dim], values=np.array(conv).astype(dt), unit=unit, dtype=dt)


def stored(var):
    """the operand as the implementation sees it: values in C order of its LOGICAL (dims, shape), whatever the
    memory layout"""
    info = {'unit': unit_info(var.unit), 'dtype': str(var.dtype), 'dims': list(var.dims), 'shape': list(var.shape)}
    if var.dtype == sc.DType.vector3:
        v = var.values.reshape(-1, 3)
        info['values'] = [[exact(c) for c in row] for row in v]
    else:
        info['values'] = [exact(x) for x in np.asarray(var.values).reshape(-1)]
    return info


def resolve(name):
    mod, fn = name.split(':')
    m = importlib.import_module(mod)
    obj = m
    for part in fn.split('.'):
        obj = getattr(obj, part)
    return obj


def evaluate(expr, env):
    if isinstance(expr, str):
        if expr.startswith('$'):
            return env[expr[1:]]
        raise ValueError(expr)
    if isinstance(expr, (int, float)):
        return expr
    f = resolve(expr['call'])
    pos = [evaluate(e, env) for e in expr.get('pos', [])]
    kw = {k: evaluate(e, env) for k, e in expr.get('args', {}).items()}
    r = f(*pos, **kw)
    if 'get' in expr:
        r = r[expr['get']]
    return r


def describe_result(r):
    if isinstance(r, dict):
        return {'dict': {k: describe_result(v) for k, v in r.items()}}
    if isinstance(r, tuple):
        return {'tuple': [describe_result(v) for v in r]}
    if isinstance(r, sc.DataArray):
        r = r.data
    if not isinstance(r, sc.Variable):
        return {'py': repr(r)}
    out = {'unit': unit_info(r.unit) if r.unit is not None else None, 'dtype': str(r.dtype),
           'dims': list(r.dims), 'shape': list(r.shape)}
    if r.dtype == sc.DType.vector3:
        v = r.values.reshape(-1, 3)
        out['values'] = [[exact(c) for c in row] for row in v]
    elif r.dtype == sc.DType.bool:
        out['values'] = [bool(x) for x in np.asarray(r.values).reshape(-1)]
    else:
        out['values'] = [exact(x) for x in np.asarray(r.values).reshape(-1)]
    return out


def main():
    req = json.load(sys.stdin)
    out = []
    hv0 = []
    # earlier callers wrecked every graph the package handed them (see _poison.py); no effect unless state is shared
    import _poison
    _poison.poison_graph_factories()
    for g in req['groups']:
        res = {'id': g['id']}
        try:
            env = {k: build_operand(v) for k, v in g['operands'].items()}
        except Exception as ex:  # an operand the harness itself cannot build: report, do not judge
            res['build_error'] = f'{type(ex).__name__}: {ex}'
            out.append(res)
            continue
        res['operands'] = {k: stored(v) for k, v in env.items()}
        snap = {k: v.copy() for k, v in env.items()}
        try:
            r = evaluate(g['expr'], env)
            res['result'] = describe_result(r)
        except Exception as ex:
            res['error'] = type(ex).__name__
            res['error_text'] = str(ex)[:200]
        res['inputs_unchanged'] = all(sc.identical(env[k], snap[k], equal_nan=True) for k in env)
        out.append(res)
        if not req.get('no_history_pass') and len(hv0) < 5:
            import _histpass
            first = {'result': res['result']} if 'result' in res else {'error': res.get('error')}
            fn = (g['expr'].get('call', '?') if isinstance(g['expr'], dict) else '?').split(':')[-1]
            for v in _histpass.checks(lambda e: evaluate(g['expr'], e), env, describe_result, first, fn, sc):
                v['replay']['group'] = g
                hv0.append(v)
    # History independence: forget the package's module state (caches, module-level tables), evaluate the same
    # groups again in REVERSE order on freshly built operands and require bit-identical results.  A cache keyed too
    # coarsely (unit but not dtype, values but not unit) or a module-level table updated in place gives another
    # answer when the calls arrive in another order.
    hv = hv0
    if not req.get('no_history_pass'):
        for m in list(sys.modules):
            if m == 'scippneutron' or m.startswith('scippneutron.'):
                del sys.modules[m]
        _poison.poison_graph_factories()
        first = {r['id']: r for r in out}
        for g in reversed(req['groups']):
            r1 = first[g['id']]
            if 'build_error' in r1:
                continue
            env = {k: build_operand(v) for k, v in g['operands'].items()}
            try:
                second = {'result': describe_result(evaluate(g['expr'], env))}
            except Exception as ex:
                second = {'error': type(ex).__name__}
            one = {'result': r1['result']} if 'result' in r1 else {'error': r1.get('error')}
            if json.dumps(one, sort_keys=True) != json.dumps(second, sort_keys=True):
                fn = g['expr'].get('call', '?') if isinstance(g['expr'], dict) else '?'
                hv.append({'key': 'history-dependent-result:' + fn.split(':')[-1],
                           'what': f'{fn} returns different results for the same operands depending on the calls made before it in '
                                   f'the same process (group {g["id"]}: evaluated in the given order vs. in reverse order after '
                                   f'forgetting the module state)',
                           'replay': {'group': g, 'first': one, 'second': second,
                                      'order': 'pass 1 = groups in the given order; pass 2 = scippneutron modules re-imported, groups in reverse order'}})
                if len(hv) >= 5:
                    break
    consts = {}
    import scipp.constants as const
    for nm in ('h', 'm_n'):
        c = getattr(const, nm)
        consts[nm] = {'value': exact(c.value), 'unit': unit_info(c.unit)}
    print('RESULT ' + json.dumps({'groups': out, 'constants': consts, 'scipp': sc.__version__,
                                  'harness_violations': hv}))


if __name__ == '__main__':
    main()
