#!/usr/bin/env python3
"""C15 extraction: turn the CURRENT text of scippneutron/io/xye.py into first-order Coq data
(Run.GenXye).  Syntax only, fail-closed: every statement of save_xye / _deduce_coord / load_xye
must be one of the forms below, anything else is emitted as SUnknown / DUnknown / an entry of
`unknown_statements`, which no obligation of coq-run/C15/Tie.v accepts.

  save_xye       if <cond>: raise <Exc>(...)                       -> Guard cond "Exc"
                 coord = _deduce_coord(da) if coord is None else coord  -> DeduceUnlessGiven
                 X = np.c_[a, b, c]                                -> save_columns (classified)
                 if header is GenerateHeader: header = _generate_xye_header(da, coord)
                 header = header.replace(a, b)[.replace(...)]      -> header_replacements
                 get_logger().<level>(...)                         -> inert
                 np.savetxt(fname, X, **kw)                        -> savetxt_* definitions
  _deduce_coord  if <cond>: return next(iter(da.coords)) | if <cond>: raise E(...) | return da.dim
  load_xye       coord = dim if coord is None else coord           -> inert
                 loaded = np.loadtxt(fname, **kw)                  -> loadtxt_* definitions
                 if loaded.ndim == 1: loaded = loaded[:, np.newaxis]  -> load_reshape
                 return sc.DataArray(sc.array(dims=[dim], values=loaded[i], variances=<f(loaded[j])>, unit=unit),
                                     coords={coord: sc.array(dims=[dim], values=loaded[k], unit=coord_unit)})
usage: c15_extract.py <repo> <out.v>   (prints `C15EXTRACT <json summary>`)
"""
import ast
import hashlib
import json
import os
import sys

OPS = {ast.Eq: 'OEq', ast.NotEq: 'ONe', ast.Lt: 'OLt', ast.LtE: 'OLe', ast.Gt: 'OGt', ast.GtE: 'OGe'}


def cs(s):
    """Coq string literal (printable ASCII only, else fail closed via repr)"""
    if not all(32 <= ord(c) < 127 for c in s):
        s = repr(s)
    return '"' + s.replace('"', '""') + '"'


def un(n):
    return ast.unparse(n)


def cond(t):
    u = un(t)
    if u == 'da.variances is None':
        return 'CNoVariances'
    if u == 'da.variances is not None':
        return '(CNot CNoVariances)'
    if u == 'da.masks':
        return 'CHasMasks'
    if u == 'da.dim not in da.coords':
        return 'CDimNotInCoords'
    if u == 'da.dim in da.coords':
        return 'CDimInCoords'
    if u == 'da.coords.is_edges(coord)':
        return 'CIsEdges'
    if isinstance(t, ast.Compare) and len(t.ops) == 1 and type(t.ops[0]) in OPS \
            and isinstance(t.comparators[0], ast.Constant) and type(t.comparators[0].value) is int \
            and 0 <= t.comparators[0].value < 1000:
        lhs = un(t.left)
        op = OPS[type(t.ops[0])]
        n = t.comparators[0].value
        if lhs == 'da.ndim':
            return f'(CNdim {op} {n})'
        if lhs == 'len(da.coords)':
            return f'(CLenCoords {op} {n})'
        if lhs == 'len(da.masks)':
            # len(da.masks) <op> n  ==  nmasks <op> n ; only the emptiness tests are expressible
            if (op, n) in (('OGt', 0), ('ONe', 0), ('OGe', 1)):
                return 'CHasMasks'
            if (op, n) in (('OEq', 0), ('OLt', 1), ('OLe', 0)):
                return '(CNot CHasMasks)'
    if isinstance(t, ast.BoolOp) and len(t.values) >= 2:
        c = 'CAnd' if isinstance(t.op, ast.And) else 'COr'
        parts = [cond(v) for v in t.values]
        out = parts[-1]
        for p in reversed(parts[:-1]):
            out = f'({c} {p} {out})'
        return out
    if isinstance(t, ast.UnaryOp) and isinstance(t.op, ast.Not):
        return f'(CNot {cond(t.operand)})'
    return f'(CUnknown {cs(u)})'


def is_raise_if(st):
    return (isinstance(st, ast.If) and not st.orelse and len(st.body) == 1 and isinstance(st.body[0], ast.Raise)
            and isinstance(st.body[0].exc, ast.Call))


def body_of(fn):
    b = fn.body
    if b and isinstance(b[0], ast.Expr) and isinstance(b[0].value, ast.Constant) and isinstance(b[0].value.value, str):
        b = b[1:]
    return b


def classify_column(e):
    u = un(e)
    return {'da.coords[coord].values': 'coord', 'da.values': 'values', 'np.sqrt(da.variances)': 'sqrt-variances',
            'numpy.sqrt(da.variances)': 'sqrt-variances', 'da.variances ** 0.5': 'sqrt-variances',
            'da.variances': 'variances'}.get(u, '?' + u)


def replace_chain(v):
    """header.replace(a,b).replace(c,d)... -> [(a,b),(c,d)] or None"""
    chain = []
    while isinstance(v, ast.Call) and isinstance(v.func, ast.Attribute) and v.func.attr == 'replace' \
            and len(v.args) == 2 and not v.keywords \
            and all(isinstance(a, ast.Constant) and isinstance(a.value, str) for a in v.args) \
            and len(v.args[0].value) >= 1 and all(ord(c) < 128 for a in v.args for c in a.value):
        chain.append((v.args[0].value, v.args[1].value))
        v = v.func.value
    if isinstance(v, ast.Name) and v.id == 'header' and chain:
        return list(reversed(chain))
    return None


def extract(src):
    tree = ast.parse(src)
    fns = {n.name: n for n in tree.body if isinstance(n, ast.FunctionDef)}
    out = {'unknown': []}
    for need in ('save_xye', 'load_xye', '_deduce_coord'):
        if need not in fns:
            out['unknown'].append(f'missing function {need}')
    # ---------------------------------------------------------------- save_xye
    steps, cols, colvar = [], None, None
    repl = []
    header_default = False
    sv = None
    sig = {}
    if 'save_xye' in fns:
        fn = fns['save_xye']
        # default of the keyword-only `header` parameter
        for a, d in zip(fn.args.kwonlyargs, fn.args.kw_defaults):
            sig[a.arg] = un(d) if d is not None else None
        for st in body_of(fn):
            u = un(st)
            if is_raise_if(st):
                steps.append(f'Guard {cond(st.test)} {cs(un(st.body[0].exc.func))}')
            elif u == 'coord = _deduce_coord(da) if coord is None else coord':
                steps.append('DeduceUnlessGiven')
            elif isinstance(st, ast.Assign) and len(st.targets) == 1 and isinstance(st.targets[0], ast.Name) \
                    and isinstance(st.value, ast.Subscript) and un(st.value.value) in ('np.c_', 'numpy.c_') \
                    and isinstance(st.value.slice, ast.Tuple) and cols is None:
                colvar = st.targets[0].id
                cols = [classify_column(e) for e in st.value.slice.elts]
            elif u == 'if header is GenerateHeader:\n    header = _generate_xye_header(da, coord)':
                header_default = True
            elif isinstance(st, ast.Assign) and len(st.targets) == 1 and un(st.targets[0]) == 'header' \
                    and replace_chain(st.value) is not None and sv is None:
                repl += replace_chain(st.value)
            elif isinstance(st, ast.Expr) and isinstance(st.value, ast.Call) \
                    and isinstance(st.value.func, ast.Attribute) and un(st.value.func.value) == 'get_logger()' \
                    and st.value.func.attr in ('info', 'debug', 'warning'):
                pass
            elif isinstance(st, ast.Expr) and isinstance(st.value, ast.Call) \
                    and un(st.value.func) in ('np.savetxt', 'numpy.savetxt') and sv is None:
                c = st.value
                sv = {'args': [un(a) for a in c.args], 'kw': {k.arg: un(k.value) for k in c.keywords}}
            else:
                steps.append(f'SUnknown {cs(u[:120])}')
                out['unknown'].append('save_xye: ' + u[:120])
    if sv is None:
        out['unknown'].append('save_xye: no np.savetxt call')
        sv = {'args': [], 'kw': {}}
    if cols is None:
        out['unknown'].append('save_xye: no np.c_[...] table')
        cols = []
    if sv['args'] != ['fname', colvar]:
        out['unknown'].append(f'save_xye: savetxt positional arguments {sv["args"]}')
    kw = dict(sv['kw'])
    if kw.pop('header', None) != 'header':
        out['unknown'].append('save_xye: savetxt header argument is not `header`')
    delim = kw.pop('delimiter', None)
    fmt = kw.pop('fmt', None)
    # ---------------------------------------------------------------- _deduce_coord
    dsteps = []
    if '_deduce_coord' in fns:
        for st in body_of(fns['_deduce_coord']):
            u = un(st)
            if is_raise_if(st):
                dsteps.append(f'DRaiseIf {cond(st.test)} {cs(un(st.body[0].exc.func))}')
            elif isinstance(st, ast.If) and not st.orelse and len(st.body) == 1 \
                    and un(st.body[0]) == 'return next(iter(da.coords))':
                dsteps.append(f'DReturnFirstIf {cond(st.test)}')
            elif u == 'return da.dim':
                dsteps.append('DReturnDim')
            else:
                dsteps.append(f'DUnknown {cs(u[:120])}')
                out['unknown'].append('_deduce_coord: ' + u[:120])
    # ---------------------------------------------------------------- load_xye
    lt = None
    reshape = False
    idx = {'coord': None, 'values': None, 'var': None, 'var_transform': '?'}
    if 'load_xye' in fns:
        for st in body_of(fns['load_xye']):
            u = un(st)
            if u == 'coord = dim if coord is None else coord':
                pass
            elif isinstance(st, ast.Assign) and un(st.targets[0]) == 'loaded' and isinstance(st.value, ast.Call) \
                    and un(st.value.func) in ('np.loadtxt', 'numpy.loadtxt') and lt is None:
                lt = {'args': [un(a) for a in st.value.args], 'kw': {k.arg: un(k.value) for k in st.value.keywords}}
            elif u == 'if loaded.ndim == 1:\n    loaded = loaded[:, np.newaxis]':
                reshape = True
            elif isinstance(st, ast.Return) and isinstance(st.value, ast.Call) and un(st.value.func) == 'sc.DataArray':
                try:
                    c = st.value
                    data = c.args[0]
                    dk = {k.arg: k.value for k in data.keywords}
                    assert un(data.func) == 'sc.array' and un(dk['dims']) == '[dim]' and un(dk['unit']) == 'unit'
                    assert set(dk) == {'dims', 'values', 'variances', 'unit'}

                    def sub(e):
                        assert isinstance(e, ast.Subscript) and un(e.value) == 'loaded' \
                            and isinstance(e.slice, ast.Constant) and type(e.slice.value) is int and e.slice.value >= 0
                        return e.slice.value
                    idx['values'] = sub(dk['values'])
                    v = dk['variances']
                    if isinstance(v, ast.BinOp) and isinstance(v.op, ast.Pow) and un(v.right) == '2':
                        idx['var'] = sub(v.left)
                        idx['var_transform'] = 'square'
                    elif isinstance(v, ast.BinOp) and isinstance(v.op, ast.Mult) and un(v.left) == un(v.right):
                        idx['var'] = sub(v.left)
                        idx['var_transform'] = 'square'
                    elif isinstance(v, ast.Call) and un(v.func) in ('np.square', 'numpy.square') and len(v.args) == 1:
                        idx['var'] = sub(v.args[0])
                        idx['var_transform'] = 'square'
                    else:
                        idx['var'] = sub(v)
                        idx['var_transform'] = 'identity'
                    ck = {k.arg: k.value for k in c.keywords}
                    assert set(ck) == {'coords'} and isinstance(ck['coords'], ast.Dict) and len(ck['coords'].keys) == 1
                    assert un(ck['coords'].keys[0]) == 'coord'
                    ca = ck['coords'].values[0]
                    cak = {k.arg: k.value for k in ca.keywords}
                    assert un(ca.func) == 'sc.array' and un(cak['dims']) == '[dim]' and un(cak['unit']) == 'coord_unit'
                    assert set(cak) == {'dims', 'values', 'unit'}
                    idx['coord'] = sub(cak['values'])
                except (AssertionError, KeyError, IndexError, AttributeError):
                    out['unknown'].append('load_xye: ' + u[:160])
            else:
                out['unknown'].append('load_xye: ' + u[:120])
    if lt is None:
        out['unknown'].append('load_xye: no np.loadtxt call')
        lt = {'args': [], 'kw': {}}
    if lt['args'] != ['fname']:
        out['unknown'].append(f'load_xye: loadtxt positional arguments {lt["args"]}')
    lkw = dict(lt['kw'])
    ldelim = lkw.pop('delimiter', None)
    lunpack = lkw.pop('unpack', None)
    for k in ('coord', 'values', 'var'):
        if idx[k] is None:
            idx[k] = 999
            out['unknown'].append(f'load_xye: column of {k} not found')
    out.update({'steps': steps, 'dsteps': dsteps, 'cols': cols, 'repl': repl, 'header_default': header_default,
                'sig': sig, 'fmt': fmt, 'delim': delim, 'save_other_kw': sorted(f'{k}={v}' for k, v in kw.items()),
                'ldelim': ldelim, 'lunpack': lunpack, 'load_other_kw': sorted(f'{k}={v}' for k, v in lkw.items()),
                'reshape': reshape, 'idx': idx})
    return out


def opt(s):
    return 'None' if s is None else f'(Some {cs(s)})'


def codes(s):
    return '[' + '; '.join(str(ord(c)) for c in s) + ']'


def emit(x, sha):
    L = ['(* GENERATED by tools/harness/c15_extract.py from src/scippneutron/io/xye.py — do not edit *)',
         f'(* sha256 {sha} *)',
         'From Coq Require Import List String Ascii.', 'From Verif.C15 Require Import Model.',
         'Import ListNotations.', 'Open Scope string_scope.', '']
    L.append('Definition save_guards : list step := [\n  ' + ';\n  '.join(x['steps']) + '\n].')
    L.append('Definition deduce_steps : list dstep := [\n  ' + ';\n  '.join(x['dsteps']) + '\n].')
    L.append('(* columns of the table handed to numpy.savetxt, left to right *)')
    L.append('Definition save_columns : list string := [' + '; '.join(cs(c) for c in x['cols']) + '].')
    L.append('(* str.replace steps applied to the header before numpy sees it (character codes) *)')
    L.append('Definition header_replacement_codes : list (list nat * list nat) := ['
             + '; '.join(f'({codes(a)}, {codes(b)})' for a, b in x['repl']) + '].')
    L.append(f'Definition header_generated_by_default : bool := {"true" if x["header_default"] else "false"}.')
    L.append(f'Definition header_param_default : option string := {opt(x["sig"].get("header"))}.')
    L.append(f'Definition savetxt_fmt : option string := {opt(x["fmt"])}.   (* None = numpy default "%.18e" *)')
    L.append(f'Definition savetxt_delimiter : option string := {opt(x["delim"])}.')
    L.append('Definition savetxt_other_kwargs : list string := [' + '; '.join(cs(c) for c in x['save_other_kw']) + '].')
    L.append(f'Definition loadtxt_delimiter : option string := {opt(x["ldelim"])}.')
    L.append(f'Definition loadtxt_unpack_arg : option string := {opt(x["lunpack"])}.')
    L.append('Definition loadtxt_other_kwargs : list string := [' + '; '.join(cs(c) for c in x['load_other_kw']) + '].')
    L.append(f'Definition load_reshape : bool := {"true" if x["reshape"] else "false"}.')
    L.append(f'Definition load_coord_index : nat := {x["idx"]["coord"]}.')
    L.append(f'Definition load_values_index : nat := {x["idx"]["values"]}.')
    L.append(f'Definition load_var_index : nat := {x["idx"]["var"]}.')
    L.append(f'Definition load_var_transform : string := {cs(x["idx"]["var_transform"])}.')
    L.append('Definition unknown_statements : list string := [' + '; '.join(cs(c) for c in x['unknown']) + '].')
    return '\n'.join(L) + '\n'


def main():
    repo, outp = sys.argv[1], sys.argv[2]
    p = os.path.join(repo, 'src', 'scippneutron', 'io', 'xye.py')
    src = open(p, encoding='utf-8').read()
    sha = hashlib.sha256(src.encode()).hexdigest()
    x = extract(src)
    with open(outp, 'w') as f:
        f.write(emit(x, sha))
    print('C15EXTRACT ' + json.dumps({'sha256': sha, 'guards': len(x['steps']), 'deduce_steps': len(x['dsteps']),
                                      'columns': x['cols'], 'header_replacements': x['repl'],
                                      'unknown': x['unknown'], 'fmt': x['fmt']}))


if __name__ == '__main__':
    main()
