#!/venv/bin/python
"""C07 — implementation runner for calls whose operands have arbitrary LAYOUTS (0-d, 1-d, n-d; dimensions shared
between operands or not), runs in /venv with PYTHONPATH=<repo>/src.

stdin : {"cases": [ {"id": ..., "call": "pkg.module:function", "pos": [names]?, "operands": {name: OPERAND}} ]}
  OPERAND = {"dims": [dim names] (may be empty), "shape": [sizes],
             "values": flat list in C order; floats as hex strings, ints as ints, vectors as [x, y, z] of hex floats,
             "unit": str, "dtype": "float64|float32|int64|int32|vector3"}
  every operand is passed by keyword unless "pos" lists the operand names to be passed positionally (in that order).
stdout: 'RESULT <json>': per case the operands as stored (dtype, dims) and the result as observed:
        {"vars": {key: {"dims", "shape", "dtype", "unit": {"name", "mult": float}, "values": flat C-order list of floats
        (JSON floats round-trip exactly; nan/inf as strings)}}} (key "" for a plain variable result, the dict keys for
        a dict result) or {"error": class, "error_text": ...}; plus "inputs_unchanged".
"""
import json
import math
import sys

import numpy as np
import scipp as sc

import kernels_impl as K


def build(spec):
    dims, shape, dt, unit = list(spec['dims']), list(spec['shape']), spec['dtype'], spec['unit']
    vals = spec['values']
    if dt == 'vector3':
        arr = np.array([[float.fromhex(c) if isinstance(c, str) else float(c) for c in v] for v in vals], dtype='float64')
        if not dims:
            return sc.vector(arr[0], unit=unit)
        return sc.vectors(dims=dims, values=arr.reshape([*shape, 3]), unit=unit)
    conv = np.array([float.fromhex(v) if isinstance(v, str) else v for v in vals])
    if not dims:
        return sc.scalar(conv.astype(dt)[0], unit=unit, dtype=dt)
    return sc.array(dims=dims, values=conv.astype(dt).reshape(shape), unit=unit, dtype=dt)


def fl(x):
    x = float(x)
    if math.isnan(x):
        return 'nan'
    if math.isinf(x):
        return 'inf' if x > 0 else '-inf'
    return x


def describe(r):
    if isinstance(r, sc.DataArray):
        r = r.data
    if not isinstance(r, sc.Variable):
        return {'py': repr(r)[:200]}
    u = None
    if r.unit is not None:
        ui = K.unit_info(r.unit)
        u = {'name': ui['name'], 'mult': int(ui['mult'][0]) / int(ui['mult'][1]), 'dims': ui['dims']}
    out = {'dims': list(r.dims), 'shape': list(r.shape), 'dtype': str(r.dtype), 'unit': u}
    if r.dtype in (sc.DType.float64, sc.DType.float32, sc.DType.int64, sc.DType.int32):
        out['values'] = [fl(x) for x in np.asarray(r.values, dtype='float64').reshape(-1)]
    return out


def main():
    req = json.load(sys.stdin)
    out = []
    for c in req['cases']:
        res = {'id': c['id']}
        try:
            env = {k: build(v) for k, v in c['operands'].items()}
        except Exception as ex:  # an operand the harness itself cannot build: report, do not judge
            res['build_error'] = f'{type(ex).__name__}: {ex}'
            out.append(res)
            continue
        res['operands'] = {k: {'dtype': str(v.dtype), 'dims': list(v.dims), 'unit': str(v.unit)} for k, v in env.items()}
        snap = {k: v.copy() for k, v in env.items()}
        try:
            f = K.resolve(c['call'])
            pos = [env[n] for n in c.get('pos', [])]
            r = f(*pos, **{k: v for k, v in env.items() if k not in c.get('pos', [])})
            if isinstance(r, dict):
                res['vars'] = {k: describe(v) for k, v in r.items()}
            else:
                res['vars'] = {'': describe(r)}
        except Exception as ex:  # noqa: BLE001 - the error class is the observation
            res['error'] = type(ex).__name__
            res['error_text'] = str(ex)[:200]
        res['inputs_unchanged'] = all(sc.identical(env[k], snap[k], equal_nan=True) for k in env)
        out.append(res)
    print('RESULT ' + json.dumps({'cases': out, 'scipp': sc.__version__}))


if __name__ == '__main__':
    main()
