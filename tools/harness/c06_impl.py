#!/venv/bin/python
"""C06 implementation runner (runs in /venv with PYTHONPATH=<repo>/src).

stdin : {"cases": [CASE...], "emit": "coq" | "py"}
  CASE = layout description produced by props/C06.py (grid kind, shape, events per bin, storage order,
         gaps, view, dtypes, geometry kind, masks, programs [(target, scatter, inelastic mode, call history)], seed);
         every number of the input (tof, weights, geometry, masks) is drawn from the case seed here.
  A program may carry a CALL HISTORY `hist` = {kind, pre: [[origin, target], ...], origin, discard, precomputed}:
         the object handed to the OBSERVED conversion (hist.origin -> target) is then not the fresh object but
         the result of the earlier conversions `pre` (re-conversion to the same target, a conversion to another
         target from tof, a chain tof -> wavelength -> energy ...; DataArray or Dataset), or the fresh object after
         earlier conversions whose results were discarded (`discard`), or events that were "loaded" with a
         precomputed target coordinate (`precomputed`: the dense kernel's value stored in the event buffer).
         Everything below (dense reference, layout, deep snapshot, preservation) is about the OBSERVED call and
         ITS input.
For every (case, program) this script
  * builds the binned input (sc.bins over one event buffer, possibly a slice / transpose of a larger parent),
  * runs scippneutron.convert on it,
  * SEPARATELY evaluates the dense conversion on a 1-d table holding, for every event that lies in a bin, the
    event's coordinate next to the geometry of its pixel (gathered with numpy from the per-pixel coordinates),
  * takes the event -> bin and event -> geometry-cell assignment from scipp itself (binned += dense broadcast),
  * writes all of that out as bit patterns / indices so that Coq can run its model of binned data on it,
  * evaluates the preservation clauses with sc.identical (flags).
stdout: 'RESULT <json>'.
"""
import json
import sys
import zlib

import numpy as np
import scipp as sc
import scippneutron as scn
from scippneutron._utils import elem_dtype, elem_unit
from scippneutron.core.conversions import conversion_graph

GEOM_NAMES = ['position', 'source_position', 'sample_position', 'Ltotal', 'two_theta', 'L1', 'L2',
              'incident_energy', 'final_energy', 'ub_matrix', 'sample_rotation', 'u_matrix', 'b_matrix',
              'incident_beam', 'scattered_beam']
GEO_ONLY = {'Ltotal', 'two_theta', 'L1', 'L2', 'incident_beam', 'scattered_beam', 'ub_matrix'}
# targets whose kernel needs an event-only operand (pulse_time): no dense bin-edge coordinate can be produced
EVENT_ONLY = {'time_at_sample'}
TOF_SI = {'s': 1.0, 'ms': 1e-3, 'us': 1e-6, 'ns': 1e-9}


# ---------------------------------------------------------------- bit patterns
def fb_list(arr):
    """1-d float/int array -> Coq list of fb (bit patterns; NaN canonical)"""
    a = np.ascontiguousarray(arr)
    if a.dtype == np.float64 or a.dtype == np.int64:
        nan = np.isnan(a) if a.dtype == np.float64 else np.zeros(a.shape, bool)
        u = a.view(np.uint64)
        neg = (u >> np.uint64(63)).astype(bool)
        low = (u & np.uint64(0x7FFFFFFFFFFFFFFF)).tolist()
    elif a.dtype == np.float32 or a.dtype == np.int32:
        # (an int32 is written as sign bit + low 31 bits of its two's complement pattern: injective, like int64)
        nan = np.isnan(a) if a.dtype == np.float32 else np.zeros(a.shape, bool)
        u = a.view(np.uint32)
        neg = (u >> np.uint32(31)).astype(bool)
        low = (u & np.uint32(0x7FFFFFFF)).tolist()
    elif a.dtype == np.bool_:
        nan = np.zeros(a.shape, bool)
        neg = nan
        low = a.astype(np.int64).tolist()
    else:
        raise TypeError(f'unsupported dtype {a.dtype}')
    out = []
    for isnan, s, m in zip(nan.tolist(), neg.tolist(), low):
        out.append('NaNb' if isnan else ('M ' if s else 'P ') + str(m))
    return out


def channels_of(var):
    """scipp variable over one dim -> list of channels (each a list of fb strings)"""
    v = var.values
    if var.dtype == sc.DType.vector3:
        v = np.asarray(v).reshape(-1, 3)
        return [fb_list(v[:, c]) for c in range(3)]
    return [fb_list(np.asarray(v).reshape(-1))]


def coq_list(items):
    return '[' + ';'.join(items) + ']'


def ints(a):
    return coq_list([str(int(x)) for x in a])


def bits_equal(a, b):
    """bit identity of two equally shaped arrays, NaN == NaN; returns (n_mismatch, max_ulp)"""
    a = np.ascontiguousarray(a)
    b = np.ascontiguousarray(b)
    if a.shape != b.shape or a.dtype != b.dtype:
        return -1, None
    if a.size == 0:
        return 0, 0
    if a.dtype.kind == 'f':
        it = np.uint64 if a.dtype == np.float64 else np.uint32
        ua, ub = a.view(it), b.view(it)
        both_nan = np.isnan(a) & np.isnan(b)
        diff = (ua != ub) & ~both_nan
        if not diff.any():
            return 0, 0
        sa = ua.astype(np.int64) if a.dtype == np.float32 else ua.view(np.int64)
        sb = ub.astype(np.int64) if a.dtype == np.float32 else ub.view(np.int64)
        with np.errstate(over='ignore'):
            ulp = np.abs(sa[diff] - sb[diff])
        return int(diff.sum()), int(ulp.max())
    diff = a != b
    return int(diff.sum()), None


# ---------------------------------------------------------------- input construction
def dims_of(case):
    g = case['grid']
    if g == '1d':
        return ['spectrum'], ['spectrum']
    if g == 'outer':
        return ['spectrum', 'tof'], ['spectrum']
    if g == 'inner':
        return ['tof', 'spectrum'], ['spectrum']
    if g == 'flat2d':
        return ['y', 'x'], ['y', 'x']
    raise ValueError(g)


def np_dtype(name):
    return {'float64': np.float64, 'float32': np.float32, 'int64': np.int64, 'int32': np.int32}[name]


INT_TOF = ('int64', 'int32')     # raw NeXus event_time_offset is stored as int32 or int64 ticks


def build_parent(case, prog):
    """-> (DataArray, info).  Everything numeric comes from the case seed."""
    rng = np.random.default_rng(case['seed'])
    dims, gdims = dims_of(case)
    shape = case['shape']
    nb = int(np.prod(shape)) if shape else 1
    sizes = case['sizes']
    order = case['order']
    gaps = case['gaps']
    begin = [0] * nb
    end = [0] * nb
    pos = 0
    for t, kbin in enumerate(order):
        pos += gaps[t]
        begin[kbin] = pos
        pos += sizes[kbin]
        end[kbin] = pos
    nbuf = pos + case['tail']
    unit = case['tof_unit']
    to_unit = 1.0 / TOF_SI[unit]
    # tof edges (seconds), shared by all spectra or per spectrum
    tof_axis = dims.index('tof') if 'tof' in dims else None
    n_tof = shape[tof_axis] if tof_axis is not None else 0
    lo, hi = 2e-4, 2e-2
    edges_s = None
    if tof_axis is not None:
        edges_s = np.sort(rng.uniform(lo, hi, n_tof + 1))
        edges_s[0] = lo
        edges_s[-1] = hi
    tof_s = rng.uniform(lo, hi, nbuf)
    if tof_axis is not None and n_tof > 0:
        # events of a tof bin lie inside its edges; a share sits exactly on the lower edge
        for kbin in range(nb):
            idx = np.unravel_index(kbin, shape)[tof_axis]
            n = sizes[kbin]
            v = rng.uniform(edges_s[idx], edges_s[idx + 1], n)
            on_edge = rng.random(n) < 0.1
            v[on_edge] = edges_s[idx]
            tof_s[begin[kbin]:end[kbin]] = v
    tof_vals = tof_s * to_unit
    tdt = np_dtype(case['tof_dtype'])
    if case['tof_dtype'] in INT_TOF:
        tof_vals = np.maximum(1, np.round(tof_vals))
    tof_var = sc.array(dims=['event'], values=tof_vals.astype(tdt), unit=unit, dtype=case['tof_dtype'])
    wdt = np_dtype(case['w_dtype'])
    w = rng.gamma(2.0, 1.0, nbuf).astype(wdt)
    kw = {}
    if case['variances']:
        kw['variances'] = rng.gamma(2.0, 0.5, nbuf).astype(wdt)
    data = sc.array(dims=['event'], values=w, unit='counts', dtype=case['w_dtype'], **kw)
    buf = sc.DataArray(data, coords={
        'tof': tof_var,
        'event_id': sc.array(dims=['event'], values=np.arange(nbuf, dtype=np.int64), unit=None),
        'pulse_time': sc.array(dims=['event'], values=np.round(rng.uniform(0, 1e-1, nbuf) * to_unit), unit=unit,
                               dtype='float64'),
    })
    if case.get('event_mask'):
        buf.masks['em'] = sc.array(dims=['event'], values=rng.random(nbuf) < 0.2)
    sz = dict(zip(dims, shape))
    bvar = sc.bins(
        data=buf, dim='event',
        begin=sc.array(dims=['i'], values=np.array(begin, dtype=np.int64), unit=None).fold('i', sizes=sz),
        end=sc.array(dims=['i'], values=np.array(end, dtype=np.int64), unit=None).fold('i', sizes=sz))
    gshape = [sz[d] for d in gdims]
    ncell = int(np.prod(gshape))
    coords = {}
    gdt = 'float32' if case.get('geom_f32') else 'float64'

    def garr(vals, unit_, dtype='float64'):
        return sc.array(dims=['c'], values=np.asarray(vals).astype(np_dtype(dtype)), unit=unit_,
                        dtype=dtype).fold('c', sizes=dict(zip(gdims, gshape)))
    if case['geometry'] == 'positions':
        p = rng.normal(size=(ncell, 3)) * [1.5, 1.5, 0.5] + [0.0, 0.0, 4.0]
        coords['position'] = sc.vectors(dims=['c'], values=p, unit='m').fold('c', sizes=dict(zip(gdims, gshape)))
        coords['source_position'] = sc.vector([0.0, 0.0, -float(rng.uniform(8, 30))], unit='m')
        coords['sample_position'] = sc.vector(rng.normal(size=3) * 0.01, unit='m')
    else:
        l1 = float(rng.uniform(8, 30))
        l2 = rng.uniform(1.0, 6.0, ncell)
        coords['L1'] = sc.scalar(l1, unit='m', dtype=gdt)
        coords['L2'] = garr(l2, 'm', gdt)
        coords['Ltotal'] = garr((l1 + l2) * (1000.0 if case.get('geom_mm') else 1.0),
                                'mm' if case.get('geom_mm') else 'm', gdt)
        coords['two_theta'] = garr(rng.uniform(0.05, 3.1, ncell), 'rad', gdt)
    # unrelated coordinates
    coords['detector_id'] = sc.array(dims=['c'], values=rng.permutation(ncell).astype(np.int64) + 100,
                                     unit=None).fold('c', sizes=dict(zip(gdims, gshape)))
    coords['temperature'] = sc.scalar(float(rng.uniform(1, 300)), unit='K')
    coords['run_title'] = sc.scalar('run %d' % case['id'])
    if tof_axis is not None and case.get('edges'):
        e = edges_s * to_unit
        if case['tof_dtype'] in INT_TOF and case.get('edges_int'):
            # integer bin edges have the event coordinate's integer dtype (what sc.bin / histogramming of raw ticks gives)
            ev = sc.array(dims=['tof'], values=np.round(e).astype(tdt), unit=unit, dtype=case['tof_dtype'])
        else:
            ev = sc.array(dims=['tof'], values=e, unit=unit)
        if case['edges'] == '2d':
            # different edges for every spectrum, stored as a 2-d coordinate in the data's dim order
            scale = 1.0 + 0.01 * np.arange(sz['spectrum'])
            e2 = np.asarray(ev.values, dtype=np.float64)[None, :] * scale[:, None]      # (spectrum, tof+1)
            if ev.dtype in (sc.DType.int64, sc.DType.int32):
                e2 = np.round(e2)
            ev = sc.array(dims=['spectrum', 'tof'], values=e2.astype(np.asarray(ev.values).dtype), unit=unit,
                          dtype=ev.dtype)
            if dims[0] == 'tof':
                ev = ev.transpose(['tof', 'spectrum']).copy()
        coords['tof'] = ev
    # program-specific operands
    prng = np.random.default_rng([case['seed'], zlib.crc32(prog['tag'].encode())])
    if prog.get('inel') == 'direct':
        if prng.random() < 0.5:
            coords['incident_energy'] = sc.scalar(float(prng.uniform(3, 120)), unit='meV', dtype=prog.get('e_dtype', 'float64'))
        else:
            coords['incident_energy'] = garr(prng.uniform(3, 120, ncell), 'meV', prog.get('e_dtype', 'float64'))
    elif prog.get('inel') == 'indirect':
        coords['final_energy'] = garr(prng.uniform(3, 120, ncell), 'meV', prog.get('e_dtype', 'float64'))
    if prog['target'] in ('hkl_vec', 'h', 'k', 'l'):
        m = np.eye(3) * prng.uniform(0.1, 0.4, 3) + prng.normal(size=(3, 3)) * 0.01
        coords['ub_matrix'] = sc.spatial.linear_transform(value=m, unit='1/angstrom')
        coords['sample_rotation'] = sc.spatial.rotations_from_rotvecs(
            sc.vector(prng.normal(size=3) * 0.3, unit='rad'))
    if prog['target'] == 'ub_matrix':
        coords['u_matrix'] = sc.spatial.linear_transform(value=np.eye(3) + prng.normal(size=(3, 3)) * 0.01)
        coords['b_matrix'] = sc.spatial.linear_transform(value=np.eye(3) * prng.uniform(0.1, 0.4, 3), unit='1/angstrom')
    da = sc.DataArray(bvar, coords=coords)
    if case.get('pixel_mask'):
        da.masks['pm'] = sc.array(dims=['c'], values=rng.random(ncell) < 0.3).fold('c', sizes=dict(zip(gdims, gshape)))
    if case.get('mask2d') and len(dims) == 2:
        da.masks['m2'] = sc.array(dims=['c'], values=rng.random(nb) < 0.3).fold('c', sizes=sz)
    return da, {'nbuf': nbuf, 'gdims': gdims}


def apply_view(da, view):
    if not view:
        return da
    kind = view[0]
    if kind == 'slice':
        _, dim, start, stop, step = view
        return da[dim, slice(start, stop, step)]
    if kind == 'index':
        _, dim, i = view
        return da[dim, i]
    if kind == 'transpose':
        return da.transpose(list(reversed(da.dims)))
    if kind == 'slice2':
        _, d0, a0, b0, d1, a1, b1 = view
        return da[d0, a0:b0][d1, a1:b1]
    raise ValueError(view)


# ---------------------------------------------------------------- dense reference
def gather(var, gdims, cell):
    """per-pixel variable -> per-row variable over dim 'event' (rows take pixel cell[r])"""
    if var.ndim == 0:
        return var
    flat = var.transpose(gdims).copy() if var.ndim > 1 else var
    if var.dtype == sc.DType.vector3:
        vals = np.asarray(flat.values).reshape(-1, 3)[cell]
        return sc.vectors(dims=['event'], values=vals.reshape(-1, 3), unit=var.unit)
    vals = np.asarray(flat.values).reshape(-1)[cell]
    return sc.array(dims=['event'], values=vals, unit=var.unit, dtype=var.dtype)


def dense_convert(origin_var, extra_event, geom, target, scatter, value_name, origin='tof'):
    """the dense formula: a 1-d table with the event's ORIGIN coordinate next to its pixel's geometry (and
    pulse_time), nothing else - in particular no coordinate left over from an earlier conversion"""
    n = origin_var.sizes['event']
    coords = dict(extra_event)
    coords[origin] = origin_var
    coords.update(geom)
    dense = sc.DataArray(sc.zeros(dims=['event'], shape=[n], unit='counts'), coords=coords)
    out = scn.convert(dense, origin, target, scatter=scatter)
    return out.coords[value_name]


def take(var, idx):
    v = np.asarray(var.values)[idx]
    return sc.array(dims=['event'], values=v, unit=var.unit, dtype=var.dtype)


# ---------------------------------------------------------------- one program
def coord_types(da):
    """(element dtype, unit) of every event coordinate ('event:<name>'), of the event data, and of every bin coordinate"""
    buf = da.bins.constituents['data']
    t = {'event:' + n: (str(buf.coords[n].dtype), str(buf.coords[n].unit)) for n in buf.coords}
    t['event-data'] = (str(buf.dtype), str(buf.unit))
    t.update({'coord:' + n: (str(da.coords[n].dtype), str(da.coords[n].unit)) for n in da.coords})
    return t


def layout_of(da, gdims_parent):
    c = da.bins.constituents
    nbuf = c['data'].sizes['event']
    begin = np.asarray(c['begin'].values).reshape(-1)
    end = np.asarray(c['end'].values).reshape(-1)
    nb = int(begin.size)
    dims = list(da.dims)
    shape = list(da.shape)
    gdims = [d for d in dims if d in gdims_parent]
    if len(gdims) == len(dims):
        grid, ncell = 'LG1', nb
    elif not gdims:
        grid, ncell = f'(LGO {nb})', 1
    elif gdims == [dims[0]]:
        grid, ncell = f'(LGO {shape[1]})', shape[0]
    else:
        grid, ncell = f'(LGI {shape[1]})', shape[1]
    # scipp's own assignment: broadcast the (1-based) flat bin number / cell number into the events
    def scatter_numbers(numvar):
        z = sc.bins(begin=c['begin'].copy(), end=c['end'].copy(), dim='event',
                    data=sc.zeros(dims=['event'], shape=[nbuf], dtype='int64', unit=None))
        z += numvar
        return np.asarray(z.bins.constituents['data'].values)
    binno = sc.arange('i', 1, nb + 1, unit=None).fold('i', sizes=dict(zip(dims, shape)))
    assign = scatter_numbers(binno) if nb else np.zeros(nbuf, dtype=np.int64)
    if gdims:
        cellno = sc.arange('i', 1, ncell + 1, unit=None).fold('i', sizes={d: da.sizes[d] for d in gdims})
    else:
        cellno = sc.scalar(1, unit=None)
    cell = scatter_numbers(cellno) if nb else np.zeros(nbuf, dtype=np.int64)
    return {'nbuf': nbuf, 'begin': begin, 'end': end, 'nb': nb, 'dims': dims, 'shape': shape, 'gdims': gdims,
            'grid': grid, 'ncell': ncell, 'assign': assign, 'cell': cell, 'cellno': cellno}


def add_precomputed(parent, gdims_parent, target, scatter):
    """events "loaded with a precomputed target coordinate": the dense kernel's value of every event that lies in
    a bin (NaN elsewhere) is stored in the parent's event buffer under the target's name"""
    lay = layout_of(parent, gdims_parent)
    c = parent.bins.constituents
    buf = c['data']
    nbuf = lay['nbuf']
    J = np.nonzero(lay['assign'])[0]
    cell = lay['cell'][J] - 1
    geom = {n: gather(parent.coords[n], lay['gdims'], cell) for n in GEOM_NAMES if n in parent.coords}
    extra = {'pulse_time': take(buf.coords['pulse_time'], J)}
    dval = dense_convert(take(buf.coords['tof'], J), extra, geom, target, scatter, target)
    if dval.dtype == sc.DType.vector3:
        vals = np.full((nbuf, 3), np.nan)
        vals[J] = np.asarray(dval.values).reshape(-1, 3)
        var = sc.vectors(dims=['event'], values=vals, unit=dval.unit)
    else:
        vals = np.full(nbuf, np.nan, dtype=np.asarray(dval.values).dtype)
        vals[J] = np.asarray(dval.values)
        var = sc.array(dims=['event'], values=vals, unit=dval.unit, dtype=dval.dtype)
    parent.bins.coords[target] = sc.bins(begin=c['begin'], end=c['end'], dim='event', data=var)


def run_program(case, prog, emit):
    out = {'tag': prog['tag']}
    hist = prog.get('hist') or None
    target, scatter = prog['target'], prog['scatter']
    origin = hist.get('origin', 'tof') if hist else 'tof'
    if hist and hist.get('precomputed'):
        # event files with a precomputed coordinate carry no histogram edges of the raw coordinate
        case = dict(case, edges=None)
    parent, info = build_parent(case, prog)
    if hist and hist.get('precomputed'):
        add_precomputed(parent, info['gdims'], target, scatter)
    parent_snap = parent.copy(deep=True)
    da = apply_view(parent, case.get('view'))
    inp = da
    if case.get('dataset'):
        inp = sc.Dataset({'events': da})
        # what the Dataset item exposes IS the input (a coordinate whose dim is not a dim of the item, e.g. the
        # 2-element tof edges left over from integer indexing, is not part of it)
        da = inp['events']
    # ---- the call history: earlier conversions whose result is the input of the observed one (or is discarded)
    if hist:
        for step_no, (o1, t1) in enumerate(hist.get('pre', [])):
            before = inp.copy(deep=True)
            try:
                step = scn.convert(inp, o1, t1, scatter=scatter)
            except Exception as ex:
                out['error'] = f'{type(ex).__name__}: {str(ex)[:300]}'
                out['error_in'] = f'history step {step_no}: convert({o1} -> {t1})'
                out['layout'] = layout_of(da, info['gdims'])
                return out
            if not sc.identical(inp, before, equal_nan=True):
                out.setdefault('pre_flags', []).append(f'input-modified-by-history-step-{step_no}')
            if not hist.get('discard'):
                inp = step
        da = inp['events'] if case.get('dataset') else inp
    snap = da.copy(deep=True)
    snap_event_names = (sorted(da.bins.coords), sorted(da.bins.masks), sorted(da.coords), sorted(da.masks))
    snap_types = coord_types(da)
    lay = layout_of(da, info['gdims'])
    value_name = origin if target in GEO_ONLY else target
    # the one dim of the input that is not a pixel dim: the tof dim of the fresh object, whatever it is called now
    tdims = [d for d in da.dims if d not in info['gdims']]
    try:
        res = scn.convert(inp, origin, target, scatter=scatter)
    except Exception as ex:  # the conversion must work for every layout
        out['error'] = f'{type(ex).__name__}: {str(ex)[:300]}'
        out['layout'] = lay
        # a call that raises must still leave its input alone
        try:
            if not sc.identical(da, snap, equal_nan=True) or not sc.identical(parent, parent_snap, equal_nan=True) \
                    or coord_types(da) != snap_types:
                out['error_input_modified'] = True
        except Exception:
            out['error_input_modified'] = True
        return out
    r = res['events'] if case.get('dataset') else res
    flags = list(out.pop('pre_flags', []))
    # ---- input untouched (deep snapshot; the SET of event / bin coordinates and masks is part of it)
    now_names = (sorted(da.bins.coords), sorted(da.bins.masks), sorted(da.coords), sorted(da.masks))
    if now_names != snap_event_names:
        flags.append('input-coordinate-set-modified')
    if not sc.identical(da, snap, equal_nan=True) or not sc.identical(parent, parent_snap, equal_nan=True):
        flags.append('input-modified')
    # the element dtype / unit of every event and bin coordinate of the input, by name (says WHAT was modified)
    now_types = coord_types(da)
    for name in sorted(snap_types):
        if name in now_types and now_types[name] != snap_types[name]:
            flags.append(f'input-{name}-dtype-unit-modified')
    # ---- dims: only the tof dim (under its current name) may be renamed
    ren = {}
    if len(r.dims) != len(da.dims):
        flags.append('dims')
    else:
        for din, dout in zip(da.dims, r.dims):
            if din != dout:
                ren[dout] = din
        if any(v not in tdims for v in ren.values()):
            flags.append('dims')
    rr = r.rename_dims(ren) if ren and 'dims' not in flags else r
    buf_in = da.bins.constituents['data']
    oc = r.bins.constituents
    obuf = oc['data']
    # ---- preservation clauses, evaluated with sc.identical on the public views
    if 'dims' not in flags:
        if not sc.identical(rr.bins.data, da.bins.data, equal_nan=True):
            flags.append('bins-data')
        for name in da.bins.coords:
            if name not in rr.bins.coords or not sc.identical(rr.bins.coords[name], da.bins.coords[name], equal_nan=True):
                flags.append('event-coord-' + name)
        for name in da.bins.masks:
            if name not in rr.bins.masks or not sc.identical(rr.bins.masks[name], da.bins.masks[name]):
                flags.append('event-mask-' + name)
        if set(rr.masks) != set(da.masks):
            flags.append('mask-set')
        for name in da.masks:
            if name in rr.masks and not sc.identical(rr.masks[name], da.masks[name]):
                flags.append('mask-' + name)
        for name in da.coords:
            if name == origin:
                continue
            if name not in rr.coords or not sc.identical(rr.coords[name], da.coords[name], equal_nan=True):
                flags.append('coord-' + name)
        if origin in da.coords and origin in rr.coords and not sc.identical(rr.coords[origin], da.coords[origin]):
            flags.append('coord-tof-edges')
    if value_name not in r.bins.coords:
        flags.append('no-event-coordinate')
        out['flags'] = flags
        out['layout'] = lay
        return out
    # ---- elem_unit / elem_dtype select the buffer's unit / dtype
    tofc = da.bins.coords[origin]
    if elem_unit(tofc) != buf_in.coords[origin].unit or elem_dtype(tofc) != buf_in.coords[origin].dtype \
            or elem_unit(da.data) != buf_in.unit or elem_dtype(da.data) != buf_in.dtype \
            or elem_unit(buf_in.coords[origin]) != buf_in.coords[origin].unit:
        flags.append('elem-unit-dtype')
    # ---- dense reference on the events that lie in a bin
    J = np.nonzero(lay['assign'])[0]
    cell = lay['cell'][J] - 1
    geom = {n: gather(da.coords[n], lay['gdims'], cell) for n in GEOM_NAMES if n in da.coords}
    extra = {'pulse_time': take(buf_in.coords['pulse_time'], J)}
    oval = obuf.coords[value_name]
    dval = None
    try:
        dval = dense_convert(take(buf_in.coords[origin], J), extra, geom, target, scatter, value_name, origin)
    except Exception as ex:
        flags.append('dense-raises-' + type(ex).__name__)
    nch = 3 if oval.dtype == sc.DType.vector3 else 1
    dense_ch = [['NoV'] * lay['nbuf'] for _ in range(nch)]
    py = {'mismatch': 0, 'max_ulp': 0}
    if dval is not None:
        if dval.dtype != oval.dtype:
            flags.append('dtype')
        if dval.unit != oval.unit:
            flags.append('unit')
        chs = channels_of(dval)
        if len(chs) == nch:
            for cidx in range(nch):
                col = dense_ch[cidx]
                for t, j in enumerate(J.tolist()):
                    col[j] = chs[cidx][t]
        # harness-side verdict (used by search/replay; the run's verdict is Coq's): the same comparison by bins
        ob = np.asarray(oc['begin'].values).reshape(-1)
        oe = np.asarray(oc['end'].values).reshape(-1)
        ov_np = np.asarray(oval.values)
        dv_np = np.asarray(dval.values)
        posJ = {int(j): t for t, j in enumerate(J.tolist())}
        if ob.size == lay['nb'] and dval.dtype == oval.dtype:
            sel_o, sel_d = [], []
            for i in range(lay['nb']):
                n_i = int(lay['end'][i] - lay['begin'][i])
                if int(oe[i] - ob[i]) != n_i:
                    py['mismatch'] += 1
                    continue
                sel_o.extend(range(int(ob[i]), int(oe[i])))
                sel_d.extend(posJ.get(j, 0) for j in range(int(lay['begin'][i]), int(lay['end'][i])))
            nm, mu = bits_equal(ov_np[sel_o], dv_np[sel_d])
            py['mismatch'] += nm if nm >= 0 else 1
            py['max_ulp'] = mu or 0
        else:
            py['mismatch'] += 1
    out['py'] = py
    # ---- the result's bins
    ob = np.asarray(oc['begin'].values)
    oe = np.asarray(oc['end'].values)
    if 'dims' not in flags and list(rr.dims) != lay['dims']:
        perm = [list(rr.dims).index(d) for d in lay['dims']]
        ob, oe = ob.transpose(perm), oe.transpose(perm)
    ob, oe = ob.reshape(-1), oe.reshape(-1)
    contiguous = (not case.get('view')) and lay['nb'] > 0 and lay['begin'][0] == 0 and \
        bool(np.all(lay['end'][:-1] == lay['begin'][1:])) and lay['end'][-1] == lay['nbuf'] and \
        bool(np.all(lay['begin'] <= lay['end']))
    out['contiguous'] = bool(contiguous)
    out['indices_identical'] = bool(ob.shape == lay['begin'].shape and np.array_equal(ob, lay['begin'])
                                    and np.array_equal(oe, lay['end']))
    if contiguous and not out['indices_identical']:
        flags.append('bin-indices')
    # ---- bin edges: converted with the same function
    edge = None
    if origin in da.coords and target not in GEO_ONLY and target not in EVENT_ONLY:
        if value_name not in r.coords:
            flags.append('no-edge-coordinate')
        else:
            eout = r.coords[value_name].rename_dims(ren) if ren else r.coords[value_name]
            # data dims first; a leftover 'tof' dim (integer indexing of the tof dim keeps a 2-element edge
            # coordinate whose dim is no longer a dim of the data) goes last
            eorder = [d for d in lay['dims'] if d in eout.dims] + [d for d in eout.dims if d not in lay['dims']]
            if len(eorder) > 2:
                flags.append('edge-dims')
            else:
                eout = eout.transpose(eorder).copy()
                esz = dict(eout.sizes)
                ein = da.coords[origin]
                ein_b = ein.broadcast(sizes=esz).copy() if set(ein.dims) != set(eorder) else ein.transpose(eorder).copy()
                zero = sc.zeros(sizes=esz, dtype='int64', unit=None)
                ecell = np.asarray((zero + lay['cellno']).values).reshape(-1)
                eg = [d for d in eorder if d in lay['gdims']]
                if len(eorder) == 1:
                    egrid = f'(LGO {esz[eorder[0]]})' if not eg else 'LG1'
                elif eg == [eorder[0]]:
                    egrid = f'(LGO {esz[eorder[1]]})'
                elif eg == [eorder[1]]:
                    egrid = f'(LGI {esz[eorder[1]]})'
                else:
                    egrid = 'LG1'
                ne = int(ecell.size)
                flat_in = sc.array(dims=['event'], values=np.asarray(ein_b.values).reshape(-1), unit=ein.unit, dtype=ein.dtype)
                egeom = {n: gather(da.coords[n], lay['gdims'], ecell - 1) for n in GEOM_NAMES if n in da.coords}
                eextra = {'pulse_time': sc.array(dims=['event'], values=np.zeros(ne), unit=ein.unit)}
                edense = None
                try:
                    edense = dense_convert(flat_in, eextra if target == 'time_at_sample' else {}, egeom, target, scatter,
                                           value_name, origin)
                except Exception as ex:
                    flags.append('edge-dense-raises-' + type(ex).__name__)
                if edense is not None:
                    if edense.dtype != eout.dtype or edense.unit != eout.unit:
                        flags.append('edge-dtype-unit')
                    flat_out = eout.flatten(to='event') if eout.ndim > 1 else eout.rename_dims({eout.dims[0]: 'event'})
                    nm, mu = bits_equal(np.asarray(flat_out.values), np.asarray(edense.values))
                    py['edge_mismatch'] = nm
                    py['edge_max_ulp'] = mu
                    edge = {'egrid': egrid, 'ecell': ints(ecell),
                            'eout': coq_list([coq_list(ch) for ch in channels_of(flat_out)]),
                            'edense': coq_list([coq_list(ch) for ch in channels_of(edense)]), 'n': ne}
    elif origin in da.coords and target in GEO_ONLY:
        pass  # the unchanged edge coordinate is covered by the flag coord-tof-edges above
    out['flags'] = flags
    out['n_in_bins'] = int(J.size)
    out['layout'] = lay
    out['history'] = hist['kind'] if hist else None
    out['target_preexists'] = bool(value_name != origin and value_name in buf_in.coords)
    if emit == 'coq':
        wv = obuf.variances
        # the result's event ids as indices into the INPUT's buffer (the ids are the fresh parent's buffer indices;
        # the input of a later call of a history may be scipp's compacted copy of a slice)
        oid = '[]'
        if 'event_id' in obuf.coords and 'event_id' in buf_in.coords:
            ids_in = np.asarray(buf_in.coords['event_id'].values)
            if np.array_equal(ids_in, np.arange(ids_in.size)):
                oid = ints(np.asarray(obuf.coords['event_id'].values))
            else:
                where = {int(v): t for t, v in enumerate(ids_in.tolist())}
                oid = ints([where.get(int(v), ids_in.size + 1) for v in np.asarray(obuf.coords['event_id'].values).tolist()])
        # an event coordinate named like the target that the input ALREADY carries (per input buffer index)
        prev = '[]'
        if out['target_preexists'] and buf_in.coords[value_name].dtype == oval.dtype:
            prev = coq_list([coq_list(ch) for ch in channels_of(buf_in.coords[value_name])])
        if hist:
            out['own_layout'] = layout_coq(lay, buf_in)
        out['coq'] = {
            'dense': coq_list([coq_list(ch) for ch in dense_ch]),
            'obegin': ints(ob), 'oend': ints(oe),
            'oid': oid, 'prev': prev,
            'oval': coq_list([coq_list(ch) for ch in channels_of(oval)]),
            'ow': coq_list(fb_list(np.asarray(obuf.values))),
            'ov': coq_list(fb_list(np.asarray(wv)) if wv is not None else ['NoV'] * obuf.sizes['event']),
            'edge': edge,
        }
    out['result'] = {'dims': list(r.dims), 'event_dtype': str(oval.dtype), 'event_unit': str(oval.unit),
                     'out_events': int(obuf.sizes['event'])}
    return out


def layout_coq(lay, da_buf):
    wv = da_buf.variances
    return {
        'nbuf': lay['nbuf'], 'begin': ints(lay['begin']), 'end': ints(lay['end']), 'grid': lay['grid'],
        'ncell': lay['ncell'], 'assign': ints(lay['assign']), 'cell': ints(lay['cell']),
        'w': coq_list(fb_list(np.asarray(da_buf.values))),
        'v': coq_list(fb_list(np.asarray(wv)) if wv is not None else ['NoV'] * lay['nbuf']),
    }


def graph_keys():
    def flat(g):
        ks = []
        for k in g:
            ks.extend([k] if isinstance(k, str) else list(k))
        return sorted(ks)
    return {
        'elastic/S': flat(conversion_graph('tof', 'wavelength', True, 'elastic')),
        'elastic/N': flat(conversion_graph('tof', 'wavelength', False, 'elastic')),
        'direct/S': flat(conversion_graph('tof', 'energy_transfer', True, 'direct_inelastic')),
        'indirect/S': flat(conversion_graph('tof', 'energy_transfer', True, 'indirect_inelastic')),
    }


def main():
    req = json.load(sys.stdin)
    emit = req.get('emit', 'coq')
    # earlier callers wrecked every graph the package handed them (see _poison.py); no effect unless state is shared
    import _poison
    _poison.poison_graph_factories()
    results = []
    for case in req['cases']:
        cres = {'id': case['id'], 'programs': []}
        for prog in case['programs']:
            try:
                pr = run_program(case, prog, emit)
            except Exception as ex:  # a harness defect is reported as such, never judged
                import traceback
                pr = {'tag': prog['tag'], 'harness_error': f'{type(ex).__name__}: {ex}',
                      'trace': traceback.format_exc()[-1500:]}
            lay = pr.pop('layout', None)
            if lay is not None and 'summary_any' not in cres:
                cres['summary_any'] = {'dims': lay['dims'], 'shape': lay['shape'], 'nbuf': lay['nbuf'],
                                       'bin_sizes': (lay['end'] - lay['begin']).tolist(), 'grid': lay['grid'],
                                       'begin': lay['begin'].tolist()}
            if lay is not None and 'layout' not in cres and not prog.get('hist'):
                da, _ = build_parent(case, prog)
                da = apply_view(da, case.get('view'))
                cres['layout'] = layout_coq(lay, da.bins.constituents['data']) if emit == 'coq' else {}
                cres['summary'] = {'dims': lay['dims'], 'shape': lay['shape'], 'nbuf': lay['nbuf'],
                                   'bin_sizes': (lay['end'] - lay['begin']).tolist(), 'grid': lay['grid'],
                                   'begin': lay['begin'].tolist()}
            cres['programs'].append(pr)
        sa = cres.pop('summary_any', None)
        if 'summary' not in cres and sa is not None:
            cres['summary'] = sa
        results.append(cres)
    print('RESULT ' + json.dumps({'cases': results, 'graph_keys': graph_keys(), 'scipp': sc.__version__}))


if __name__ == '__main__':
    main()
