#!/venv/bin/python
"""C03: the coordinate-transformation graphs that the CURRENT conversion/graph/beamline.py returns, as data.

Every graph constructor is called twice — once in the listed order and once more, in reverse order, after all the
others have been called (a graph must not depend on what was asked for before) — and each returned dictionary is
reported as  node -> (module, function name, parameter names, is it the very object of that name in its module).
props/C03.py (pre_build) turns this into Run.GenGraph; coq-run/C03/Tie.v proves on it that resolving a node equals
the composition of the regenerated kernels.
stdout: 'RESULT <json>'.
"""
import importlib
import inspect
import json
import sys

CONSTRUCTORS = [
    ('incident_beam', 'incident_beam', {}),
    ('scattered_beam', 'scattered_beam', {}),
    ('two_theta', 'two_theta', {}),
    ('L1', 'L1', {}),
    ('L2', 'L2', {}),
    ('Ltotal_scatter', 'Ltotal', {'scatter': True}),
    ('Ltotal_no_scatter', 'Ltotal', {'scatter': False}),
    ('beamline_scatter', 'beamline', {'scatter': True}),
    ('beamline_no_scatter', 'beamline', {'scatter': False}),
]


def describe(g):
    out = []
    for node, fn in g.items():
        mod = getattr(fn, '__module__', None)
        name = getattr(fn, '__name__', None)
        try:
            params = [p.name for p in inspect.signature(fn).parameters.values()]
            kinds = [str(p.kind) for p in inspect.signature(fn).parameters.values()]
        except Exception:
            params, kinds = None, None
        same = False
        try:
            same = getattr(importlib.import_module(mod), name) is fn
        except Exception:
            pass
        out.append({'node': node, 'module': mod, 'function': name, 'params': params, 'kinds': kinds, 'same_object': same})
    return out


def main():
    json.load(sys.stdin)
    G = importlib.import_module('scippneutron.conversion.graph.beamline')
    first, second = {}, {}
    for cname, fname, kw in CONSTRUCTORS:
        try:
            first[cname] = describe(getattr(G, fname)(**kw))
        except Exception as ex:
            first[cname] = {'error': f'{type(ex).__name__}: {ex}'}
    for cname, fname, kw in reversed(CONSTRUCTORS):
        try:
            second[cname] = describe(getattr(G, fname)(**kw))
        except Exception as ex:
            second[cname] = {'error': f'{type(ex).__name__}: {ex}'}
    print('RESULT ' + json.dumps({'first': first, 'second': second}))


if __name__ == '__main__':
    main()
