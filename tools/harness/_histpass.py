"""_histpass.py — two cheap history checks every kernel harness runs on each case, after the ordinary evaluation:

 repeat   the same call again ON THE SAME OBJECTS must return the same result.  (A kernel that writes into an
          argument whose internal conversion was a no-op returns something else the second time, or raises.)
 update   the caller then changes its operands IN PLACE (values scaled by 0.75; same objects, same unit/dtype/shape)
          and calls again; the result must equal the result of the same call on FRESH copies of the updated operands.
          (A memo keyed on object identity, unit and shape but not on the values answers with the stale result.)

Both compare the implementation with itself on inputs that are equal as values, so they cannot raise an alarm on an
implementation whose results are functions of the argument values."""
import json


def _desc(call, describe):
    try:
        return {'result': describe(call())}
    except Exception as ex:        # noqa: BLE001 - the error class is the observation
        return {'error': type(ex).__name__}


def _same(a, b):
    return json.dumps(a, sort_keys=True, default=str) == json.dumps(b, sort_keys=True, default=str)


def checks(call_with, env, describe, first, name, sc):
    """call_with(env) performs the call with the operand objects in env (dict name -> scipp Variable / anything);
    first = {'result': ...} | {'error': ...} as observed by the ordinary evaluation.  Returns a list of
    harness_violations entries."""
    out = []
    second = _desc(lambda: call_with(env), describe)
    if not _same(first, second):
        out.append({'key': 'repeat-call-differs:' + name,
                    'what': f'{name}: the same call on the same operand objects returns something else the second time '
                            f'(an argument was modified by the first call, or state is kept between calls)',
                    'replay': {'first': first, 'second': second}})
        return out          # the operands may be corrupted; the update pass would only repeat the finding
    changed = False
    for k, v in env.items():
        try:
            if isinstance(v, sc.Variable) and v.dtype in (sc.DType.float64, sc.DType.float32, sc.DType.vector3) \
                    and v.bins is None:
                v.values = v.values * 0.75
                changed = True
        except Exception:          # read-only operand: leave it
            pass
    if not changed:
        return out
    third = _desc(lambda: call_with(env), describe)
    fresh = {k: (v.copy() if hasattr(v, 'copy') else v) for k, v in env.items()}
    fourth = _desc(lambda: call_with(fresh), describe)
    if not _same(third, fourth):
        out.append({'key': 'stale-after-inplace-update:' + name,
                    'what': f'{name}: after the caller updated its operands in place (same objects, new values) the call returns '
                            f'something else than the same call on fresh copies of those operands (state keyed on object '
                            f'identity is kept between calls)',
                    'replay': {'on_same_objects': third, 'on_fresh_copies': fourth}})
    return out
