"""_covwrap.py <harness script> — run a harness script and record which source lines of the package under
test it executed (sys.monitoring, Python >= 3.12; each location reports once and is then disabled, so the
overhead is negligible).  Output: JSON {relative file: [lines]} in $VERIF_COV_OUT; files under $VERIF_COV_ROOT
only.  Used by lib/vlib.py (Ctx.run_impl) to CHECK that the correspondence run exercises the statements of
the code it is meant to validate (see lib/covtie.py)."""
import json
import os
import runpy
import sys

root = os.path.realpath(os.environ['VERIF_COV_ROOT']) + os.sep
out = os.environ['VERIF_COV_OUT']
hits = {}

mon = getattr(sys, 'monitoring', None)
if mon is not None:
    TOOL = mon.COVERAGE_ID
    try:
        mon.use_tool_id(TOOL, 'verifcov')

        def on_line(code, line):
            fn = code.co_filename
            if fn.startswith(root):
                hits.setdefault(fn[len(root):], set()).add(line)
            return mon.DISABLE

        mon.register_callback(TOOL, mon.events.LINE, on_line)
        mon.set_events(TOOL, mon.events.LINE)
    except Exception:       # tool id taken: run without coverage (the tie then reports "no coverage data")
        mon = None


def dump():
    try:
        json.dump({'ok': mon is not None, 'hits': {k: sorted(v) for k, v in hits.items()}}, open(out, 'w'))
    except Exception:
        pass


script = sys.argv[1]
sys.argv = sys.argv[1:]
sys.path.insert(0, os.path.dirname(os.path.abspath(script)))
try:
    runpy.run_path(script, run_name='__main__')
finally:
    dump()
