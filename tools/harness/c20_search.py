#!/venv/bin/python
"""C20 search: evaluate the PROPERTY STATEMENT itself on the real implementation (no Coq model).

Called when a proof obligation broke.  Checks, directly in Python against the files the installed
package reads:
  1. every row of the three tables: the lookup by the row's name returns value == float(field),
     variance == float(std)**2, the column's unit, None where blank; Atom: z == int(Z field) and
     == position of the element symbol in the periodic table, mass only for isotope rows, weight
     only where the element row has one;
  2. near misses of every name that are not themselves first-column names must be rejected;
  3. the attenuation coefficient equals n*(sigma_s + sigma_a*lambda/1.7982 angstrom) in 1/length;
  4. the tables equal the pinned snapshot (tools/corpus/C20) line by line — for each differing
     line: the row, and what the implementation now returns for its name.
stdin : {"snapshot": dir, "seed": int}
stdout: 'RESULT {"failures": [{"key", "what", "replay"}], "checked": {...}}'   (at most a few per class)
"""
import json
import math
import os
import random
import sys

sys.path.insert(0, os.path.dirname(os.path.abspath(__file__)))
import scipp as sc  # noqa: E402
from kernels_impl import unit_info  # noqa: E402

import scippneutron.atoms as atoms  # noqa: E402
from scippneutron.absorption.material import Material  # noqa: E402
from scippneutron.atoms import Atom, ScatteringParams  # noqa: E402

FIELDS = ['coherent_scattering_length_re', 'coherent_scattering_length_im',
          'incoherent_scattering_length_re', 'incoherent_scattering_length_im',
          'coherent_scattering_cross_section', 'incoherent_scattering_cross_section',
          'total_scattering_cross_section', 'absorption_cross_section']
UNITS = ['fm'] * 4 + ['barn'] * 4
TABLES = [('scat', 'scattering_parameters.csv', 0), ('weight', 'atomic_weights.csv', 2),
          ('mass', 'atomic_masses.csv', 2)]
PERIODIC = ("H He Li Be B C N O F Ne Na Mg Al Si P S Cl Ar K Ca Sc Ti V Cr Mn Fe Co Ni Cu Zn Ga Ge As Se Br Kr "
            "Rb Sr Y Zr Nb Mo Tc Ru Rh Pd Ag Cd In Sn Sb Te I Xe Cs Ba La Ce Pr Nd Pm Sm Eu Gd Tb Dy Ho Er Tm Yb Lu "
            "Hf Ta W Re Os Ir Pt Au Hg Tl Pb Bi Po At Rn Fr Ra Ac Th Pa U Np Pu Am Cm Bk Cf Es Fm Md No Lr "
            "Rf Db Sg Bh Hs Mt Ds Rg Cn Nh Fl Mc Lv Ts Og").split()

failures = []
per_class = {}


def fail(key, what, replay, cap=2):
    per_class[key] = per_class.get(key, 0) + 1
    if per_class[key] <= cap:
        failures.append({'key': key, 'what': what, 'replay': replay})


def read_lines(d, fn):
    with open(os.path.join(d, fn), encoding='utf-8', errors='replace') as f:
        lines = f.read().split('\n')
    if lines and lines[-1] == '':
        lines = lines[:-1]
    return lines


def show(v):
    if v is None:
        return None
    if isinstance(v, sc.Variable):
        return {'value': float(v.value) if v.ndim == 0 else 'array',
                'variance': (float(v.variance) if v.variance is not None else None) if v.ndim == 0 else 'array',
                'unit': str(v.unit), 'dtype': str(v.dtype)}
    return repr(v)


def qty_ok(v, value, std, unit):
    """property statement for one (value, uncertainty) pair of fields"""
    if value == '':
        return v is None, 'nothing (blank field)'
    want = f'{value} +- {std or "(no uncertainty)"} {unit}'
    if not isinstance(v, sc.Variable) or v.ndim != 0:
        return False, want
    try:
        x = float(value)
        var = float(std) ** 2 if std else None
    except ValueError:
        return False, want + ' (field is not a number)'
    ok = (v.value == x and ((v.variance is None) if var is None else
                            (v.variance is not None and math.isclose(v.variance, var, rel_tol=1e-15, abs_tol=0.0)))
          and v.unit == sc.Unit(unit) and v.dtype == sc.DType.float64)
    return ok, want


def element_symbol(name):
    s = name.lstrip('0123456789')
    return s


def check_rows(tabs):
    checked = 0
    wrows = {}
    for r in tabs['weight']:
        wrows.setdefault(r[0], r)
    for r in tabs['scat']:
        name = r[0]
        checked += 1
        try:
            p = ScatteringParams.for_isotope(name)
        except Exception as ex:
            fail('scat:exact:raises', f'ScatteringParams.for_isotope({name!r}) raises {type(ex).__name__}: {ex} for a name of '
                 f'the scattering table (row {r})', {'api': 'scat', 'name': name, 'row': r,
                                                     'required': 'the fields of that row'})
            continue
        if p.isotope != name:
            fail('scat:exact:isotope-attribute', f'ScatteringParams.for_isotope({name!r}).isotope == {p.isotope!r}',
                 {'api': 'scat', 'name': name})
        cells = r[1:] + [''] * 16
        for i, f in enumerate(FIELDS):
            ok, want = qty_ok(getattr(p, f), cells[2 * i], cells[2 * i + 1], UNITS[i])
            if not ok:
                fail('scat:exact:field', f'ScatteringParams.for_isotope({name!r}).{f} is {show(getattr(p, f))} but the '
                     f'table row says {want}', {'api': 'scat', 'name': name, 'field': f, 'row': r,
                                                'impl': show(getattr(p, f)), 'required': want})
                break
    for t in ('weight', 'mass'):
        for r in tabs[t]:
            name = r[0]
            checked += 1
            el = element_symbol(name)
            er = wrows.get(el)
            try:
                a = Atom.for_isotope(name)
            except Exception as ex:
                fail(f'atom:exact:raises', f'Atom.for_isotope({name!r}) raises {type(ex).__name__}: {ex} for a name of the '
                     f'{t} table (row {r}; element row {er})', {'api': 'atom', 'name': name, 'row': r, 'element_row': er,
                                                                 'required': 'z and weight of the element row, mass of the isotope row'})
                continue
            if er is None or len(er) != 4 or len(r) != (4 if t == 'weight' else 3):
                fail('atom:exact:malformed-row', f'row {r} / element row {er} of the {t} table is malformed but '
                     f'Atom.for_isotope({name!r}) answered', {'api': 'atom', 'name': name, 'row': r})
                continue
            try:
                z = int(er[1])
            except ValueError:
                z = None
            z_pt = PERIODIC.index(el) + 1 if el in PERIODIC else None
            if a.isotope != name or a.z != z or z != z_pt:
                fail('atom:exact:z', f'Atom.for_isotope({name!r}) has isotope={a.isotope!r}, z={a.z!r}; the table says Z={er[1]!r} '
                     f'and {el!r} is element number {z_pt} of the periodic table',
                     {'api': 'atom', 'name': name, 'row': r, 'element_row': er, 'impl_z': a.z, 'required': f'z == {z_pt}'})
            try:
                w = a.atomic_weight
            except ValueError:
                w = None
            try:
                m = a.atomic_mass
            except ValueError:
                m = None
            ok, want = qty_ok(w, er[2], er[3], 'Da')
            if not ok:
                fail('atom:exact:weight', f'Atom.for_isotope({name!r}).atomic_weight is {show(w)} but the element row says {want}',
                     {'api': 'atom', 'name': name, 'element_row': er, 'impl': show(w), 'required': want})
            if t == 'weight':
                ok, want = (m is None), 'no mass for a bare element name'
            else:
                ok, want = qty_ok(m, r[1], r[2], 'Da')
                ok = ok and m is not None
            if not ok:
                fail('atom:exact:mass', f'Atom.for_isotope({name!r}).atomic_mass is {show(m)} but required: {want}',
                     {'api': 'atom', 'name': name, 'row': r, 'impl': show(m), 'required': want})
    return checked


def near(n):
    v = []
    if len(n) > 1:
        v += [n[:-1], n[1:]]
    v += [n + 'x', n + n[-1:], n + '0', n.swapcase(), n.lower(), n.upper(), ' ' + n, n + ' ', n + '\n', '\t' + n,
          '0' + n, n + ',', n + ',1.0']
    return v


def check_near(tabs):
    first = {t: {r[0] for r in tabs[t]} for t in tabs}
    seen = set()
    checked = 0
    for t in tabs:
        for r in tabs[t]:
            for v in near(r[0]):
                if v in seen:
                    continue
                seen.add(v)
                checked += 1
                if v not in first['scat']:
                    try:
                        p = ScatteringParams.for_isotope(v)
                        fail('scat:near-miss:accepted', f'ScatteringParams.for_isotope({v!r}) (near miss of {r[0]!r}, not a first-'
                             f'column name) answered with {p}', {'api': 'scat', 'name': v, 'derived_from': r[0],
                                                                 'required': 'an exception'})
                    except Exception:
                        pass
                if v not in first['weight'] and v not in first['mass']:
                    try:
                        a = Atom.for_isotope(v)
                        fail('atom:near-miss:accepted', f'Atom.for_isotope({v!r}) (near miss of {r[0]!r}, in neither table) '
                             f'answered with {a}', {'api': 'atom', 'name': v, 'derived_from': r[0], 'required': 'an exception'})
                    except Exception:
                        pass
    return checked


def si(var):
    u = unit_info(var.unit)
    return float(var.value) * int(u['mult'][0]) / int(u['mult'][1]), u['dims']


def check_attenuation(rng):
    n_units = ['1/angstrom^3', '1/m^3', '1/cm^3', '1/nm^3']
    a_units = ['barn', 'fm^2', 'm^2', 'angstrom^2', 'cm^2']
    l_units = ['angstrom', 'nm', 'm', 'mm', 'cm']
    checked = 0
    for _ in range(300):
        n = sc.scalar(math.exp(rng.uniform(-3, 3)), unit=rng.choice(n_units))
        ss = sc.scalar(math.exp(rng.uniform(-3, 3)), unit=rng.choice(a_units))
        sa = sc.scalar(math.exp(rng.uniform(-3, 3)), unit=rng.choice(a_units))
        wl = sc.scalar(math.exp(rng.uniform(-3, 3)), unit=rng.choice(l_units))
        p = ScatteringParams(isotope='X', total_scattering_cross_section=ss, absorption_cross_section=sa)
        desc = {'n': str(n.value) + ' ' + str(n.unit), 'sigma_s': str(ss.value) + ' ' + str(ss.unit),
                'sigma_a': str(sa.value) + ' ' + str(sa.unit), 'wavelength': str(wl.value) + ' ' + str(wl.unit)}
        checked += 1
        try:
            r = Material(scattering_params=p, effective_sample_number_density=n).attenuation_coefficient(wl)
        except Exception as ex:
            fail('attenuation:raises', f'attenuation_coefficient raises {type(ex).__name__}: {ex} on {desc}', {'case': desc})
            continue
        got, dims = si(r)
        want = si(n)[0] * (si(ss)[0] + si(sa)[0] * si(wl)[0] / 1.7982e-10)
        if dims != [-1, 0, 0, 0, 0, 0, 0, 0, 0] or not math.isclose(got, want, rel_tol=1e-9):
            fail('attenuation:formula', f'attenuation_coefficient returns {r.value} {r.unit} = {got} (SI, dims {dims}) where '
                 f'n*(sigma_s + sigma_a*lambda/1.7982 angstrom) = {want} 1/m on {desc}',
                 {'case': desc, 'impl_si': got, 'required_si': want})
    return checked


def check_snapshot(snap, cur_dir):
    import difflib
    n = 0
    for t, fn, skip in TABLES:
        ref = read_lines(snap, fn)
        cur = read_lines(cur_dir, fn)
        if ref == cur:
            continue
        sm = difflib.SequenceMatcher(a=ref, b=cur, autojunk=False)
        for tag, i1, i2, j1, j2 in sm.get_opcodes():
            if tag == 'equal':
                continue
            n += 1
            ref_rows, cur_rows = ref[i1:i2], cur[j1:j2]
            names = [l.split(',')[0] for l in (ref_rows + cur_rows)][:2]
            obs = {}
            for nm in dict.fromkeys(names):
                try:
                    p = ScatteringParams.for_isotope(nm)
                    obs[f'ScatteringParams.for_isotope({nm!r})'] = {f: show(getattr(p, f)) for f in FIELDS}
                except Exception as ex:
                    obs[f'ScatteringParams.for_isotope({nm!r})'] = f'raises {type(ex).__name__}: {ex}'
                try:
                    a = Atom.for_isotope(nm)
                    obs[f'Atom.for_isotope({nm!r})'] = {'z': a.z, 'weight': show(getattr(a, '_atomic_weight', None)), 'mass': show(getattr(a, '_atomic_mass', None))}
                except Exception as ex:
                    obs[f'Atom.for_isotope({nm!r})'] = f'raises {type(ex).__name__}: {ex}'
            first = names[0] if names else ''
            fail(f'table-changed:{fn}:{first}',
                 f'{fn} differs from the pinned snapshot at line {i1 + 1}: snapshot {ref_rows[:3]} -> current {cur_rows[:3]}; '
                 f'the implementation now answers {obs}',
                 {'file': fn, 'line': i1 + 1, 'reference_rows': ref_rows[:5], 'current_rows': cur_rows[:5],
                  'name': first, 'impl': obs,
                  'required': 'the tabulated values of the pinned snapshot tools/corpus/C20 (refresh it if the data '
                              'update is intended)'}, cap=3)
            if n >= 5:
                return n
    return n


def main():
    req = json.load(sys.stdin)
    rng = random.Random(req.get('seed', 0))
    cur_dir = os.path.dirname(atoms.__file__)
    tabs = {}
    for t, fn, skip in TABLES:
        tabs[t] = [l.split(',') for l in read_lines(cur_dir, fn)[skip:]]
    checked = {}
    for label, f in (('rows', lambda: check_rows(tabs)), ('near_misses', lambda: check_near(tabs)),
                     ('attenuation', lambda: check_attenuation(rng)),
                     ('snapshot_differences', lambda: check_snapshot(req['snapshot'], cur_dir))):
        try:
            checked[label] = f()
        except Exception as ex:   # e.g. a malformed table makes the harness-side parsing fail
            import traceback
            checked[label] = f'crashed: {type(ex).__name__}: {ex}'
            fail(f'search:{label}:crash', f'search step {label} crashed: {traceback.format_exc()[-600:]}',
                 {'step': label}, cap=1)
    print('RESULT ' + json.dumps({'failures': failures, 'checked': checked, 'per_class': per_class}))


if __name__ == '__main__':
    main()
