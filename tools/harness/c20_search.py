#!/venv/bin/python
"""C20 search: evaluate the PROPERTY STATEMENT itself on the real implementation (no Coq model).

Called when a proof obligation broke.  Checks, directly in Python against the files the installed
package reads:
  1. every row of the three tables: the lookup by the row's name returns value == float(field),
     variance == float(std)**2, the column's unit, None where blank; Atom: z == int(Z field) and
     == position of the element symbol in the periodic table, mass only for isotope rows, weight
     only where the element row has one;
  2. near misses of every name that are not themselves first-column names must be rejected
     (c20_names.py: prefixes, suffixes, case changes, blanks, digits / punctuation / non-letter tails before and
     after the name, swapped mass number, a non-letter inside the symbol — all classes for every name);
  3. the attenuation coefficient equals n*(sigma_s + sigma_a*lambda/1.7982 angstrom) in 1/length for
     wavelengths of dtype float64 / float32 / int64 / int32 in m, mm, cm, km, um, nm, angstrom, pm, fm (scalar
     and 1-d), densities and cross-sections in several units and dtypes;
  4. the tables equal the pinned snapshot (tools/corpus/C20) line by line — for each differing
     line: the row, and what the implementation now returns for its name.
stdin : {"snapshot": dir, "seed": int, "broken": [names of the broken obligations],
         "steps": ["rows", "near_misses", "attenuation", "snapshot_differences"] (default: all),
         "chunk": [i, n] (near misses: only every n-th name starting at i; the caller runs n processes)}
stdout: 'RESULT {"failures": [{"key", "what", "replay"}], "checked": {...}}'   (at most a few per class)
"""
import json
import math
import os
import random
import sys

sys.path.insert(0, os.path.dirname(os.path.abspath(__file__)))
import numpy as np  # noqa: E402
import scipp as sc  # noqa: E402
from c20_names import near_misses  # noqa: E402
from kernels_impl import unit_info  # noqa: E402

import scippneutron.atoms as atoms  # noqa: E402
from scippneutron.absorption.material import Material  # noqa: E402
from scippneutron.atoms import Atom, ScatteringParams  # noqa: E402

FIELDS = ['coherent_scattering_length_re', 'coherent_scattering_length_im',
          'incoherent_scattering_length_re', 'incoherent_scattering_length_im',
          'coherent_scattering_cross_section', 'incoherent_scattering_cross_section',
          'total_scattering_cross_section', 'absorption_cross_section']
UNITS = ['fm'] * 4 + ['barn'] * 4
TABLES = [('scat', 'scattering_parameters.csv', 0), ('weight', 'atomic_weights.csv', 2),
          ('mass', 'atomic_masses.csv', 2)]
PERIODIC = ("H He Li Be B C N O F Ne Na Mg Al Si P S Cl Ar K Ca Sc Ti V Cr Mn Fe Co Ni Cu Zn Ga Ge As Se Br Kr "
            "Rb Sr Y Zr Nb Mo Tc Ru Rh Pd Ag Cd In Sn Sb Te I Xe Cs Ba La Ce Pr Nd Pm Sm Eu Gd Tb Dy Ho Er Tm Yb Lu "
            "Hf Ta W Re Os Ir Pt Au Hg Tl Pb Bi Po At Rn Fr Ra Ac Th Pa U Np Pu Am Cm Bk Cf Es Fm Md No Lr "
            "Rf Db Sg Bh Hs Mt Ds Rg Cn Nh Fl Mc Lv Ts Og").split()

failures = []
per_class = {}


def fail(key, what, replay, cap=2):
    per_class[key] = per_class.get(key, 0) + 1
    if per_class[key] <= cap:
        failures.append({'key': key, 'what': what, 'replay': replay})


def read_lines(d, fn):
    with open(os.path.join(d, fn), encoding='utf-8', errors='replace') as f:
        lines = f.read().split('\n')
    if lines and lines[-1] == '':
        lines = lines[:-1]
    return lines


def show(v):
    if v is None:
        return None
    if isinstance(v, sc.Variable):
        return {'value': float(v.value) if v.ndim == 0 else 'array',
                'variance': (float(v.variance) if v.variance is not None else None) if v.ndim == 0 else 'array',
                'unit': str(v.unit), 'dtype': str(v.dtype)}
    return repr(v)


def qty_ok(v, value, std, unit):
    """property statement for one (value, uncertainty) pair of fields"""
    if value == '':
        return v is None, 'nothing (blank field)'
    want = f'{value} +- {std or "(no uncertainty)"} {unit}'
    if not isinstance(v, sc.Variable) or v.ndim != 0:
        return False, want
    try:
        x = float(value)
        var = float(std) ** 2 if std else None
    except ValueError:
        return False, want + ' (field is not a number)'
    ok = (v.value == x and ((v.variance is None) if var is None else
                            (v.variance is not None and math.isclose(v.variance, var, rel_tol=1e-15, abs_tol=0.0)))
          and v.unit == sc.Unit(unit) and v.dtype == sc.DType.float64)
    return ok, want


def element_symbol(name):
    s = name.lstrip('0123456789')
    return s


def check_rows(tabs):
    checked = 0
    wrows = {}
    for r in tabs['weight']:
        wrows.setdefault(r[0], r)
    for r in tabs['scat']:
        name = r[0]
        checked += 1
        try:
            p = ScatteringParams.for_isotope(name)
        except Exception as ex:
            fail('scat:exact:raises', f'ScatteringParams.for_isotope({name!r}) raises {type(ex).__name__}: {ex} for a name of '
                 f'the scattering table (row {r})', {'api': 'scat', 'name': name, 'row': r,
                                                     'required': 'the fields of that row'})
            continue
        if p.isotope != name:
            fail('scat:exact:isotope-attribute', f'ScatteringParams.for_isotope({name!r}).isotope == {p.isotope!r}',
                 {'api': 'scat', 'name': name})
        cells = r[1:] + [''] * 16
        for i, f in enumerate(FIELDS):
            ok, want = qty_ok(getattr(p, f), cells[2 * i], cells[2 * i + 1], UNITS[i])
            if not ok:
                fail('scat:exact:field', f'ScatteringParams.for_isotope({name!r}).{f} is {show(getattr(p, f))} but the '
                     f'table row says {want}', {'api': 'scat', 'name': name, 'field': f, 'row': r,
                                                'impl': show(getattr(p, f)), 'required': want})
                break
    for t in ('weight', 'mass'):
        for r in tabs[t]:
            name = r[0]
            checked += 1
            el = element_symbol(name)
            er = wrows.get(el)
            try:
                a = Atom.for_isotope(name)
            except Exception as ex:
                fail(f'atom:exact:raises', f'Atom.for_isotope({name!r}) raises {type(ex).__name__}: {ex} for a name of the '
                     f'{t} table (row {r}; element row {er})', {'api': 'atom', 'name': name, 'row': r, 'element_row': er,
                                                                 'required': 'z and weight of the element row, mass of the isotope row'})
                continue
            if er is None or len(er) != 4 or len(r) != (4 if t == 'weight' else 3):
                fail('atom:exact:malformed-row', f'row {r} / element row {er} of the {t} table is malformed but '
                     f'Atom.for_isotope({name!r}) answered', {'api': 'atom', 'name': name, 'row': r})
                continue
            try:
                z = int(er[1])
            except ValueError:
                z = None
            z_pt = PERIODIC.index(el) + 1 if el in PERIODIC else None
            if not hasattr(a, 'isotope') or not hasattr(a, 'z'):
                fail('atom:exact:unreadable', f'Atom.for_isotope({name!r}) returned {a!r} which has no isotope / z',
                     {'api': 'atom', 'name': name, 'row': r})
                continue
            if a.isotope != name or a.z != z or z != z_pt:
                fail('atom:exact:z', f'Atom.for_isotope({name!r}) has isotope={a.isotope!r}, z={a.z!r}; the table says Z={er[1]!r} '
                     f'and {el!r} is element number {z_pt} of the periodic table',
                     {'api': 'atom', 'name': name, 'row': r, 'element_row': er, 'impl_z': a.z, 'required': f'z == {z_pt}'})
            try:
                w = a.atomic_weight
            except ValueError:
                w = None
            except Exception as ex:
                w = f'raises {type(ex).__name__}: {ex}'
            try:
                m = a.atomic_mass
            except ValueError:
                m = None
            except Exception as ex:
                m = f'raises {type(ex).__name__}: {ex}'
            ok, want = qty_ok(w, er[2], er[3], 'Da')
            if not ok:
                fail('atom:exact:weight', f'Atom.for_isotope({name!r}).atomic_weight is {show(w)} but the element row says {want}',
                     {'api': 'atom', 'name': name, 'element_row': er, 'impl': show(w), 'required': want})
            if t == 'weight':
                ok, want = (m is None), 'no mass for a bare element name'
            else:
                ok, want = qty_ok(m, r[1], r[2], 'Da')
                ok = ok and m is not None
            if not ok:
                fail('atom:exact:mass', f'Atom.for_isotope({name!r}).atomic_mass is {show(m)} but required: {want}',
                     {'api': 'atom', 'name': name, 'row': r, 'impl': show(m), 'required': want})
    return checked


def near_names(tabs, rng):
    """[(variant, kind, real name it derives from)] without duplicates: every class of c20_names for every name
    (whole pools for the scattering / element names; fixed + always + one seeded pool member per class for the
    3557 isotope-mass names)"""
    seen = set()
    out = []
    for t in tabs:
        for r in tabs[t]:
            n = r[0]
            if not n:
                continue
            vs = near_misses(n, rng, 1) if t == 'mass' else near_misses(n)
            for kind, v in vs:
                if v not in seen:
                    seen.add(v)
                    out.append((v, kind, n))
    return out


def check_near(tabs, rng, chunk):
    first = {t: {r[0] for r in tabs[t]} for t in tabs}
    checked = 0
    for v, kind, n in near_names(tabs, rng)[chunk[0]::chunk[1]]:
        checked += 1
        if v not in first['scat']:
            try:
                p = ScatteringParams.for_isotope(v)
                fail(f'scat:{kind}:accepted', f'ScatteringParams.for_isotope({v!r}) ({kind} near miss of {n!r}, not a first-'
                     f'column name) answered with {p}', {'api': 'scat', 'name': v, 'kind': kind, 'derived_from': n,
                                                         'required': 'an exception'})
            except Exception:
                pass
        if v not in first['weight'] and v not in first['mass']:
            try:
                a = Atom.for_isotope(v)
                fail(f'atom:{kind}:accepted', f'Atom.for_isotope({v!r}) ({kind} near miss of {n!r}, in neither table) '
                     f'answered with {a}', {'api': 'atom', 'name': v, 'kind': kind, 'derived_from': n,
                                           'required': 'an exception'})
            except Exception:
                pass
    return checked


def si(var):
    """(SI values as a float array, base-unit powers)"""
    u = unit_info(var.unit)
    return np.asarray(var.values, dtype=np.float64) * (int(u['mult'][0]) / int(u['mult'][1])), u['dims']


N_UNITS = [('1/angstrom^3', 1e30), ('1/m^3', 1.0), ('1/cm^3', 1e6), ('1/nm^3', 1e27)]
A_UNITS = [('barn', 1e-28), ('fm^2', 1e-30), ('m^2', 1.0), ('angstrom^2', 1e-20), ('cm^2', 1e-4), ('mm^2', 1e-6)]
L_UNITS = [('angstrom', 1e-10), ('nm', 1e-9), ('m', 1.0), ('mm', 1e-3), ('cm', 1e-2), ('km', 1e3), ('um', 1e-6),
           ('pm', 1e-12), ('fm', 1e-15)]
L_FINE = [('angstrom', 1e-10), ('nm', 1e-9), ('pm', 1e-12), ('fm', 1e-15), ('pm', 1e-12), ('fm', 1e-15)]


def loguniform(rng, lo, hi):
    return math.exp(rng.uniform(math.log(lo), math.log(hi)))


def quantity(rng, si_values, units, dtype, dim):
    """the SI values in a random unit of `units` with the given dtype (integers: whole numbers >= 1)"""
    name, mult = rng.choice(units)
    vals = [v / mult for v in si_values]
    if dtype.startswith('int'):
        vals = [max(1, min(2000000000, int(round(v)))) for v in vals]
    arr = np.array(vals).astype(dtype)
    if dim is None:
        return sc.scalar(arr[0], unit=name, dtype=dtype)
    return sc.array(dims=[dim], values=arr, unit=name, dtype=dtype)


def check_attenuation(rng, n_cases=1500):
    checked = 0
    reused = None        # one Material object that a caller keeps and re-configures (a plain mutable dataclass)
    for _ in range(n_cases):
        wl_dtype = rng.choice(['float64', 'float64', 'float32', 'int64', 'int64', 'int32'])
        dim = rng.choice([None, None, 'wavelength'])

        def dt():
            return rng.choice(['float64', 'float64', 'float64', 'float32', 'int64'])
        n = quantity(rng, [loguniform(rng, 1e26, 1e30)], N_UNITS, dt(), None)
        ss = quantity(rng, [loguniform(rng, 1e-30, 1e-25)], A_UNITS, dt(), None)
        sa = quantity(rng, [loguniform(rng, 1e-31, 1e-24)], A_UNITS, dt(), None)
        wl = quantity(rng, [loguniform(rng, 2e-11, 3e-9) for _ in range(1 if dim is None else 4)],
                      L_FINE if wl_dtype.startswith('int') else L_UNITS, wl_dtype, dim)
        p = ScatteringParams(isotope='X', total_scattering_cross_section=ss, absorption_cross_section=sa)

        def d(v):
            return {'values': np.asarray(v.values).reshape(-1).tolist(), 'unit': str(v.unit), 'dtype': str(v.dtype)}
        desc = {'n': d(n), 'sigma_s': d(ss), 'sigma_a': d(sa), 'wavelength': d(wl)}
        cls = f'wavelength-{wl_dtype}'
        checked += 1
        try:
            mode = rng.random()
            if mode < 0.3 and reused is not None:
                # history: the same Material object, queried before, now describes another substance
                try:
                    reused.scattering_params = p
                    if rng.random() < 0.5:
                        reused.effective_sample_number_density = n
                    else:
                        n = reused.effective_sample_number_density
                        desc['n'] = d(n)
                    mat = reused
                    cls = 'reused-material:' + cls
                    desc['history'] = 'a Material object queried earlier, then given new scattering_params (and density)'
                except Exception:       # immutable Material: nothing to re-use
                    mat = Material(scattering_params=p, effective_sample_number_density=n)
            else:
                mat = Material(scattering_params=p, effective_sample_number_density=n)
                if reused is None or mode > 0.9:
                    reused = mat
            r = mat.attenuation_coefficient(wl)
            got, dims = si(r)
            got = got.reshape(-1)
        except Exception as ex:
            fail(f'attenuation:raises:{cls}', f'attenuation_coefficient raises {type(ex).__name__}: {ex} on {desc}',
                 {'case': desc, 'required': 'n*(sigma_s + sigma_a*lambda/(1.7982 angstrom)) in inverse length'})
            continue
        want = (si(n)[0] * (si(ss)[0] + si(sa)[0] * si(wl)[0] / 1.7982e-10)).reshape(-1)
        single = any(str(v.dtype) == 'float32' for v in (n, ss, sa, wl))
        tol = 1e-5 if single else 1e-9
        ok = (dims == [-1, 0, 0, 0, 0, 0, 0, 0, 0] and got.shape == want.shape
              and all(math.isclose(g, w, rel_tol=tol) for g, w in zip(got.tolist(), want.tolist())))
        if not ok:
            fail(f'attenuation:formula:{cls}',
                 f'attenuation_coefficient returns {np.asarray(r.values).reshape(-1).tolist()} {r.unit} = {got.tolist()} '
                 f'(SI, dims {dims}) where n*(sigma_s + sigma_a*lambda/1.7982 angstrom) = {want.tolist()} 1/m on {desc}',
                 {'case': desc, 'impl_si': got.tolist(), 'required_si': want.tolist(),
                  'required': 'n*(sigma_s + sigma_a*lambda/(1.7982 angstrom)) in inverse length (rel. 1e-9; 1e-5 with a '
                              'float32 operand)'})
    return checked


def check_snapshot(snap, cur_dir):
    import difflib
    n = 0
    for t, fn, skip in TABLES:
        ref = read_lines(snap, fn)
        cur = read_lines(cur_dir, fn)
        if ref == cur:
            continue
        sm = difflib.SequenceMatcher(a=ref, b=cur, autojunk=False)
        for tag, i1, i2, j1, j2 in sm.get_opcodes():
            if tag == 'equal':
                continue
            n += 1
            ref_rows, cur_rows = ref[i1:i2], cur[j1:j2]
            names = [l.split(',')[0] for l in (ref_rows + cur_rows)][:2]
            obs = {}
            for nm in dict.fromkeys(names):
                try:
                    p = ScatteringParams.for_isotope(nm)
                    obs[f'ScatteringParams.for_isotope({nm!r})'] = {f: show(getattr(p, f)) for f in FIELDS}
                except Exception as ex:
                    obs[f'ScatteringParams.for_isotope({nm!r})'] = f'raises {type(ex).__name__}: {ex}'
                try:
                    a = Atom.for_isotope(nm)
                    obs[f'Atom.for_isotope({nm!r})'] = {'z': a.z, 'weight': show(getattr(a, '_atomic_weight', None)), 'mass': show(getattr(a, '_atomic_mass', None))}
                except Exception as ex:
                    obs[f'Atom.for_isotope({nm!r})'] = f'raises {type(ex).__name__}: {ex}'
            first = names[0] if names else ''
            fail(f'table-changed:{fn}:{first}',
                 f'{fn} differs from the pinned snapshot at line {i1 + 1}: snapshot {ref_rows[:3]} -> current {cur_rows[:3]}; '
                 f'the implementation now answers {obs}',
                 {'file': fn, 'line': i1 + 1, 'reference_rows': ref_rows[:5], 'current_rows': cur_rows[:5],
                  'name': first, 'impl': obs,
                  'required': 'the tabulated values of the pinned snapshot tools/corpus/C20 (refresh it if the data '
                              'update is intended)'}, cap=3)
            if n >= 5:
                return n
    return n


def main():
    req = json.load(sys.stdin)
    rng = random.Random(req.get('seed', 0))
    cur_dir = os.path.dirname(atoms.__file__)
    tabs = {}
    for t, fn, skip in TABLES:
        tabs[t] = [l.split(',') for l in read_lines(cur_dir, fn)[skip:]]
    checked = {}
    steps = req.get('steps') or ['rows', 'near_misses', 'attenuation', 'snapshot_differences']
    chunk = req.get('chunk') or [0, 1]
    # a broken obligation about material.py / the attenuation proof: spend more cases there
    broken = ' '.join(str(b) for b in req.get('broken') or [])
    n_att = 6000 if ('material.py' in broken or 'TieAtt' in broken or 'attenuation' in broken) else 1500
    for label, f in (('rows', lambda: check_rows(tabs)),
                     ('near_misses', lambda: check_near(tabs, random.Random(req.get('seed', 0)), chunk)),
                     ('attenuation', lambda: check_attenuation(rng, n_att)),
                     ('snapshot_differences', lambda: check_snapshot(req['snapshot'], cur_dir))):
        if label not in steps:
            continue
        try:
            checked[label] = f()
        except Exception as ex:   # e.g. a malformed table makes the harness-side parsing fail
            import traceback
            checked[label] = f'crashed: {type(ex).__name__}: {ex}'
            fail(f'search:{label}:crash', f'search step {label} crashed: {traceback.format_exc()[-600:]}',
                 {'step': label}, cap=1)
    print('RESULT ' + json.dumps({'failures': failures, 'checked': checked, 'per_class': per_class}, default=repr))


if __name__ == '__main__':
    main()
