#!/venv/bin/python
"""C18 implementation runner (runs in /venv with PYTHONPATH=<repo>/src).

stdin : {"mode": "tables"}                      -> the quadrature tables of the CURRENT source + numpy's line rules
        {"mode": "run", "cyls": [...], "trans": [...]}
  cyl   = {"axis": [hex]*3, "base": [hex]*3, "r": hex, "h": hex, "unit": "mm"|"cm"|"m" (of base, rays and, unless
           "r_unit" / "h_unit" say otherwise, of r and h),
           "rays": [{"s": [hex]*3, "n": [hex]*3}], "kinds": ["cheap", ...],
           "scalar_idx": [indices of rays to evaluate again one at a time with 0-d operands] (optional)}
  trans = {"cyl": cyl-without-rays, "kind": str, "sigma_s": hex, "sigma_a": hex, "density": hex   (mm^2, mm^2, 1/mm^3),
           "wavelengths": [hex] (angstrom), "beam": [hex]*3, "dets": [[hex]*3], "det_unit": "m"|"mm",
           "variants": [{"M": [[hex]*3]*3, "tr": [hex]*3} | {"flip": true}]}
stdout: RESULT <json>; every float is returned as float.hex() (exact).
"""
import json
import math
import sys

import numpy as np
import scipp as sc


def fh(x):
    return float(x).hex()


def uh(v):
    return [float.fromhex(c) if isinstance(c, str) else float(c) for c in v]


def tables():
    from numpy.polynomial.chebyshev import chebgauss
    from numpy.polynomial.legendre import leggauss

    from scippneutron.absorption import quadratures as q
    out = {'disk': {}, 'leg': {}, 'cheb': {}}
    for name in ('disk12', 'disk55', 'disk256_cheb'):
        d = getattr(q, name)
        if not (len(d['x']) == len(d['y']) == len(d['weights'])):
            raise ValueError(f'{name}: ragged table')
        out['disk'][name] = [[fh(x), fh(y), fh(w)] for x, y, w in zip(d['x'], d['y'], d['weights'])]
    for k in range(5, 16):
        x, w = leggauss(k)
        out['leg'][str(k)] = [[fh(a), fh(b)] for a, b in zip(x, w)]
    for k in range(7, 36):
        x, w = chebgauss(k)
        out['cheb'][str(k)] = [[fh(a), fh(b)] for a, b in zip(x, w)]
    return out


def make_cyl(c):
    from scippneutron.absorption import Cylinder
    u = c['unit']
    return Cylinder(sc.vector(uh(c['axis'])), sc.vector(uh(c['base']), unit=u),
                    sc.scalar(float.fromhex(c['r']), unit=c.get('r_unit', u)),
                    sc.scalar(float.fromhex(c['h']), unit=c.get('h_unit', u)))


def vec_hex(var):
    return [[fh(c) for c in row] for row in np.asarray(var.values).reshape(-1, 3)]


def err(ex):
    return type(ex).__name__ + ': ' + str(ex)[:200]


def run_cyl(c):
    """mixed = radius / height given in another length unit than center_of_base (unit 'unit'): every entry point is
    tried on its own (a refusal is recorded per entry point as <name>_error) and every returned quantity is converted
    to the unit of center_of_base (scipp's .to(); the identity when the units agree) before it is written out"""
    out = {}
    u = c['unit']
    mixed = c.get('r_unit', u) != u or c.get('h_unit', u) != u
    try:
        cyl = make_cyl(c)
        out['stored'] = {'axis': vec_hex(cyl.symmetry_line)[0], 'base': vec_hex(cyl.center_of_base)[0],
                         'r': fh(cyl.radius.to(unit=u, copy=False).value), 'h': fh(cyl.height.to(unit=u, copy=False).value),
                         'r_raw': fh(cyl.radius.value), 'h_raw': fh(cyl.height.value),
                         'r_unit': str(cyl.radius.unit), 'h_unit': str(cyl.height.unit), 'base_unit': str(cyl.center_of_base.unit)}
        rays = c.get('rays', [])
        if rays:
            try:
                s = sc.vectors(dims=['ray'], values=np.array([uh(r['s']) for r in rays]), unit=u)
                n = sc.vectors(dims=['ray'], values=np.array([uh(r['n']) for r in rays]))
                L = cyl.beam_intersection(s, n)
                out['L_unit'] = str(L.unit)
                L = L.to(unit=u, copy=False)
                out['L'] = [fh(x) if math.isfinite(x) else repr(float(x)) for x in L.values]
                # the same rays one at a time (0-d operands) must give the same numbers
                i = len(rays) // 2
                L1 = cyl.beam_intersection(sc.vector(uh(rays[i]['s']), unit=u), sc.vector(uh(rays[i]['n']))).to(unit=u, copy=False)
                out['L_scalar_check'] = [i, fh(L1.value)]
                out['L_scalar_checks'] = []
                for i in c.get('scalar_idx', []):
                    L1 = cyl.beam_intersection(sc.vector(uh(rays[i]['s']), unit=u),
                                               sc.vector(uh(rays[i]['n']))).to(unit=u, copy=False).value
                    out['L_scalar_checks'].append([i, fh(L1) if math.isfinite(L1) else repr(float(L1))])
            except Exception as ex:  # noqa: BLE001
                if not mixed:
                    raise
                out.pop('L', None)
                out['L_error'] = err(ex)
        out['quad'] = {}
        out['quad_error'] = {}
        for kind in c.get('kinds', []):
            try:
                p, w = cyl.quadrature(kind)
                out['quad'][kind] = {'p_unit': str(p.unit), 'w_unit': str(w.unit),
                                     'points': vec_hex(p.to(unit=u, copy=False)),
                                     'weights': [fh(x) for x in w.to(unit=sc.Unit(u) ** 3, copy=False).values]}
            except Exception as ex:  # noqa: BLE001
                if not mixed:
                    raise
                out['quad_error'][kind] = err(ex)
        try:
            out['volume_unit'] = str(cyl.volume.unit)
            out['volume'] = fh(cyl.volume.to(unit=sc.Unit(u) ** 3, copy=False).value)
        except Exception as ex:  # noqa: BLE001
            if not mixed:
                raise
            out['volume_error'] = err(ex)
        try:
            out['center'] = vec_hex(cyl.center.to(unit=u, copy=False))[0]
        except Exception as ex:  # noqa: BLE001
            if not mixed:
                raise
            out['center_error'] = err(ex)
    except Exception as ex:  # noqa: BLE001
        out['error'] = err(ex)
    return out


def tmap(cylspec, t, beam, dets, kind):
    from scippneutron.absorption import Material, compute_transmission_map
    from scippneutron.atoms import ScatteringParams
    cyl = make_cyl(cylspec)
    material = Material(
        ScatteringParams('Fake',
                         absorption_cross_section=sc.scalar(float.fromhex(t['sigma_a']), unit='mm**2'),
                         total_scattering_cross_section=sc.scalar(float.fromhex(t['sigma_s']), unit='mm**2')),
        sc.scalar(float.fromhex(t['density']), unit='1/mm**3'))
    wl = sc.array(dims=['wavelength'], values=uh(t['wavelengths']), unit='angstrom')
    det = sc.vectors(dims=['det'], values=np.array(dets), unit=t['det_unit'])
    tm = compute_transmission_map(cyl, material, beam_direction=sc.vector(beam), wavelength=wl,
                                  detector_position=det, quadrature_kind=kind)
    mu = material.attenuation_coefficient(wl).to(unit=sc.Unit('1/' + cylspec['unit']))
    return tm, mu


def run_trans(t):
    out = {}
    try:
        c = t['cyl']
        beam = uh(t['beam'])
        dets = [uh(d) for d in t['dets']]
        tm, mu = tmap(c, t, beam, dets, t['kind'])
        out['dims'] = list(tm.dims)
        out['unit'] = str(tm.unit)
        arr = tm.transpose(['det', 'wavelength']).values
        out['T'] = [[fh(x) if math.isfinite(x) else repr(float(x)) for x in row] for row in arr]
        out['mu'] = [fh(x) for x in mu.values]
        out['variants'] = []
        a = np.array(uh(c['axis']))
        b = np.array(uh(c['base']))
        hh = float.fromhex(c['h'])
        # factor between the cylinder's unit and the detector unit
        f = sc.scalar(1.0, unit=c['unit']).to(unit=t['det_unit']).value
        for v in t.get('variants', []):
            c2 = dict(c)
            if v.get('flip'):
                c2['axis'] = [fh(x) for x in (-a)]
                c2['base'] = [fh(x) for x in (b + hh * a)]
                beam2, dets2 = beam, dets
            else:
                M = np.array([uh(r) for r in v['M']])
                tr = np.array(uh(v['tr']))          # in the cylinder's unit
                c2['axis'] = [fh(x) for x in (M @ a)]
                c2['base'] = [fh(x) for x in (M @ b + tr)]
                beam2 = list(M @ np.array(beam))
                dets2 = [list(M @ np.array(d) + tr * f) for d in dets]
            tm2, _ = tmap(c2, t, beam2, dets2, t['kind'])
            arr2 = tm2.transpose(['det', 'wavelength']).values
            out['variants'].append({'T': [[fh(x) if math.isfinite(x) else repr(float(x)) for x in row] for row in arr2],
                                    'axis': c2['axis'], 'base': c2['base']})
    except Exception as ex:  # noqa: BLE001
        import traceback
        out['error'] = type(ex).__name__ + ': ' + str(ex)[:300] + ' | ' + traceback.format_exc()[-400:]
    return out


def main():
    req = json.load(sys.stdin)
    if req.get('mode') == 'tables':
        res = tables()
    else:
        res = {'cyls': [run_cyl(c) for c in req.get('cyls', [])],
               'trans': [run_trans(t) for t in req.get('trans', [])]}
    print('RESULT ' + json.dumps(res))


if __name__ == '__main__':
    main()
