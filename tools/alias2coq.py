#!/usr/bin/env python3
"""alias2coq — fail-closed Python-ast -> Coq translator for the C09 alias analysis.

usage: alias2coq.py <spec.json> <out_dir>
spec = {"repo": "/repo", "modules": [{"py": "src/.../x.py", "key": "x", "dotted": "scippneutron...x"}...],
        "roots": ["x.f", "x.C.m", ...], "allowed": {"x.f": ["param", ...]}}

Emits <out_dir>/GenAlias.v (terms of Verif.C09.Alias: one fundef per function reachable from the
roots, PROG, LOOPSITES) and <out_dir>/alias_report.json (sites, callees, decorators, class facts).
The script knows NO semantics beyond the classification tables below (which primitive returns a
new object / may return its argument / mutates its receiver); all meaning is in coq/C09/Alias.v.
Anything outside the supported subset aborts the translation of that function (reported)."""
import ast
import json
import os
import sys

# ----------------------------------------------------------------------------- classification tables
# (the MODEL of scipp / numpy / Python aliasing; each scipp row is validated by tools/harness/c09_impl.py)
FRESH_FUNCS = {
    # scipp: element-wise math, reductions and constructors return new variables
    'scipp.norm', 'scipp.dot', 'scipp.cross', 'scipp.sqrt', 'scipp.sin', 'scipp.cos', 'scipp.tan', 'scipp.asin',
    'scipp.acos', 'scipp.atan', 'scipp.atan2', 'scipp.abs', 'scipp.exp', 'scipp.log', 'scipp.reciprocal',
    'scipp.where', 'scipp.scalar', 'scipp.array', 'scipp.vector', 'scipp.vectors', 'scipp.full', 'scipp.empty',
    'scipp.zeros', 'scipp.ones', 'scipp.arange', 'scipp.linspace', 'scipp.concat', 'scipp.min', 'scipp.max',
    'scipp.sum', 'scipp.mean', 'scipp.any', 'scipp.all', 'scipp.issorted', 'scipp.allclose', 'scipp.identical',
    'scipp.isnan', 'scipp.reduce', 'scipp.midpoints', 'scipp.spatial.inv', 'scipp.spatial.as_vectors',
    'scipp.spatial.rotations_from_rotvecs', 'scipp.Unit', 'scipp.DimensionError', 'scipp.VariancesError',
    'scipp.DTypeError', 'scipp.CoordError', 'scipp.UnitError',
    'scipp.sort', 'scipp.round', 'scipp.index', 'scipp.cumsum',
    # numpy
    'numpy.nextafter', 'numpy.argmax', 'numpy.array', 'numpy.repeat', 'numpy.tile', 'numpy.cos', 'numpy.sin',
    'numpy.ones', 'numpy.random.random', 'numpy.stack', 'numpy.linspace', 'numpy.array_equal', 'numpy.sqrt',
    'numpy.exp', 'numpy.polynomial.Polynomial.fit', 'numpy.polynomial.chebyshev.chebgauss',
    'numpy.polynomial.legendre.leggauss',
    # python
    'len', 'int', 'float', 'round', 'sum', 'abs', 'isinstance', 'range', 'str', 'any', 'all', 'bool', 'repr',
    'type', 'print', 'hash', 'id', 'callable',
    'math.sqrt', 'math.log', 'math.exp', 'math.sin', 'math.cos', 'copy.deepcopy', 're.match',
    'uuid.uuid4', 'dataclasses.fields',
    'importlib.resources.files', 'warnings.warn', 'datetime.datetime.now', 'scippneutron.io._files.open_or_pass',
    'ValueError', 'TypeError', 'RuntimeError', 'NotImplementedError', 'KeyError', 'IndexError', 'Exception',
}
# f(x, ...): returns x itself iff a condition on x's unit/dtype holds (given the keyword), else a new object
MAYBE_FUNCS = {'scipp.to_unit': 'copy', 'scipp.values': None, 'scipp.variances': None, 'scipp.stddevs': None,
               'numpy.asarray': None, 'numpy.ascontiguousarray': None}
# new container, same elements
SHALLOW_FUNCS = {'dict', 'list', 'tuple', 'set', 'frozenset', 'sorted', 'reversed', 'copy.copy'}
# methods, by name (the receiver's type is not known to the translator)
M_FRESH = {'min', 'max', 'mean', 'sum', 'nanmin', 'nanmax', 'nansum', 'any', 'all', 'norm', 'convert', 'is_edges',
           'startswith', 'endswith', 'rstrip', 'strip', 'lstrip', 'split', 'join', 'format', 'lower', 'upper',
           'encode', 'decode', 'replace', 'splitlines', 'ljust', 'rjust', 'readline', 'read', 'write', 'open', 'joinpath', 'issubset', 'union',
           'intersection', 'difference', 'count', 'index', 'keys', 'isoformat', 'total_seconds', 'group', 'size'}
M_MAYBE = {'to': 'copy', 'astype': 'copy', 'transpose': None, 'flatten': None, 'fold': None, 'broadcast': None,
           'squeeze': None, 'rename_dims': None, 'rename': None, 'reshape': None, 'ravel': None}
M_MUT = {'append', 'extend', 'update', 'add', 'insert', 'remove', 'clear', 'sort', 'pop', 'popitem', 'setdefault',
         'discard', 'reverse'}
SCALAR_ATTRS = {'unit', 'dtype', 'dims', 'dim', 'sizes', 'shape', 'ndim', 'size', '__name__', '__class__'}
# x.<attr> = v on a scipp Variable / DataArray does not rebind an attribute of the Python object x: it WRITES the storage x is a
# handle of (values / variances buffer, and the unit, which sits next to the buffer) - so it is seen through every other
# handle of that storage: the original of a shallow copy x = y.copy(deep=False), the variable a view was taken from.
# Translated as an in-place write (SAug), not as a field store (validated by harness rows against the installed scipp).
BUFFER_ATTRS = {'value', 'values', 'variance', 'variances', 'unit'}
# attributes holding a callable model object: calling it dispatches to Model.__call__
CALLABLE_ATTRS = {'_left': 'Model.__call__', '_right': 'Model.__call__', 'peak': 'Model.__call__',
                  'background': 'Model.__call__'}
SCALAR_ANN = {'str', 'int', 'float', 'bool', 'None', 'Literal', 'bytes'}
BUILTIN_CONSTS = {'None', 'True', 'False', 'NotImplemented', 'Ellipsis', '__name__'}


class Unsupported(Exception):
    pass


def cq_(s):
    return '"' + s.replace('"', '""') + '"'


NAMES = {'data': 0, 'self': 1, 'coords': 2, 'masks': 3}


def cq(s):
    """interned name (variables, attributes, keys, parameters)"""
    if s not in NAMES:
        NAMES[s] = len(NAMES)
    safe = s.replace('*', '_').replace('(', '_').replace(')', '_')
    return f'{NAMES[s]}(*{safe}*)'


def ident(key):
    return 'F_' + ''.join(c if c.isalnum() else '_' for c in key)


# ----------------------------------------------------------------------------- module facts
class ClassInfo:
    def __init__(self, mod, node):
        self.mod, self.node, self.name = mod, node, node.name
        self.bases = [ast.unparse(b) for b in node.bases]
        self.methods, self.props, self.setters, self.decos = {}, {}, {}, {}
        self.fields = []       # dataclass fields (name, annotation text, has default)
        self.dataclass = None  # dict of dataclass keywords or None
        for d in node.decorator_list:
            t = ast.unparse(d)
            if t.split('(')[0].split('.')[-1] == 'dataclass':
                self.dataclass = {}
                if isinstance(d, ast.Call):
                    for k in d.keywords:
                        self.dataclass[k.arg] = ast.unparse(k.value)
        for b in node.body:
            if isinstance(b, ast.FunctionDef):
                ds = [ast.unparse(x) for x in b.decorator_list]
                self.decos.setdefault(b.name, []).extend(ds)
                if 'property' in ds:
                    self.props[b.name] = b
                elif any(x.endswith('.setter') for x in ds):
                    self.setters[b.name] = b
                else:
                    self.methods[b.name] = b
            elif isinstance(b, ast.AnnAssign) and isinstance(b.target, ast.Name):
                self.fields.append((b.target.id, ast.unparse(b.annotation), b.value is not None))


class Module:
    def __init__(self, repo, spec):
        self.key, self.dotted, self.path = spec['key'], spec['dotted'], os.path.join(repo, spec['py'])
        self.src = open(self.path).read()
        self.tree = ast.parse(self.src)
        self.funcs, self.classes, self.aliases, self.globals = {}, {}, {}, set()
        # classes / functions defined conditionally at module level (try: ... except ImportError: ...): their names
        # denote immutable class / function objects; they are not analysed
        self.other_defs = set()
        self.enum_defs = set()      # those of them that are enumerations (calling one looks a member up by value)
        pkg = self.dotted.split('.')
        is_pkg = spec['py'].endswith('__init__.py')
        for n in self.tree.body:
            if isinstance(n, ast.FunctionDef):
                self.funcs[n.name] = n
            elif isinstance(n, ast.ClassDef):
                self.classes[n.name] = ClassInfo(self, n)
            elif isinstance(n, ast.Import):
                for a in n.names:
                    self.aliases[a.asname or a.name.split('.')[0]] = a.name if a.asname else a.name.split('.')[0]
            elif isinstance(n, ast.ImportFrom):
                base = pkg if is_pkg else pkg[:-1]
                if n.level:
                    base = base[:len(base) - (n.level - 1)]
                    m = '.'.join(base + ([n.module] if n.module else []))
                else:
                    m = n.module
                for a in n.names:
                    self.aliases[a.asname or a.name] = m + '.' + a.name
            elif isinstance(n, (ast.Assign, ast.AnnAssign)):
                tg = n.targets if isinstance(n, ast.Assign) else [n.target]
                for t in tg:
                    if isinstance(t, ast.Name):
                        self.globals.add(t.id)
            elif isinstance(n, (ast.Try, ast.If)):
                blocks = [n.body, n.orelse, getattr(n, 'finalbody', [])] + [h.body for h in getattr(n, 'handlers', [])]
                for sub in (x for b in blocks for x in b):
                    if isinstance(sub, (ast.ClassDef, ast.FunctionDef)):
                        self.other_defs.add(sub.name)
                        if isinstance(sub, ast.ClassDef) and any(ast.unparse(b).split('.')[-1] in ('Enum', 'StrEnum', 'IntEnum')
                                                                 for b in sub.bases):
                            self.enum_defs.add(sub.name)


# ----------------------------------------------------------------------------- the translator
class Gen:
    def __init__(self, spec):
        self.repo = spec['repo']
        self.mods = {m['key']: Module(self.repo, m) for m in spec['modules']}
        self.by_dotted = {m.dotted: m for m in self.mods.values()}
        self.allowed = spec.get('allowed', {})
        self.n_site, self.n_alloc, self.n_glob, self.n_tmp = 0, 1000, 500, 0
        self.sites, self.loop_sites, self.globals = {}, [], {}
        self.funs = {}          # key -> dict(coq, params, own_sites, callees, globals, decos, line)
        self.failed = {}        # key -> reason
        self.pending = []
        self.fids = {}
        self.ctags = {}
        self.in_progress = set()

    # ---------------------------------------------------------------- function registry
    def fkey(self, mod, cls, name):
        return f'{mod.key}.{cls}.{name}' if cls else f'{mod.key}.{name}'

    def lookup(self, key):
        """key 'mod.f' / 'mod.C.m' -> (module, class or None, FunctionDef, kind) or None"""
        parts = key.split('.')
        mod = self.mods.get(parts[0])
        if mod is None:
            return None
        if len(parts) == 2:
            f = mod.funcs.get(parts[1])
            return (mod, None, f, 'func') if f else None
        ci = mod.classes.get(parts[1])
        if ci is None:
            return None
        n = parts[2]
        if n.startswith('set:'):
            f = ci.setters.get(n[4:])
            return (mod, ci, f, 'setter') if f else None
        if n in ci.methods:
            return (mod, ci, ci.methods[n], 'method')
        if n in ci.props:
            return (mod, ci, ci.props[n], 'prop')
        if n == '__init__' and ci.dataclass is not None:
            return (mod, ci, None, 'dcinit')
        if n == '<new>':
            return (mod, ci, None, 'new')      # the constructor call C(...): a fresh instance initialised by __init__
        return None

    def request(self, key):
        if key not in self.funs and key not in self.failed and key not in self.in_progress and key not in self.pending:
            self.pending.append(key)
        return key

    def run(self, roots):
        for r in roots:
            if r.endswith('.*props'):
                mk, cn = r.split('.')[:2]
                for pn in sorted(self.mods[mk].classes[cn].props):
                    self.request(f'{mk}.{cn}.{pn}')
                continue
            self.request(r)
        while self.pending:
            key = self.pending.pop(0)
            self.in_progress.add(key)
            try:
                self.translate_function(key)
            except Unsupported as ex:
                self.failed[key] = str(ex)
            except RecursionError:
                self.failed[key] = 'recursion limit'
            self.in_progress.discard(key)

    # ---------------------------------------------------------------- class helpers
    def find_class(self, mod, name):
        """class named `name` visible in `mod` (own or imported from a spec module)"""
        if name in mod.classes:
            return mod.classes[name]
        tgt = mod.aliases.get(name)
        if tgt:
            m, _, c = tgt.rpartition('.')
            if m in self.by_dotted and c in self.by_dotted[m].classes:
                return self.by_dotted[m].classes[c]
        return None

    def mro(self, ci):
        out, todo = [], [ci]
        while todo:
            c = todo.pop(0)
            if c in out:
                continue
            out.append(c)
            for b in c.bases:
                bc = self.find_class(c.mod, b.split('.')[-1])
                if bc:
                    todo.append(bc)
        return out

    def subclasses(self, ci):
        out = []
        for m in self.mods.values():
            for c in m.classes.values():
                if c is not ci and ci in self.mro(c):
                    out.append(c)
        return out

    def find_member(self, ci, name, kinds=('methods', 'props')):
        for c in self.mro(ci):
            for k in kinds:
                if name in getattr(c, k):
                    return c, k
        return None

    def dispatch(self, ci, name):
        """keys of all functions `self.name` can denote: the definition found through the MRO and
        every override in a subclass"""
        keys = []
        hit = self.find_member(ci, name, ('methods',))
        if hit:
            keys.append(self.fkey(hit[0].mod, hit[0].name, name))
        for sc_ in self.subclasses(ci):
            if name in sc_.methods:
                keys.append(self.fkey(sc_.mod, sc_.name, name))
        return keys

    def dc_fields(self, ci):
        fs = []
        for c in reversed(self.mro(ci)):
            if c.dataclass is not None:
                for f in c.fields:
                    if f[0] not in [x[0] for x in fs]:
                        fs.append(f)
        return fs

    def init_key(self, ci):
        hit = self.find_member(ci, '__init__', ('methods',))
        if hit:
            return self.fkey(hit[0].mod, hit[0].name, '__init__')
        if ci.dataclass is not None:
            return self.fkey(ci.mod, ci.name, '__init__')
        return None

    def methods_named(self, name):
        keys = []
        for m in self.mods.values():
            for c in m.classes.values():
                if name in c.methods:
                    keys.append(self.fkey(m, c.name, name))
        return keys

    # ---------------------------------------------------------------- counters
    def new_site(self, ctx, node, kind):
        s = self.n_site
        self.n_site += 1
        self.sites[s] = {'function': ctx.key, 'line': getattr(node, 'lineno', 0), 'kind': kind,
                         'text': ast.unparse(node)[:120]}
        ctx.own_sites.append(s)
        return s

    def new_alloc(self, ctx):
        a = self.n_alloc
        self.n_alloc += 1
        if ctx.loop_depth > 0:
            self.loop_sites.append(a)
        return a

    def global_id(self, name):
        if name not in self.globals:
            if self.n_glob >= 1000:
                raise Unsupported('too many module-level objects')
            self.globals[name] = self.n_glob
            self.n_glob += 1
        return self.globals[name]

    def tmp(self):
        self.n_tmp += 1
        return f'%t{self.n_tmp}'


def cl(items):
    return '[' + '; '.join(items) + ']'


class Ctx:
    def __init__(self, key, mod, cls):
        self.key, self.mod, self.cls = key, mod, cls
        self.locals, self.local_imports = set(), {}
        self.self_name = self.cls_name = None
        self.own_sites, self.callees, self.globals_read = [], set(), set()
        self.loop_depth = 0
        self.pre = []
        self.fn = None
        self.slice_sites = {}


class ExprMixin:
    # ---------------------------------------------------------------- names
    def dotted(self, ctx, node):
        parts = []
        while isinstance(node, ast.Attribute):
            parts.append(node.attr)
            node = node.value
        if not isinstance(node, ast.Name) or node.id in ctx.locals:
            return None
        base = ctx.local_imports.get(node.id) or ctx.mod.aliases.get(node.id)
        if base is None:
            return None
        return '.'.join([base] + parts[::-1])

    def spec_target(self, d):
        """dotted name -> ('func', key) | ('class', ClassInfo) | ('member', ClassInfo, name) | ('module', Module) | None"""
        parts = d.split('.')
        for i in range(len(parts), 0, -1):
            m = self.by_dotted.get('.'.join(parts[:i]))
            if m is None:
                continue
            rest = parts[i:]
            if not rest:
                return ('module', m)
            if len(rest) == 1 and rest[0] in m.funcs:
                return ('func', self.fkey(m, None, rest[0]))
            if rest[0] in m.classes:
                if len(rest) == 1:
                    return ('class', m.classes[rest[0]])
                if len(rest) == 2:
                    return ('member', m.classes[rest[0]], rest[1])
            if len(rest) == 1 and rest[0] in m.globals:
                return ('global', m.key + '.' + rest[0])
            if len(rest) == 1 and rest[0] in m.enum_defs:
                return ('enum', rest[0])
            # a name re-exported from another spec module
            if len(rest) >= 1 and rest[0] in m.aliases:
                return self.spec_target('.'.join([m.aliases[rest[0]]] + rest[1:]))
            return None
        return None

    def name(self, ctx, node):
        n = node.id
        if n in ctx.locals:
            return f'(EVar {cq(n)})'
        if n in BUILTIN_CONSTS:
            return 'ENone'
        if n in ctx.mod.funcs or n in ctx.mod.classes or n in ctx.mod.other_defs:
            return 'ENone'            # function / class objects are immutable values
        if n in ctx.mod.globals:
            g = ctx.mod.key + '.' + n
            ctx.globals_read.add(g)
            return f'(EGlobal {self.global_id(g)})'
        d = ctx.local_imports.get(n) or ctx.mod.aliases.get(n)
        if d is not None:
            t = self.spec_target(d)
            if t and t[0] == 'global':
                ctx.globals_read.add(t[1])
                return f'(EGlobal {self.global_id(t[1])})'
            return 'ENone'            # modules, imported functions, classes, constants
        import builtins
        if hasattr(builtins, n):
            return 'ENone'
        raise Unsupported(f'unknown name {n} (line {node.lineno})')

    # ---------------------------------------------------------------- expressions
    def exprs(self, ctx, nodes):
        return [self.expr(ctx, n) for n in nodes]

    def fresh(self, ctx, subs):
        return f'(EFresh {self.new_alloc(ctx)} {cl(subs)})'

    def expr(self, ctx, node):
        m = getattr(self, 'e_' + type(node).__name__, None)
        if m is None:
            raise Unsupported(f'expression {type(node).__name__} (line {getattr(node, "lineno", "?")})')
        return m(ctx, node)

    def e_Constant(self, ctx, node):
        return 'ENone'

    def e_Name(self, ctx, node):
        return self.name(ctx, node)

    def e_JoinedStr(self, ctx, node):
        subs = [self.expr(ctx, v.value) for v in node.values if isinstance(v, ast.FormattedValue)]
        return f'(EEff {cl(subs)} ENone)' if subs else 'ENone'

    def e_BinOp(self, ctx, node):
        return self.fresh(ctx, [self.expr(ctx, node.left), self.expr(ctx, node.right)])

    def e_UnaryOp(self, ctx, node):
        return self.fresh(ctx, [self.expr(ctx, node.operand)])

    def e_Compare(self, ctx, node):
        return self.fresh(ctx, self.exprs(ctx, [node.left, *node.comparators]))

    def e_BoolOp(self, ctx, node):
        return f'(EUnion {cl(self.exprs(ctx, node.values))})'

    def e_IfExp(self, ctx, node):
        t = self.expr(ctx, node.test)
        return f'(EEff {cl([t])} (EUnion {cl(self.exprs(ctx, [node.body, node.orelse]))}))'

    def e_NamedExpr(self, ctx, node):
        v = self.expr(ctx, node.value)
        ctx.pre.append(f'SAssign {cq(node.target.id)} {v}')
        return f'(EVar {cq(node.target.id)})'

    def e_Lambda(self, ctx, node):
        for n in ast.walk(node.body):
            if not isinstance(n, (ast.Attribute, ast.Name, ast.Constant, ast.Load, ast.BinOp, ast.operator)):
                raise Unsupported(f'lambda with {type(n).__name__} (line {node.lineno})')
        return 'ENone'

    def e_Starred(self, ctx, node):
        return f'(EElem {self.expr(ctx, node.value)})'

    def seq_literal(self, ctx, elts):
        if any(isinstance(e, ast.Starred) for e in elts):
            rest = [self.expr(ctx, e) for e in elts if not isinstance(e, ast.Starred)]
            spread = [self.expr(ctx, e.value) for e in elts if isinstance(e, ast.Starred)]
            return f'(ERecord {self.new_alloc(ctx)} [] {cl(rest)} {cl(spread)})'
        fs = [f'({cq(str(i))}, {self.expr(ctx, e)})' for i, e in enumerate(elts)]
        return f'(ERecord {self.new_alloc(ctx)} {cl(fs)} [] [])'

    def e_Tuple(self, ctx, node):
        return self.seq_literal(ctx, node.elts)

    def e_List(self, ctx, node):
        return self.seq_literal(ctx, node.elts)

    def e_Set(self, ctx, node):
        return f'(ERecord {self.new_alloc(ctx)} [] {cl(self.exprs(ctx, node.elts))} [])'

    def e_Dict(self, ctx, node):
        fs, rest, spread, effs = [], [], [], []
        for k, v in zip(node.keys, node.values):
            if k is None:
                spread.append(self.expr(ctx, v))
            elif isinstance(k, ast.Constant) and isinstance(k.value, str):
                fs.append(f'({cq(k.value)}, {self.expr(ctx, v)})')
            else:
                effs.append(self.expr(ctx, k))
                rest.append(self.expr(ctx, v))
        r = f'(ERecord {self.new_alloc(ctx)} {cl(fs)} {cl(rest)} {cl(spread)})'
        return f'(EEff {cl(effs)} {r})' if effs else r

    # comprehensions are hoisted into statements that fill a fresh container
    def comprehension(self, ctx, node, elt_nodes):
        tmp = self.tmp()
        ctx.locals.add(tmp)
        outer_pre = ctx.pre
        outer_pre.append(f'SAssign {cq(tmp)} (ERecord {self.new_alloc(ctx)} [] [] [])')
        ctx.loop_depth += 1

        def gen(i):
            ctx.pre = []
            if i == len(node.generators):
                vals = self.exprs(ctx, elt_nodes)
                return ctx.pre + [f'SExpr (EMut (EVar {cq(tmp)}) {cl(vals[-1:])})'] if len(vals) == 1 else \
                    ctx.pre + [f'SExpr (EEff {cl(vals[:-1])} (EMut (EVar {cq(tmp)}) {cl(vals[-1:])}))']
            g = node.generators[i]
            it = self.expr(ctx, g.iter)
            head = ctx.pre
            ctx.pre = []
            body = self.assign_target(ctx, g.target, f'(EElem {it})')
            for c in g.ifs:
                ctx.pre = []
                ce = self.expr(ctx, c)
                body += ctx.pre + [f'SExpr {ce}']
            body += gen(i + 1)
            return head + [f'SLoop {cl(body)}']
        for g in node.generators:
            for n in ast.walk(g.target):
                if isinstance(n, ast.Name):
                    ctx.locals.add(n.id)
        stmts = gen(0)
        ctx.loop_depth -= 1
        ctx.pre = outer_pre
        ctx.pre.extend(stmts)
        return f'(EVar {cq(tmp)})'

    def e_ListComp(self, ctx, node):
        return self.comprehension(ctx, node, [node.elt])

    def e_SetComp(self, ctx, node):
        return self.comprehension(ctx, node, [node.elt])

    def e_GeneratorExp(self, ctx, node):
        return self.comprehension(ctx, node, [node.elt])

    def e_DictComp(self, ctx, node):
        return self.comprehension(ctx, node, [node.key, node.value])

    def e_Attribute(self, ctx, node):
        d = self.dotted(ctx, node)
        if d is not None:
            t = self.spec_target(d)
            if t and t[0] == 'global':
                ctx.globals_read.add(t[1])
                return f'(EGlobal {self.global_id(t[1])})'
            root = d.split('.')[0]
            if t is None and root.startswith('scippneutron'):
                # attribute of a repo module that is not analysed: a module-level table
                ctx.globals_read.add(d)
                return f'(EGlobal {self.global_id(d)})'
            return 'ENone'            # constants / functions / classes of imported modules
        if isinstance(node.value, ast.Attribute) and node.value.attr == 'fields' and node.attr in ('x', 'y', 'z'):
            base = self.expr(ctx, node.value.value)
            return f'(EMaybe {self.new_site(ctx, node, "fields")} {self.new_alloc(ctx)} {base} [])'
        if isinstance(node.value, ast.Call) and isinstance(node.value.func, ast.Name) and node.value.func.id == 'super' \
                and ctx.cls is not None:
            for c in self.mro(ctx.cls)[1:]:
                if node.attr in c.props:
                    return self.ecall(ctx, [self.fkey(c.mod, c.name, node.attr)], [('self', f'(EVar {cq(ctx.self_name)})')])
            raise Unsupported(f'super().{node.attr} (line {node.lineno})')
        if isinstance(node.value, ast.Name) and node.value.id == ctx.self_name and ctx.cls is not None:
            hit = self.find_member(ctx.cls, node.attr, ('props',))
            if hit:
                keys = [self.fkey(hit[0].mod, hit[0].name, node.attr)]
                for sc_ in self.subclasses(ctx.cls):
                    if node.attr in sc_.props:
                        keys.append(self.fkey(sc_.mod, sc_.name, node.attr))
                return self.ecall(ctx, keys, [(ctx.self_name if False else 'self', f'(EVar {cq(ctx.self_name)})')])
        base = self.expr(ctx, node.value)
        if node.attr in SCALAR_ATTRS:
            return f'(EEff {cl([base])} ENone)'
        return f'(EField {base} {cq(node.attr)})'

    def e_Subscript(self, ctx, node):
        base = self.expr(ctx, node.value)
        ix = node.slice
        if isinstance(ix, ast.Constant) and isinstance(ix.value, str):
            return f'(EField {base} {cq(ix.value)})'
        if isinstance(ix, ast.Constant) and isinstance(ix.value, int) and not isinstance(ix.value, bool):
            return f'(EField {base} {cq(str(ix.value))})'
        subs = self.index_subs(ctx, ix)
        # one configuration bit per (function, indexed expression): whether indexing THAT object yields views
        gk = ast.unparse(node.value)
        if gk not in ctx.slice_sites:
            ctx.slice_sites[gk] = self.new_site(ctx, node, "slice")
        else:
            self.sites[ctx.slice_sites[gk]]['text'] += ' | ' + ast.unparse(node)[:60]
        return f'(EMaybe {ctx.slice_sites[gk]} {self.new_alloc(ctx)} (ESub {base}) {cl(subs)})'

    def index_subs(self, ctx, ix):
        subs = []
        for n in ([ix] if not isinstance(ix, ast.Tuple) else ix.elts):
            if isinstance(n, ast.Slice):
                subs += [self.expr(ctx, x) for x in (n.lower, n.upper, n.step) if x is not None]
            else:
                subs.append(self.expr(ctx, n))
        return [x for x in subs if x != 'ENone']

    def ctag(self, ci):
        k = f'{ci.mod.key}.{ci.name}'
        if k not in self.ctags:
            self.ctags[k] = len(self.ctags) + 1
        return self.ctags[k]

    def impl_table(self, m, classes=None):
        """[(class, key of the function implementing method m for instances of exactly that class)]"""
        out = []
        for mod in self.mods.values():
            for c in mod.classes.values():
                if classes is not None and c not in classes:
                    continue
                hit = self.find_member(c, m, ('methods',))
                if hit:
                    out.append((c, self.fkey(hit[0].mod, hit[0].name, m)))
        return out

    def emeth(self, ctx, cands, self_expr, args):
        for _, k in cands:
            self.request(k)
            ctx.callees.add(k)
        cs = cl([f'({self.ctag(c)}, {self.fid(k)})' for c, k in cands])
        return f'(EMeth {cs} {self_expr} {cl([f"({cq(p)}, {e})" for p, e in args if p != "self"])})'

    def is_cached(self, key):
        lk = self.lookup(key)
        if lk is None or lk[2] is None:
            return False
        return any(ast.unparse(d).split('(')[0].split('.')[-1] in ('lru_cache', 'cache', 'cached_property')
                   for d in lk[2].decorator_list)

    def ecall(self, ctx, keys, args):
        for k in keys:
            self.request(k)
            ctx.callees.add(k)
        cached = [k for k in keys if self.is_cached(k)]
        if cached:
            # a memoised callee hands out the object stored in its cache: a module-level object
            g = 'cache:' + cached[0]
            ctx.globals_read.add(g)
            call = f'(ECall {cl([self.fid(k) for k in keys])} {cl([f"({cq(p)}, {e})" for p, e in args])})'
            return f'(EUnion [{call}; EGlobal {self.global_id(g)}])'
        return f'(ECall {cl([self.fid(k) for k in keys])} {cl([f"({cq(p)}, {e})" for p, e in args])})'

    def fid(self, key):
        if key not in self.fids:
            self.fids[key] = len(self.fids)
        return f'{self.fids[key]} (*{key}*)'


class CallMixin:
    # ---------------------------------------------------------------- argument matching
    def signature(self, key):
        """-> (positional names, vararg, kwonly names, kwarg) without self/cls for bound members"""
        lk = self.lookup(key)
        if lk is None:
            raise Unsupported(f'no such function {key}')
        mod, ci, fn, kind = lk
        if kind == 'dcinit':
            fs = [f[0] for f in self.dc_fields(ci)]
            if ci.dataclass.get('kw_only') == 'True':
                return [], None, fs, None
            return fs, None, [], None
        a = fn.args
        pos = [x.arg for x in a.posonlyargs + a.args]
        decos = ci.decos.get(fn.name, []) if ci else []
        if ci is not None and 'staticmethod' not in decos:
            pos = pos[1:]
        return pos, (a.vararg.arg if a.vararg else None), [x.arg for x in a.kwonlyargs], (a.kwarg.arg if a.kwarg else None)

    def bind(self, ctx, keys, call, self_expr=None):
        pos, vararg, kwonly, kwarg = self.signature(keys[0])
        out = []
        if self_expr is not None:
            out.append(('self', self_expr))
        free = list(pos)
        var_items, var_spread = [], []
        for a in call.args:
            if isinstance(a, ast.Starred):
                e = self.expr(ctx, a.value)
                for p in free:
                    out.append((p, f'(EElem {e})'))
                free = []
                var_spread.append(e)
            elif free:
                out.append((free.pop(0), self.expr(ctx, a)))
            elif vararg:
                var_items.append(self.expr(ctx, a))
            else:
                raise Unsupported(f'too many positional arguments for {keys[0]} (line {call.lineno})')
        named = set(pos) | set(kwonly)
        given = {p for p, _ in out}
        kw_fields, kw_spread = [], []
        for k in call.keywords:
            if k.arg is None:
                e = self.expr(ctx, k.value)
                for p in sorted(named - given):
                    out.append((p, f'(EElem {e})'))
                kw_spread.append(e)
            elif k.arg in named:
                out.append((k.arg, self.expr(ctx, k.value)))
                given.add(k.arg)
            elif kwarg:
                kw_fields.append(f'({cq(k.arg)}, {self.expr(ctx, k.value)})')
            else:
                raise Unsupported(f'unexpected keyword {k.arg} for {keys[0]} (line {call.lineno})')
        if vararg:
            out.append((vararg, f'(ERecord {self.new_alloc(ctx)} [] {cl(var_items)} {cl(var_spread)})'))
        if kwarg:
            out.append((kwarg, f'(ERecord {self.new_alloc(ctx)} {cl(kw_fields)} [] {cl(kw_spread)})'))
        return out

    def instantiate(self, ctx, ci, call):
        ik = self.init_key(ci)
        if ik is None:
            return self.fresh(ctx, self.all_args(ctx, call))
        args = self.bind(ctx, [ik], call)
        self.request(ik)
        ctx.callees.add(ik)
        return (f'(ENew {self.new_alloc(ctx)} {self.ctag(ci)} {cl([self.fid(ik)])} '
                f'{cl([f"({cq(p)}, {e})" for p, e in args])})')

    def all_args(self, ctx, call, skip=()):
        out = []
        for a in call.args:
            out.append(self.expr(ctx, a.value if isinstance(a, ast.Starred) else a))
        for k in call.keywords:
            if k.arg not in skip:
                out.append(self.expr(ctx, k.value))
        return out

    def kw(self, call, name):
        for k in call.keywords:
            if k.arg == name:
                return k.value
        return None

    def maybe(self, ctx, call, target, flag, kind):
        """target aliases the result iff (flag keyword is the constant False, if a flag is required)"""
        subs = self.all_args(ctx, call)
        if flag is not None:
            v = self.kw(call, flag)
            if v is None or (isinstance(v, ast.Constant) and v.value is not False):
                return self.fresh(ctx, subs + [target])
        return f'(EMaybe {self.new_site(ctx, call, kind)} {self.new_alloc(ctx)} {target} {cl(subs)})'

    def tuple_record(self, ctx, items):
        fs = [f'({cq(str(i))}, {e})' for i, e in enumerate(items)]
        return f'(ERecord {self.new_alloc(ctx)} [] [ERecord {self.new_alloc(ctx)} {cl(fs)} [] []] [])'

    # ---------------------------------------------------------------- primitives by dotted / builtin name
    def prim(self, ctx, d, call):
        out = self.kw(call, 'out')
        if out is not None and (d in FRESH_FUNCS):
            return f'(EOut {self.expr(ctx, out)} {cl(self.all_args(ctx, call, skip=("out",)))})'
        if d in FRESH_FUNCS:
            return self.fresh(ctx, self.all_args(ctx, call))
        if d in MAYBE_FUNCS:
            if not call.args:
                raise Unsupported(f'{d} without positional argument (line {call.lineno})')
            tgt = self.expr(ctx, call.args[0])
            rest = ast.Call(func=call.func, args=call.args[1:], keywords=call.keywords, lineno=call.lineno,
                            col_offset=0, end_lineno=call.lineno, end_col_offset=0)
            site_call = self.maybe(ctx, rest, tgt, MAYBE_FUNCS[d], d)
            if ctx.own_sites and self.sites[ctx.own_sites[-1]]['line'] == call.lineno:
                self.sites[ctx.own_sites[-1]]['text'] = ast.unparse(call)[:120]
            return site_call
        if d in SHALLOW_FUNCS:
            if not call.args:
                fs = [f'({cq(k.arg)}, {self.expr(ctx, k.value)})' for k in call.keywords if k.arg]
                return f'(ERecord {self.new_alloc(ctx)} {cl(fs)} [] [])'
            a0 = call.args[0]
            if isinstance(a0, ast.Call) and isinstance(a0.func, ast.Attribute) and a0.func.attr == 'items' \
                    and not a0.args and d == 'dict':
                a0 = a0.func.value
            src = self.expr(ctx, a0)
            effs = self.all_args(ctx, ast.Call(func=call.func, args=call.args[1:], keywords=call.keywords))
            r = f'(EShallow {self.new_alloc(ctx)} {src})'
            return f'(EEff {cl(effs)} {r})' if effs else r
        if d in ('max', 'min'):
            a = self.all_args(ctx, call)
            return f'(EUnion {cl(a + [f"(EElem {x})" for x in a])})'
        if d == 'next':
            return f'(EMut {self.expr(ctx, call.args[0])} [])'      # advances the iterator (a mutation of it), returns an element
        if d == 'iter':
            return self.expr(ctx, call.args[0])
        if d in ('zip', 'itertools.product'):
            return self.tuple_record(ctx, [f'(EElem {self.expr(ctx, a)})' for a in call.args])
        if d == 'enumerate':
            return self.tuple_record(ctx, ['ENone', f'(EElem {self.expr(ctx, call.args[0])})'])
        if d == 'map':
            f0 = call.args[0]
            fd = f0.id if isinstance(f0, ast.Name) and f0.id not in ctx.locals else None
            if fd in FRESH_FUNCS:
                return self.fresh(ctx, [self.expr(ctx, a) for a in call.args[1:]])
            if fd in ctx.mod.funcs:
                k = self.fkey(ctx.mod, None, fd)
                pos = self.signature(k)[0]
                elt = self.ecall(ctx, [k], [(p, f'(EElem {self.expr(ctx, a)})') for p, a in zip(pos, call.args[1:])])
                return f'(ERecord {self.new_alloc(ctx)} [] {cl([elt])} [])'
            raise Unsupported(f'map over {ast.unparse(f0)} (line {call.lineno})')
        if d == 'getattr':
            return f'(EElem {self.expr(ctx, call.args[0])})'
        if d == 'scipp.DataArray':
            data = call.args[0] if call.args else self.kw(call, 'data')
            fs = [('data', self.expr(ctx, data))]
            for nm in ('coords', 'masks'):
                v = self.kw(call, nm)
                if v is not None:
                    fs.append((nm, self.expr(ctx, v)))
            return f'(ERecord {self.new_alloc(ctx)} {cl([f"({cq(k)}, {v})" for k, v in fs])} [] [])'
        if d == 'scipp.DataGroup':
            if call.args:
                return f'(EShallow {self.new_alloc(ctx)} {self.expr(ctx, call.args[0])})'
            fs = [f'({cq(k.arg)}, {self.expr(ctx, k.value)})' for k in call.keywords if k.arg]
            return f'(ERecord {self.new_alloc(ctx)} {cl(fs)} [] [])'
        raise Unsupported(f'unknown callee {d} (line {call.lineno})')

    # ---------------------------------------------------------------- method calls by name
    def method(self, ctx, call, obj_node, m):
        obj = self.expr(ctx, obj_node)
        alts = []
        if m == 'copy':
            deep = self.kw(call, 'deep')
            if deep is not None and isinstance(deep, ast.Constant) and deep.value is False:
                # x.copy(deep=False) of a scipp object: a new Variable / DataArray over the SAME buffers; a DataArray copy
                # has its OWN coords and masks dicts (adding / deleting a coord of the copy does not touch x) holding the
                # same variables.  Any other attribute of the copy is whatever x holds (rest).
                a, a2, a3 = self.new_alloc(ctx), self.new_alloc(ctx), self.new_alloc(ctx)
                alts.append(f'(ERecord {a} [({cq("data")}, (EField {obj} {cq("data")})); '
                            f'({cq("coords")}, (EShallow {a2} (EField {obj} {cq("coords")}))); '
                            f'({cq("masks")}, (EShallow {a3} (EField {obj} {cq("masks")})))] [(EElem {obj})] [])')
            elif deep is not None and not isinstance(deep, ast.Constant):
                alts.append(f'(EEff [{self.expr(ctx, deep)}] (EShallow {self.new_alloc(ctx)} {obj}))')
            else:
                alts.append(self.fresh(ctx, [obj]))
        elif m == 'items' and not call.args:
            alts.append(self.tuple_record(ctx, ['ENone', f'(EElem {obj})']))
        elif m == 'values' and not call.args:
            alts.append(f'(ERecord {self.new_alloc(ctx)} [] [EElem {obj}] [])')
        elif m == 'get':
            alts.append(f'(EUnion {cl([f"(EElem {obj})"] + self.all_args(ctx, call))})')
        elif m in M_MUT:
            a = self.all_args(ctx, call)
            vals = [f'(EElem {x})' for x in a] if m in ('extend', 'update') else a
            alts.append(f'(EMut {obj} {cl(vals)})')
        elif m in M_MAYBE:
            alts.append(self.maybe(ctx, call, obj, M_MAYBE[m], m))
        elif m in M_FRESH:
            alts.append(self.fresh(ctx, [obj] + self.all_args(ctx, call)))
        cands = self.impl_table(m)
        if alts:
            cands = [(c, k) for c, k in cands if c.mod is ctx.mod]    # same-module classes only
        if cands and m not in M_MUT:
            args = self.bind(ctx, [k for _, k in cands], call, self_expr=obj)
            alts.append(self.emeth(ctx, cands, obj, args))
        if not alts:
            raise Unsupported(f'unknown method .{m}() (line {call.lineno})')
        return alts[0] if len(alts) == 1 else f'(EUnion {cl(alts)})'

    def class_member_call(self, ctx, ci, m, call, self_expr):
        """ci.m(...) through the class (static / class method) or bound to self_expr"""
        hit = self.find_member(ci, m, ('methods',))
        if not hit:
            return None
        decos = hit[0].decos.get(m, [])
        if self_expr is None:
            keys = [self.fkey(hit[0].mod, hit[0].name, m)]
            if 'staticmethod' in decos:
                return self.ecall(ctx, keys, self.bind(ctx, keys, call))
            if 'classmethod' in decos:
                return self.ecall(ctx, keys, self.bind(ctx, keys, call))
            raise Unsupported(f'unbound call of {ci.name}.{m} (line {call.lineno})')
        cands = self.impl_table(m, [ci] + self.subclasses(ci))
        return self.emeth(ctx, cands, self_expr, self.bind(ctx, [k for _, k in cands], call, self_expr=self_expr))

    def e_Call(self, ctx, call):
        f = call.func
        if isinstance(f, ast.Attribute) and isinstance(f.value, ast.Call) and isinstance(f.value.func, ast.Name) \
                and f.value.func.id == 'super':
            base = None
            for c in self.mro(ctx.cls)[1:]:
                if f.attr in c.methods:
                    base = c
                    break
            if base is None:
                return self.fresh(ctx, self.all_args(ctx, call))      # object.__init__ etc.
            keys = [self.fkey(base.mod, base.name, f.attr)]
            return self.ecall(ctx, keys, self.bind(ctx, keys, call, self_expr=f'(EVar {cq(ctx.self_name)})'))
        if isinstance(f, ast.Name):
            n = f.id
            if n in ctx.locals:
                if n == ctx.cls_name and ctx.cls is not None:
                    return self.instantiate(ctx, ctx.cls, call)
                raise Unsupported(f'call of local value {n} (line {call.lineno})')
            if n in ctx.mod.funcs:
                keys = [self.fkey(ctx.mod, None, n)]
                return self.ecall(ctx, keys, self.bind(ctx, keys, call))
            if n in ctx.mod.enum_defs:
                return f'(EEff {cl(self.all_args(ctx, call))} ENone)'
            ci = self.find_class(ctx.mod, n)
            if ci is not None:
                return self.instantiate(ctx, ci, call)
            d = ctx.local_imports.get(n) or ctx.mod.aliases.get(n) or n
            return self.dotted_call(ctx, d, call)
        if isinstance(f, ast.Attribute) and f.attr == '__setattr__' and isinstance(f.value, ast.Name) and f.value.id == 'object' \
                and 'object' not in ctx.locals and len(call.args) == 3 and not call.keywords \
                and isinstance(call.args[1], ast.Constant) and isinstance(call.args[1].value, str):
            # object.__setattr__(ob, 'name', v) (how a frozen dataclass initialises itself): ob.name = v
            val = self.expr(ctx, call.args[2])
            ob = self.expr(ctx, call.args[0])
            ctx.pre.append(f'SSetField {ob} {cq(call.args[1].value)} {val}')
            return 'ENone'
        if isinstance(f, ast.Attribute):
            d = self.dotted(ctx, f)
            if d is not None:
                return self.dotted_call(ctx, d, call)
            v = f.value
            if isinstance(v, ast.Name) and v.id == ctx.self_name and ctx.cls is not None:
                r = self.class_member_call(ctx, ctx.cls, f.attr, call, f'(EVar {cq(v.id)})')
                if r is not None:
                    return r
            if isinstance(v, ast.Name) and v.id not in ctx.locals:
                ci = self.find_class(ctx.mod, v.id)
                if ci is not None:
                    r = self.class_member_call(ctx, ci, f.attr, call, None)
                    if r is not None:
                        return r
            if isinstance(v, ast.Name) and v.id == ctx.cls_name and ctx.cls is not None:
                r = self.class_member_call(ctx, ctx.cls, f.attr, call, None)
                if r is not None:
                    return r
            if f.attr in CALLABLE_ATTRS:
                cname, mname = CALLABLE_ATTRS[f.attr].split('.')
                for mod in self.mods.values():
                    if cname in mod.classes:
                        base = mod.classes[cname]
                        cands = self.impl_table(mname, [base] + self.subclasses(base))
                        obj = self.expr(ctx, f)
                        return self.emeth(ctx, cands, obj, self.bind(ctx, [k for _, k in cands], call, self_expr=obj))
            return self.method(ctx, call, v, f.attr)
        if isinstance(f, ast.Subscript) and isinstance(f.value, ast.Name) and f.value.id in ctx.locals:
            table = [n for n in ast.walk(ctx.fn) if isinstance(n, ast.Assign) and len(n.targets) == 1
                     and isinstance(n.targets[0], ast.Name) and n.targets[0].id == f.value.id]
            if len(table) == 1 and isinstance(table[0].value, ast.Dict):
                keys = []
                for v in table[0].value.values:
                    d = self.dotted(ctx, v) if isinstance(v, ast.Attribute) else None
                    t = self.spec_target(d) if d else None
                    if not t or t[0] != 'func':
                        raise Unsupported(f'call through table with entry {ast.unparse(v)} (line {call.lineno})')
                    keys.append(t[1])
                sub = self.index_subs(ctx, f.slice)
                r = self.ecall(ctx, keys, self.bind(ctx, keys, call))
                return f'(EEff {cl(sub)} {r})' if sub else r
        raise Unsupported(f'call of {type(f).__name__} (line {call.lineno})')

    def dotted_call(self, ctx, d, call):
        t = self.spec_target(d)
        if t is not None:
            if t[0] == 'func':
                return self.ecall(ctx, [t[1]], self.bind(ctx, [t[1]], call))
            if t[0] == 'class':
                return self.instantiate(ctx, t[1], call)
            if t[0] == 'enum':
                # Enum(value): the (immutable, module-level) member with that value; the arguments are only read
                return f'(EEff {cl(self.all_args(ctx, call))} ENone)'
            if t[0] == 'member':
                r = self.class_member_call(ctx, t[1], t[2], call, None)
                if r is not None:
                    return r
        return self.prim(ctx, d, call)


class StmtMixin:
    def flush(self, ctx):
        p, ctx.pre = ctx.pre, []
        return p

    def assign_target(self, ctx, t, val):
        """statements storing the value expression `val` (Coq text) into target node t"""
        if isinstance(t, ast.Name):
            ctx.locals.add(t.id)
            return [f'SAssign {cq(t.id)} {val}']
        if isinstance(t, (ast.Tuple, ast.List)):
            tmp = self.tmp()
            ctx.locals.add(tmp)
            out = [f'SAssign {cq(tmp)} {val}']
            star = any(isinstance(e, ast.Starred) for e in t.elts)
            for i, e in enumerate(t.elts):
                if isinstance(e, ast.Starred):
                    out += self.assign_target(ctx, e.value, f'(ERecord {self.new_alloc(ctx)} [] [] [EVar {cq(tmp)}])')
                elif star and i > 0:
                    out += self.assign_target(ctx, e, f'(EElem (EVar {cq(tmp)}))')
                else:
                    out += self.assign_target(ctx, e, f'(EField (EVar {cq(tmp)}) {cq(str(i))})')
            return out
        if isinstance(t, ast.Attribute):
            if isinstance(t.value, ast.Name) and t.value.id == ctx.self_name and ctx.cls is not None:
                hit = self.find_member(ctx.cls, t.attr, ('setters',))
                if hit:
                    k = self.fkey(hit[0].mod, hit[0].name, 'set:' + t.attr)
                    pname = hit[0].setters[t.attr].args.args[1].arg
                    return [f'SExpr {self.ecall(ctx, [k], [("self", f"(EVar {cq(ctx.self_name)})"), (pname, val)])}']
            ob = self.expr(ctx, t.value)
            own = isinstance(t.value, ast.Name) and t.value.id == ctx.self_name and ctx.cls is not None
            if t.attr in BUFFER_ATTRS and not own:       # (self.value = ... of an analysed class is an ordinary attribute)
                return self.flush(ctx) + [f'SAug {ob} {val}']
            return self.flush(ctx) + [f'SSetField {ob} {cq(t.attr)} {val}']
        if isinstance(t, ast.Subscript):
            ob = self.expr(ctx, t.value)
            ix = t.slice
            # a class of this module with its own __setitem__ may be the receiver
            user = [(c, k) for c, k in self.impl_table('__setitem__') if c.mod is ctx.mod]
            extra = []
            if user:
                pos = self.signature(user[0][1])[0]
                extra = [f'SExpr {self.emeth(ctx, user, ob, [(pos[-1], val)])}']
            if isinstance(ix, ast.Constant) and isinstance(ix.value, str):
                return self.flush(ctx) + [f'SSetField {ob} {cq(ix.value)} {val}'] + extra
            effs = self.index_subs(ctx, ix)
            pre = self.flush(ctx)
            return pre + ([f'SExpr (EEff {cl(effs)} ENone)'] if effs else []) + [f'SSetElem {ob} {val}'] + extra
        raise Unsupported(f'assignment target {type(t).__name__} (line {t.lineno})')

    def block(self, ctx, stmts):
        out = []
        for s in stmts:
            m = getattr(self, 's_' + type(s).__name__, None)
            if m is None:
                raise Unsupported(f'statement {type(s).__name__} (line {s.lineno})')
            body = m(ctx, s)
            out += self.flush(ctx) if False else []
            out += body
        return out

    def with_pre(self, ctx, stmts):
        return self.flush(ctx) + stmts

    def s_Expr(self, ctx, s):
        if isinstance(s.value, ast.Constant):
            return []
        e = self.expr(ctx, s.value)
        return self.with_pre(ctx, [f'SExpr {e}'])

    def s_Pass(self, ctx, s):
        return []

    s_Break = s_Continue = s_Assert = s_Pass

    def s_Raise(self, ctx, s):
        return []

    def s_Import(self, ctx, s):
        for a in s.names:
            ctx.local_imports[a.asname or a.name.split('.')[0]] = a.name if a.asname else a.name.split('.')[0]
        return []

    def s_ImportFrom(self, ctx, s):
        pkg = ctx.mod.dotted.split('.')
        base = pkg if ctx.mod.path.endswith('__init__.py') else pkg[:-1]
        if s.level:
            base = base[:len(base) - (s.level - 1)]
            m = '.'.join(base + ([s.module] if s.module else []))
        else:
            m = s.module
        for a in s.names:
            ctx.local_imports[a.asname or a.name] = m + '.' + a.name
        return []

    def s_Return(self, ctx, s):
        if s.value is None:
            return []
        e = self.expr(ctx, s.value)
        return self.with_pre(ctx, [f'SReturn {e}'])

    def s_Assign(self, ctx, s):
        v = self.expr(ctx, s.value)
        pre = self.flush(ctx)
        if len(s.targets) == 1:
            return pre + self.assign_target(ctx, s.targets[0], v)
        tmp = self.tmp()
        ctx.locals.add(tmp)
        out = pre + [f'SAssign {cq(tmp)} {v}']
        for t in s.targets:
            out += self.assign_target(ctx, t, f'(EVar {cq(tmp)})')
        return out

    def s_AnnAssign(self, ctx, s):
        if s.value is None:
            return []
        v = self.expr(ctx, s.value)
        return self.flush(ctx) + self.assign_target(ctx, s.target, v)

    def s_AugAssign(self, ctx, s):
        rhs = self.expr(ctx, s.value)
        t = s.target
        if isinstance(t, ast.Name):
            if t.id not in ctx.locals:
                raise Unsupported(f'augmented assignment to non-local {t.id} (line {s.lineno})')
            return self.with_pre(ctx, [f'SAug (EVar {cq(t.id)}) {rhs}'])
        cur = self.expr(ctx, t)
        out = self.flush(ctx) + [f'SAug {cur} {rhs}']
        return out + self.assign_target(ctx, t, cur)       # obj.a op= v also stores into obj

    def s_Delete(self, ctx, s):
        out = []
        for t in s.targets:
            if isinstance(t, ast.Name):
                continue
            if isinstance(t, ast.Subscript):
                out += self.with_pre(ctx, [f'SExpr (EMut {self.expr(ctx, t.value)} [])'])
            elif isinstance(t, ast.Attribute):
                out += self.with_pre(ctx, [f'SSetField {self.expr(ctx, t.value)} {cq(t.attr)} ENone'])
            else:
                raise Unsupported(f'del {type(t).__name__} (line {s.lineno})')
        return out

    def s_If(self, ctx, s):
        t = self.expr(ctx, s.test)
        pre = self.flush(ctx)
        a = self.block(ctx, s.body)
        b = self.block(ctx, s.orelse)
        return pre + [f'SExpr {t}', f'SIf {cl(a)} {cl(b)}']

    def loop(self, ctx, head_stmts, body_nodes, orelse):
        ctx.loop_depth += 1
        body = head_stmts() + self.block(ctx, body_nodes)
        ctx.loop_depth -= 1
        return [f'SLoop {cl(body)}'] + self.block(ctx, orelse)

    def s_For(self, ctx, s):
        it = self.expr(ctx, s.iter)
        pre = self.flush(ctx)
        for n in ast.walk(s.target):
            if isinstance(n, ast.Name):
                ctx.locals.add(n.id)
        is_range = isinstance(s.iter, ast.Call) and isinstance(s.iter.func, ast.Name) and s.iter.func.id == 'range'
        val = 'ENone' if is_range else f'(EElem {it})'
        return pre + ([f'SExpr {it}'] if is_range else []) + \
            self.loop(ctx, lambda: self.assign_target(ctx, s.target, val), s.body, s.orelse)

    def s_While(self, ctx, s):
        def head():
            t = self.expr(ctx, s.test)
            return self.flush(ctx) + [f'SExpr {t}']
        return self.loop(ctx, head, s.body, s.orelse)

    def s_With(self, ctx, s):
        out = []
        for it in s.items:
            e = self.expr(ctx, it.context_expr)
            out += self.flush(ctx)
            out += self.assign_target(ctx, it.optional_vars, e) if it.optional_vars is not None else [f'SExpr {e}']
        return out + self.block(ctx, s.body)

    def s_Try(self, ctx, s):
        out = self.block(ctx, s.body)
        for h in s.handlers:
            if h.name:
                ctx.locals.add(h.name)
            hb = ([f'SAssign {cq(h.name)} (EFresh {self.new_alloc(ctx)} [])'] if h.name else []) + self.block(ctx, h.body)
            out.append(f'SIf {cl(hb)} []')
        out += self.block(ctx, s.orelse) + self.block(ctx, s.finalbody)
        return out

    def s_Match(self, ctx, s):
        subj = self.expr(ctx, s.subject)
        out = self.flush(ctx) + [f'SExpr {subj}']
        alts = []
        for c in s.cases:
            for n in ast.walk(c.pattern):
                if isinstance(n, (ast.MatchAs, ast.MatchStar)) and n.name:
                    raise Unsupported(f'capture pattern (line {s.lineno})')
            alts.append(self.block(ctx, c.body))
        acc = '[]'
        for a in reversed(alts):
            acc = cl([f'SIf {cl(a)} {acc}'])
        return out + [acc[1:-1]] if alts else out


class Translator(Gen, ExprMixin, CallMixin, StmtMixin):
    def param_kind(self, arg, first_bound):
        if first_bound == 'self':
            return 'PBlob'
        if first_bound == 'cls':
            return 'PScalar'
        if arg.annotation is None:
            return 'PBlob'
        t = ast.unparse(arg.annotation)
        if 'DataArray' in t or 'Dataset' in t:
            return 'PDA'
        words = set(w for w in ''.join(c if c.isalnum() or c == '_' else ' ' for c in t).split())
        quoted = {n.value for n in ast.walk(arg.annotation) if isinstance(n, ast.Constant) and isinstance(n.value, str)}
        if words - quoted <= SCALAR_ANN | {'typing'}:
            return 'PScalar'
        return 'PBlob'

    @staticmethod
    def immutable_default(d):
        if d is None:
            return True
        for n in ast.walk(d):
            if isinstance(n, (ast.List, ast.Dict, ast.Set, ast.Call, ast.ListComp, ast.DictComp, ast.SetComp)):
                return False
        return True

    def translate_function(self, key):
        lk = self.lookup(key)
        if lk is None:
            raise Unsupported(f'function {key} not found in the source')
        mod, ci, fn, kind = lk
        ctx = Ctx(key, mod, ci)
        if kind == 'new':
            ik = self.init_key(ci)
            if ik is None:
                raise Unsupported(f'class {ci.name} has no analysable __init__')
            pos, vararg, kwonly, kwarg = self.signature(ik)
            if vararg or kwarg:
                raise Unsupported(f'constructor of {ci.name} with *args / **kwargs')
            params = [(p, 'PBlob') for p in pos + kwonly]
            for p, _ in params:
                ctx.locals.add(p)
            self.request(ik)
            ctx.callees.add(ik)
            args = cl([f'({cq(p)}, (EVar {cq(p)}))' for p, _ in params])
            body = [f'SReturn (ENew {self.new_alloc(ctx)} {self.ctag(ci)} {cl([self.fid(ik)])} {args})']
            decos, line = [], ci.node.lineno
        elif kind == 'dcinit':
            fs = self.dc_fields(ci)
            ctx.self_name = 'self'
            params = [('self', 'PBlob')] + [(f[0], 'PBlob') for f in fs]
            body = [f'SSetField (EVar {cq("self")}) {cq(f[0])} (EVar {cq(f[0])})' for f in fs]
            post = self.find_member(ci, '__post_init__', ('methods',))
            if post:
                k = self.fkey(post[0].mod, post[0].name, '__post_init__')
                ctx.locals.add('self')
                body.append(f'SExpr {self.ecall(ctx, [k], [("self", "(EVar " + cq("self") + ")")])}')
            decos, line = [], ci.node.lineno
        else:
            decos = [ast.unparse(d) for d in fn.decorator_list]
            ctx.fn = fn
            a = fn.args
            allp = a.posonlyargs + a.args + ([a.vararg] if a.vararg else []) + a.kwonlyargs + ([a.kwarg] if a.kwarg else [])
            for dflt in list(a.defaults) + list(a.kw_defaults):
                if not self.immutable_default(dflt):
                    raise Unsupported(f'mutable default argument (line {fn.lineno})')
            for n in ast.walk(fn):
                if isinstance(n, (ast.Yield, ast.YieldFrom, ast.Global, ast.Nonlocal, ast.Await)):
                    raise Unsupported(f'{type(n).__name__} (line {n.lineno})')
                if isinstance(n, (ast.FunctionDef, ast.AsyncFunctionDef, ast.ClassDef)) and n is not fn:
                    raise Unsupported(f'nested definition {n.name} (line {n.lineno})')
            params = []
            for i, p in enumerate(allp):
                fb = None
                if ci is not None and i == 0 and 'staticmethod' not in decos:
                    fb = 'cls' if 'classmethod' in decos else 'self'
                    if fb == 'self':
                        ctx.self_name = p.arg
                    else:
                        ctx.cls_name = p.arg
                name = 'self' if fb == 'self' else p.arg
                params.append((name, self.param_kind(p, fb)))
                ctx.locals.add(p.arg)
            if ctx.self_name and ctx.self_name != 'self':
                raise Unsupported('first parameter of a method must be called self')
            for n in ast.walk(fn):
                if isinstance(n, ast.Name) and isinstance(n.ctx, (ast.Store, ast.Del)):
                    ctx.locals.add(n.id)
                elif isinstance(n, ast.ExceptHandler) and n.name:
                    ctx.locals.add(n.name)
            body = self.block(ctx, fn.body)
            line = fn.lineno
        self.funs[key] = {'coq': ident(key), 'params': params, 'body': body, 'own_sites': ctx.own_sites,
                          'callees': sorted(ctx.callees), 'globals': sorted(ctx.globals_read), 'decorators': decos,
                          'line': line, 'module': mod.key, 'class': ci.name if ci else None}

    # ---------------------------------------------------------------- output
    def closure(self, key, what):
        seen, todo, out = set(), [key], []
        while todo:
            k = todo.pop()
            if k in seen or k not in self.funs:
                continue
            seen.add(k)
            out += self.funs[k][what]
            todo += self.funs[k]['callees']
        return sorted(set(out))

    def reaches_failed(self, key):
        seen, todo = set(), [key]
        while todo:
            k = todo.pop()
            if k in self.failed:
                return k
            if k in seen or k not in self.funs:
                continue
            seen.add(k)
            todo += self.funs[k]['callees']
        return None

    def emit(self, out_dir):
        lines = ['(* GENERATED by tools/alias2coq.py from the current source - do not edit *)',
                 'From Coq Require Import List String NArith.', 'From Verif.C09 Require Import Alias.',
                 'Import ListNotations.', 'Open Scope string_scope.', 'Open Scope N_scope.', '']
        for key in sorted(self.funs):
            f = self.funs[key]
            f['sites'] = self.closure(key, 'own_sites')
            f['globals_closure'] = self.closure(key, 'globals')
            ps = cl([f'({cq(n)}, {k})' for n, k in f['params']])
            body = '[\n    ' + ';\n    '.join(f['body']) + ']' if f['body'] else '[]'
            al = cl([cq(x) for x in self.allowed.get(key, [])])
            lines.append(f'Definition {f["coq"]} : fundef := mkfun {self.fid(key)} {cq_(key)} {ps}\n  {body}\n  {cl(map(str, f["sites"]))} {al}.\n')
        lines.append('Definition PROG : list fundef := ' + cl([self.funs[k]['coq'] for k in sorted(self.funs)]) + '.')
        lines.append('Definition LOOPSITES : ids := ' + cl(map(str, self.loop_sites)) + '.')
        with open(os.path.join(out_dir, 'GenAlias.v'), 'w') as fh:
            fh.write('\n'.join(lines) + '\n')
        classes = {}
        for m in self.mods.values():
            for c in m.classes.values():
                classes[f'{m.key}.{c.name}'] = {
                    'dataclass': c.dataclass, 'fields': c.fields, 'properties': sorted(c.props),
                    'setters': sorted(c.setters), 'methods': sorted(c.methods), 'bases': c.bases}
        rep = {'functions': {k: {x: v[x] for x in ('coq', 'params', 'own_sites', 'sites', 'callees', 'globals',
                                                    'globals_closure', 'decorators', 'line', 'module', 'class')}
                             for k, v in self.funs.items()},
               'failed': self.failed, 'sites': self.sites, 'globals': self.globals, 'classes': classes,
               'loop_sites': self.loop_sites, 'names': NAMES, 'fids': self.fids, 'class_tags': self.ctags,
               'depends_on_failed': {k: self.reaches_failed(k) for k in self.funs if self.reaches_failed(k)}}
        with open(os.path.join(out_dir, 'alias_report.json'), 'w') as fh:
            json.dump(rep, fh, indent=1)
        return rep


def main(argv):
    spec = json.load(open(argv[1]))
    g = Translator(spec)
    g.run(spec['roots'])
    rep = g.emit(argv[2])
    print('ALIAS2COQ ' + json.dumps({'functions': len(rep['functions']), 'failed': rep['failed'],
                                     'sites': len(rep['sites'])}))
    return 0


if __name__ == '__main__':
    sys.setrecursionlimit(10000)
    sys.exit(main(sys.argv))
