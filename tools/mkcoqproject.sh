#!/bin/sh
# _CoqProject lists every static .v file under /verif/coq (coqdep orders them)
cd "$(dirname "$0")/../coq" || exit 1
{ echo "-Q . Verif"; find . -name '*.v' | sed 's|^\./||' | sort; } > _CoqProject
coq_makefile -f _CoqProject -o Makefile > /dev/null
