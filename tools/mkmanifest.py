#!/usr/bin/env python3
"""Regenerates MANIFEST.json from props/*.py (the single source of what is claimed)."""
import importlib, json, os, sys
V = os.path.dirname(os.path.dirname(os.path.abspath(__file__)))
sys.path.insert(0, os.path.join(V, 'props')); sys.path.insert(0, os.path.join(V, 'lib'))
props = json.loads('[' + ','.join(l for l in open(os.path.join(V, 'properties.jsonl')) if l.strip()) + ']')
# properties whose check has been integrated and validated on the unchanged tree by the coordinator
CLAIMED = ['C01', 'C02', 'C03', 'C04', 'C05', 'C06', 'C07', 'C08', 'C09', 'C10', 'C11', 'C12', 'C13', 'C14', 'C15', 'C16', 'C17', 'C18', 'C19', 'C20']
checks, na = [], []
for p in props:
    pid = p['id']
    if pid in CLAIMED and os.path.exists(os.path.join(V, 'props', pid + '.py')):
        m = importlib.import_module(pid)
        if getattr(m, 'CLAIMED', True):
            checks.append({
                'property_id': pid,
                'quick_cmd': f'./check {pid} --tier quick',
                'thorough_cmd': f'./check {pid} --tier thorough',
                'evidence_file': f'/verif/evidence/{pid}.json',
                'replay_cmd_template': f'./check {pid} --replay {{path}}',
                'engine': 'coq',
                'level_claimed': {'category': m.LEVEL, 'text': m.LEVEL_TEXT, 'design_ref': f'DESIGN.md section 4 ({pid})'},
                'level_note': m.LEVEL_NOTE,
                'technique': m.TECHNIQUE,
            })
            continue
        na.append({'property_id': pid, 'reason': m.NA_REASON})
    else:
        na.append({'property_id': pid, 'reason': 'machine-checked model not built yet in this round (see DESIGN.md section 8); no claim is made'})
man = {
    'version': 1,
    'setup_cmd': 'cd /verif && sh tools/mkcoqproject.sh && cd coq && (make -k -j16 ; true)',
    'hooks': {'guard': 'SCIPPNEUTRON_VERIF', 'enable': 'no source hooks are needed: the harness observes public return values, bytes and exceptions; checks set SCIPPNEUTRON_VERIF=1 and PYTHONPATH=/repo/src',
              'baseline_off_cmd': 'cd /repo && /venv/bin/python -m pytest -ra -q -p no:cacheprovider --timeout=900 --continue-on-collection-errors',
              'source_commits': [], 'add_only': True},
    'engines': [{'name': 'coq', 'path': '/verif/coq', 'serves_properties': [c['property_id'] for c in checks],
                 'kind_free_text': 'Coq 8.16.1 development: semantic layer (coq/Sem), specifications and proofs (coq/Cxx), obligations re-proved on terms regenerated from /repo by tools/py2coq.py on every run (coq-run/Cxx), correspondence cases evaluated by vm_compute'}],
    'checks': checks,
    'not_applicable': na,
    'notes': 'single entry point ./check <id> [--tier quick|thorough] [--replay file]; known_findings.txt lists recorded findings and fixes',
}
json.dump(man, open(os.path.join(V, 'MANIFEST.json'), 'w'), indent=1)
print('claimed:', [c['property_id'] for c in checks], 'unclaimed:', len(na))
