#!/bin/sh
# audit.sh [Cxx ...] : independent re-check (coqchk) of the property theorems of the given properties
# (default: all).  Needs build/Cxx/ of a previous `./check Cxx` run (the regenerated modules and the
# compiled Properties*.vo); do not run a check of the same property at the same time.  For each property
# coqchk re-checks Properties*.vo AND everything it depends on (the static library, the regenerated modules, the
# Coq standard library and add-ons) and prints, with -o, the axioms the whole closure relies on.
# Output: notes/audit/Cxx.txt (committed; not evidence).  Minutes to tens of minutes and up to 4 GB per
# property (vm_compute-heavy proofs are re-evaluated by coqchk's own interpreter); not part of the per-change checks.
cd "$(dirname "$0")/.." || exit 2
mkdir -p notes/audit
[ $# -eq 0 ] && set -- C01 C02 C03 C04 C05 C06 C07 C08 C09 C10 C11 C12 C13 C14 C15 C16 C17 C18 C19 C20
rc=0
for p in "$@"; do
  b=build/$p
  mods=$(cd $b 2>/dev/null && ls Properties*.vo 2>/dev/null | sed 's/\.vo$//; s/^/Run./' | tr '\n' ' ')
  if [ -z "$mods" ]; then echo "$p: no build/$p/Properties*.vo (run ./check $p first)"; rc=1; continue; fi
  out=notes/audit/$p.txt
  t0=$(date +%s)
  ( ulimit -s unlimited; timeout ${AUDIT_TIMEOUT:-2400} coqchk -silent -o -Q coq Verif -Q $b Run $mods > $out.tmp 2>&1 )
  st=$?
  t1=$(date +%s)
  if [ $st -eq 0 ] && ! grep -q "Fatal Error\|Error:" $out.tmp; then
    { echo "# coqchk -silent -o -Q coq Verif -Q $b Run $mods   ($(coqchk -v 2>&1 | head -1)); exit 0 after $((t1-t0)) s"
      grep -v '^$' $out.tmp | grep -vi conda; } > $out
    rm -f $out.failed
    echo "$p: checked in $((t1-t0)) s ($(grep -c '^    [A-Za-z]' $out) axiom lines)"
  else
    { echo "# coqchk exit status $st after $((t1-t0)) s (124 = time limit ${AUDIT_TIMEOUT:-2400} s)"; tail -5 $out.tmp; } > $out.failed
    echo "$p: coqchk did not succeed (status $st), see $out.failed"; rc=1
  fi
  rm -f $out.tmp
done
exit $rc
