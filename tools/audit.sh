#!/bin/sh
# audit.sh [Cxx ...] : independent re-check (coqchk) of the property theorems of the given properties
# (default: all).  Needs build/Cxx/ of a previous `./check Cxx` run (the regenerated modules and the
# compiled Properties*.vo).  For each property coqchk re-checks Properties*.vo AND everything it depends on
# (the static library, the regenerated modules, the Coq standard library and add-ons) and prints, with -o,
# the axioms the whole closure relies on.  Output: notes/audit/Cxx.txt (committed; not evidence).
# About 1-3 minutes and up to 4 GB per property; not part of the per-change checks.
cd "$(dirname "$0")/.." || exit 2
mkdir -p notes/audit
[ $# -eq 0 ] && set -- C01 C02 C03 C04 C05 C06 C07 C08 C09 C10 C11 C12 C13 C14 C15 C16 C17 C18 C19 C20
rc=0
for p in "$@"; do
  b=build/$p
  mods=$(cd $b 2>/dev/null && ls Properties*.vo 2>/dev/null | sed 's/\.vo$//; s/^/Run./' | tr '\n' ' ')
  if [ -z "$mods" ]; then echo "$p: no build/$p/Properties*.vo (run ./check $p first)"; rc=1; continue; fi
  out=notes/audit/$p.txt
  { echo "# coqchk -silent -o -Q coq Verif -Q $b Run $mods   ($(coqchk -v 2>&1 | head -1))"
    ( ulimit -s unlimited; timeout ${AUDIT_TIMEOUT:-2400} coqchk -silent -o -Q coq Verif -Q $b Run $mods 2>&1 ) | grep -v '^$' | grep -vi conda
    echo "# exit=$?"; } > $out.tmp
  if grep -q "Modules were successfully checked" $out.tmp; then
    # keep the summary only: context, axioms, flags
    sed -n '1p;/CONTEXT SUMMARY/,$p' $out.tmp > $out; echo "$p: checked ($(grep -c '^    [A-Za-z]' $out) axiom lines)"
  else
    mv $out.tmp $out.failed; echo "$p: coqchk FAILED, see $out.failed"; rc=1
  fi
  rm -f $out.tmp
done
exit $rc
