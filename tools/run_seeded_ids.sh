#!/bin/bash
# run_seeded_ids.sh <id>... : run the given seeded changes (e.g. C03-4 C03-5 C10-4), one lane per property in
# parallel (at most $LANES lanes, default 5); results (VIOLATION / violation lines) in /tmp/seedres/<id>.txt
mkdir -p /tmp/seedres
LANES=${LANES:-5}
lane() {
  prop=$1; shift
  for id in "$@"; do
    sh /verif/tools/run_seeded.sh $prop /verif/seeded/$id 12 > /tmp/seedres/$id.txt 2>&1
  done
  git -C /repo worktree remove --force /tmp/mutrepo_$prop 2>/dev/null
}
props=$(for id in "$@"; do echo ${id%-*}; done | sort -u)
n=0
for prop in $props; do
  ids=$(for id in "$@"; do [ "${id%-*}" = "$prop" ] && echo $id; done)
  lane $prop $ids &
  n=$((n+1))
  if [ $n -ge $LANES ]; then wait -n 2>/dev/null || wait; n=$((n-1)); fi
done
wait
