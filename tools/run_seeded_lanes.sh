#!/bin/sh
# run_seeded_lanes.sh <prop>... : for each property (in parallel) run every seeded/<prop>-k against ./check <prop>;
# results in /tmp/seedres/<id>.txt; scratch worktrees are removed at the end
mkdir -p /tmp/seedres
for prop in "$@"; do
  ( for d in /verif/seeded/$prop-*; do
      id=$(basename $d)
      sh /verif/tools/run_seeded.sh $prop $d 6 > /tmp/seedres/$id.txt 2>&1
    done
    git -C /repo worktree remove --force /tmp/mutrepo_$prop 2>/dev/null ) &
done
wait
