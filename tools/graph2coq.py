#!/usr/bin/env python3
"""graph2coq — fail-closed translator for property C02.

Re-emits, from the CURRENT source of a scippneutron checkout, as ONE Coq value
`prog : Verif.C02.Syntax.program`:

  * the decision functions of core/conversions.py reachable from the roots
    (convert, deduce_conversion_graph, conversion_graph) and every function /
    module-level table of conversion/graph/{tof,beamline}.py they reach, as
    terms of the GPy syntax of coq/C02/Syntax.v (syntax only — all meaning is
    given by the interpreter of coq/C02/Model.v);
  * for every kernel of conversion/{tof,beamline}.py that those tables name:
    its PARAMETER LIST taken from its `def` (scipp derives the dependencies of
    a graph node from exactly that).

Names are resolved statically: parameters / assigned names / comprehension
variables are locals; module-level functions and tables become
"<module>.<name>" globals; attribute chains rooted at an imported module
alias are followed through the package's files; a fixed list of builtins is
admitted.  Anything outside the subset aborts with a message (exit 2) — the
check then reports the obligation `pre_build` as broken.

Usage: graph2coq.py <repo> <out.v>        prints  GRAPH2COQ <json report>
"""
import ast
import hashlib
import json
import os
import sys

PKG = 'scippneutron'
# module -> short prefix used in the Coq names; kind 'code' = translated, 'kernels' = parameter lists only
MODULES = {
    'scippneutron.core.conversions': ('conv', 'code'),
    'scippneutron.conversion.graph.tof': ('graph.tof', 'code'),
    'scippneutron.conversion.graph.beamline': ('graph.beamline', 'code'),
    'scippneutron.conversion.tof': ('tof', 'kernels'),
    'scippneutron.conversion.beamline': ('beamline', 'kernels'),
}
ROOTS = [('scippneutron.core.conversions', n) for n in ('convert', 'deduce_conversion_graph', 'conversion_graph',
                                                         '_deduce_energy_mode')]
BUILTINS = {'dict', 'len', 'any', 'isinstance', 'str', 'tuple', 'list', 'RuntimeError', 'KeyError', 'ValueError',
            'TypeError'}
MUTATORS = {'update', 'pop', 'popitem', 'clear', 'setdefault', '__setitem__', '__delitem__'}
CMP = {ast.Eq: 'CEq', ast.NotEq: 'CNe', ast.In: 'CIn', ast.NotIn: 'CNotIn', ast.Lt: 'CLt', ast.LtE: 'CLe',
       ast.Gt: 'CGt', ast.GtE: 'CGe'}


class Unsupported(Exception):
    pass


def coq_string(s):
    for c in s:
        if ord(c) > 126 or ord(c) < 32:
            raise Unsupported(f'non printable-ASCII character {c!r} in a string literal')
    return '"' + s.replace('"', '""') + '"'


def coq_list(items):
    return '[' + '; '.join(items) + ']'


class Module:
    def __init__(self, repo, dotted):
        self.dotted = dotted
        self.prefix, self.kind = MODULES[dotted]
        rel = os.path.join('src', *dotted.split('.')) + '.py'
        self.path = os.path.join(repo, rel)
        self.rel = rel
        self.src = open(self.path, encoding='utf-8').read()
        self.sha = hashlib.sha256(self.src.encode()).hexdigest()
        self.tree = ast.parse(self.src)
        self.funcs, self.consts, self.aliases = {}, {}, {}
        for st in self.tree.body:
            if isinstance(st, ast.FunctionDef):
                self._define(st.name)
                self.funcs[st.name] = st
            elif isinstance(st, ast.Assign) and len(st.targets) == 1 and isinstance(st.targets[0], ast.Name):
                self._define(st.targets[0].id)
                self.consts[st.targets[0].id] = st.value
            elif isinstance(st, ast.Import):
                for a in st.names:
                    self.aliases[a.asname or a.name.split('.')[0]] = ('abs', a.name if a.asname else a.name.split('.')[0])
            elif isinstance(st, ast.ImportFrom):
                base = self._resolve_from(st.module, st.level)
                for a in st.names:
                    self.aliases[a.asname or a.name] = ('from', base, a.name)
            elif isinstance(st, ast.Expr) and isinstance(st.value, ast.Constant) and isinstance(st.value.value, str):
                pass
            elif self.kind == 'code':
                raise Unsupported(f'{rel}:{st.lineno}: module-level statement {type(st).__name__} '
                                  f'(tables could be modified at import time)')
        if self.kind == 'code':
            self._check_no_table_mutation()

    def _define(self, name):
        if name in self.funcs or name in self.consts:
            raise Unsupported(f'{self.rel}: {name} is defined twice at module level')

    def _resolve_from(self, module, level):
        if level == 0:
            return module
        parts = self.dotted.split('.')[:-level]       # package of this module, then up
        return '.'.join(parts + (module.split('.') if module else []))

    def _check_no_table_mutation(self):
        tables = set(self.consts)

        def root(e):
            while isinstance(e, ast.Subscript):
                e = e.value
            return e.id if isinstance(e, ast.Name) else None
        for node in ast.walk(self.tree):
            if isinstance(node, ast.Subscript) and isinstance(node.ctx, ast.Store | ast.Del) and root(node) in tables:
                raise Unsupported(f'{self.rel}:{node.lineno}: module table {root(node)} is modified in place')
            if isinstance(node, ast.Call) and isinstance(node.func, ast.Attribute) and node.func.attr in MUTATORS \
                    and root(node.func.value) in tables:
                raise Unsupported(f'{self.rel}:{node.lineno}: module table {root(node.func.value)} is modified in place')
            if isinstance(node, ast.Global | ast.Nonlocal):
                raise Unsupported(f'{self.rel}:{node.lineno}: global/nonlocal statement')
            if isinstance(node, ast.AugAssign) and root(node.target) in tables:
                raise Unsupported(f'{self.rel}:{node.lineno}: module table {root(node.target)} is modified in place')


class Translator:
    def __init__(self, repo):
        self.repo = repo
        self.mods = {}
        self.defs = {}          # coq global name -> coq gdef text
        self.order = []
        self.queue = []
        self.report = {'functions': [], 'tables': [], 'kernels': []}

    def mod(self, dotted):
        if dotted not in MODULES:
            raise Unsupported(f'reference into module {dotted}, which is not an anchored module')
        if dotted not in self.mods:
            self.mods[dotted] = Module(self.repo, dotted)
        return self.mods[dotted]

    def is_module(self, dotted):
        p = os.path.join(self.repo, 'src', *dotted.split('.'))
        return os.path.isfile(p + '.py') or os.path.isdir(p)

    # ------------------------------------------------------------ symbols
    def want(self, dotted, name):
        """coq name of the module-level symbol; schedules its translation"""
        m = self.mod(dotted)
        q = f'{m.prefix}.{name}'
        if q not in self.defs:
            self.defs[q] = None
            self.queue.append((m, name, q))
        return q

    def run(self):
        for d, n in ROOTS:
            self.want(d, n)
        while self.queue:
            m, name, q = self.queue.pop(0)
            if m.kind == 'kernels':
                if name not in m.funcs:
                    raise Unsupported(f'{m.rel}: kernel {name} is not a module-level def')
                a = m.funcs[name].args
                if a.vararg or a.kwarg:
                    raise Unsupported(f'{m.rel}: kernel {name} takes *args/**kwargs')
                ps = [x.arg for x in a.posonlyargs + a.args + a.kwonlyargs]
                self.defs[q] = f'GKernel {coq_list([coq_string(p) for p in ps])}'
                self.report['kernels'].append({'name': q, 'params': ps})
            elif name in m.funcs:
                self.defs[q] = FunTranslator(self, m, m.funcs[name]).translate()
                self.report['functions'].append(q)
            elif name in m.consts:
                ft = FunTranslator(self, m, None)
                self.defs[q] = f'GConst {ft.expr(m.consts[name])}'
                self.report['tables'].append(q)
            else:
                raise Unsupported(f'{m.rel}: {name} is neither a module-level def nor a simple assignment')
            self.order.append(q)

    def emit(self):
        lines = ['(* GENERATED by tools/graph2coq.py from the current source — do not edit *)',
                 'From Coq Require Import String List ZArith.',
                 'From Verif.C02 Require Import Syntax.',
                 'Import ListNotations.',
                 'Open Scope string_scope.',
                 'Open Scope Z_scope.', '']
        for m in self.mods.values():
            lines.append(f'(* {m.rel} sha256 {m.sha} *)')
        lines.append('')
        names = []
        for i, q in enumerate(self.order):
            ident = 'def_' + ''.join(c if c.isalnum() else '_' for c in q)
            names.append((q, ident))
            lines.append(f'Definition {ident} : gdef :=\n  {self.defs[q]}.\n')
        lines.append('Definition prog : program :=\n  ' + coq_list([f'({coq_string(q)}, {i})' for q, i in names]) + '.')
        return '\n'.join(lines) + '\n'


class FunTranslator:
    def __init__(self, tr, mod, fdef):
        self.tr, self.mod, self.fdef = tr, mod, fdef
        self.locals = set()
        if fdef is not None:
            a = fdef.args
            if a.vararg or a.kwarg or a.defaults or any(d is not None for d in a.kw_defaults):
                raise Unsupported(self.at(fdef) + f'{fdef.name}: *args/**kwargs/default values are not supported')
            self.params = [x.arg for x in a.posonlyargs + a.args + a.kwonlyargs]
            self.locals |= set(self.params)
            for node in ast.walk(fdef):
                if isinstance(node, ast.Name) and isinstance(node.ctx, ast.Store):
                    self.locals.add(node.id)
                elif isinstance(node, ast.ExceptHandler) and node.name:
                    self.locals.add(node.name)
                elif isinstance(node, ast.FunctionDef | ast.Lambda | ast.ClassDef) and node is not fdef:
                    raise Unsupported(self.at(node) + 'nested function / lambda / class')

    def at(self, node):
        return f'{self.mod.rel}:{getattr(node, "lineno", "?")}: '

    def translate(self):
        body = list(self.fdef.body)
        if body and isinstance(body[0], ast.Expr) and isinstance(body[0].value, ast.Constant) \
                and isinstance(body[0].value.value, str):
            body = body[1:]
        if self.fdef.decorator_list:
            raise Unsupported(self.at(self.fdef) + 'decorated function')
        return f'GFun {coq_list([coq_string(p) for p in self.params])}\n    {self.block(body)}'

    # ------------------------------------------------------------ statements
    def block(self, stmts):
        return coq_list([t for t in (self.stmt(s) for s in stmts) if t is not None])

    def stmt(self, s):
        if isinstance(s, ast.Assign):
            if len(s.targets) != 1 or not isinstance(s.targets[0], ast.Name):
                raise Unsupported(self.at(s) + 'assignment to anything but one plain name')
            return f'SAssign {coq_string(s.targets[0].id)} {self.expr(s.value)}'
        if isinstance(s, ast.Return):
            return f'SReturn {self.expr(s.value) if s.value is not None else "ENone"}'
        if isinstance(s, ast.Raise):
            if s.exc is None:
                raise Unsupported(self.at(s) + 'bare raise')
            if s.cause is not None and not (isinstance(s.cause, ast.Constant) and s.cause.value is None):
                raise Unsupported(self.at(s) + 'raise ... from <exception>')
            return f'SRaise {self.expr(s.exc)}'
        if isinstance(s, ast.If):
            return f'SIf {self.expr(s.test)} {self.block(s.body)} {self.block(s.orelse)}'
        if isinstance(s, ast.Try):
            if s.orelse or s.finalbody or len(s.handlers) != 1:
                raise Unsupported(self.at(s) + 'try with else/finally/several handlers')
            h = s.handlers[0]
            if not (isinstance(h.type, ast.Name) and h.type.id in BUILTINS and h.type.id not in self.locals):
                raise Unsupported(self.at(s) + 'except clause must name one builtin exception class')
            nm = f'(Some {coq_string(h.name)})' if h.name else 'None'
            return f'STry {self.block(s.body)} {coq_string(h.type.id)} {nm} {self.block(h.body)}'
        if isinstance(s, ast.Pass):
            return None
        raise Unsupported(self.at(s) + f'statement {type(s).__name__}')

    # ------------------------------------------------------------ names
    def module_chain(self, e):
        """an attribute chain rooted at an imported module alias -> (module dotted name, remaining attrs) or None"""
        attrs = []
        while isinstance(e, ast.Attribute):
            attrs.append(e.attr)
            e = e.value
        if not isinstance(e, ast.Name) or e.id in self.locals or e.id not in self.mod.aliases:
            return None
        al = self.mod.aliases[e.id]
        attrs.reverse()
        if al[0] == 'abs':
            dotted = al[1]
        else:
            cand = f'{al[1]}.{al[2]}'
            if self.tr.is_module(cand):
                dotted = cand
            else:                      # `from m import symbol`
                dotted, attrs = al[1], [al[2]] + attrs
        if not dotted.startswith(PKG + '.'):
            raise Unsupported(self.at(e) + f'reference to external module {dotted}')
        while attrs and self.tr.is_module(f'{dotted}.{attrs[0]}'):
            dotted = f'{dotted}.{attrs[0]}'
            attrs = attrs[1:]
        return dotted, attrs

    def name(self, e):
        n = e.id
        if n in self.locals:
            return f'EVar {coq_string(n)}'
        if n in self.mod.funcs or n in self.mod.consts:
            return f'EGlobal {coq_string(self.tr.want(self.mod.dotted, n))}'
        if n in self.mod.aliases:
            ch = self.module_chain(e)
            if ch and len(ch[1]) == 1:
                return f'EGlobal {coq_string(self.tr.want(ch[0], ch[1][0]))}'
            raise Unsupported(self.at(e) + f'module alias {n} used as a value')
        if n in BUILTINS:
            return f'EGlobal {coq_string("builtin." + n)}'
        raise Unsupported(self.at(e) + f'unknown name {n}')

    # ------------------------------------------------------------ expressions
    def args(self, call):
        if any(isinstance(a, ast.Starred) for a in call.args) or any(k.arg is None for k in call.keywords):
            raise Unsupported(self.at(call) + '*args / **kwargs in a call')
        pos = coq_list([self.expr(a) for a in call.args])
        kw = coq_list([f'({coq_string(k.arg)}, {self.expr(k.value)})' for k in call.keywords])
        return pos, kw

    def comp(self, e, kind, elt, elt2):
        if len(e.generators) != 1:
            raise Unsupported(self.at(e) + 'comprehension with several generators')
        g = e.generators[0]
        if g.is_async or not isinstance(g.target, ast.Name):
            raise Unsupported(self.at(e) + 'comprehension target must be one plain name')
        saved = set(self.locals)
        it = self.expr(g.iter)
        self.locals.add(g.target.id)
        try:
            conds = coq_list([self.expr(c) for c in g.ifs])
            e1 = self.expr(elt)
            e2 = f'(Some {self.expr(elt2)})' if elt2 is not None else 'None'
        finally:
            self.locals = saved
        return f'(EComp {kind} {e1} {e2} {coq_string(g.target.id)} {it} {conds})'

    def expr(self, e):
        if isinstance(e, ast.Constant):
            v = e.value
            if isinstance(v, bool):
                return f'(EBool {"true" if v else "false"})'
            if v is None:
                return 'ENone'
            if isinstance(v, str):
                return f'(EStr {coq_string(v)})'
            if isinstance(v, int):
                return f'(EInt ({v}))'
            raise Unsupported(self.at(e) + f'constant {v!r}')
        if isinstance(e, ast.Name):
            if not isinstance(e.ctx, ast.Load):
                raise Unsupported(self.at(e) + 'name in store context')
            return f'({self.name(e)})'
        if isinstance(e, ast.Attribute):
            ch = self.module_chain(e)
            if ch is not None:
                dotted, attrs = ch
                if len(attrs) != 1:
                    raise Unsupported(self.at(e) + f'cannot resolve attribute chain into {dotted}: {attrs}')
                return f'(EGlobal {coq_string(self.tr.want(dotted, attrs[0]))})'
            return f'(EAttr {self.expr(e.value)} {coq_string(e.attr)})'
        if isinstance(e, ast.Tuple):
            return f'(ETuple {coq_list([self.expr(x) for x in e.elts])})'
        if isinstance(e, ast.List):
            return f'(EList {coq_list([self.expr(x) for x in e.elts])})'
        if isinstance(e, ast.Dict):
            items = []
            for k, v in zip(e.keys, e.values, strict=True):
                items.append(f'({"None" if k is None else "Some " + self.expr(k)}, {self.expr(v)})')
            return f'(EDict {coq_list(items)})'
        if isinstance(e, ast.Call):
            pos, kw = self.args(e)
            if isinstance(e.func, ast.Attribute) and self.module_chain(e.func) is None:
                return f'(EMeth {self.expr(e.func.value)} {coq_string(e.func.attr)} {pos} {kw})'
            return f'(ECall {self.expr(e.func)} {pos} {kw})'
        if isinstance(e, ast.Subscript):
            if isinstance(e.slice, ast.Slice):
                raise Unsupported(self.at(e) + 'slice')
            return f'(ESub {self.expr(e.value)} {self.expr(e.slice)})'
        if isinstance(e, ast.Compare):
            if len(e.ops) != 1 or type(e.ops[0]) not in CMP:
                raise Unsupported(self.at(e) + 'chained / unsupported comparison')
            return f'(ECmp {CMP[type(e.ops[0])]} {self.expr(e.left)} {self.expr(e.comparators[0])})'
        if isinstance(e, ast.UnaryOp) and isinstance(e.op, ast.Not):
            return f'(ENot {self.expr(e.operand)})'
        if isinstance(e, ast.BoolOp):
            c = 'EAnd' if isinstance(e.op, ast.And) else 'EOr'
            vals = [self.expr(x) for x in e.values]
            out = vals[-1]
            for v in reversed(vals[:-1]):
                out = f'({c} {v} {out})'
            return out
        if isinstance(e, ast.IfExp):
            return f'(EIfExp {self.expr(e.test)} {self.expr(e.body)} {self.expr(e.orelse)})'
        if isinstance(e, ast.ListComp):
            return self.comp(e, 'KList', e.elt, None)
        if isinstance(e, ast.GeneratorExp):
            return self.comp(e, 'KGen', e.elt, None)
        if isinstance(e, ast.DictComp):
            return self.comp(e, 'KDict', e.key, e.value)
        if isinstance(e, ast.JoinedStr):
            parts = []
            for p in e.values:
                if isinstance(p, ast.Constant) and isinstance(p.value, str):
                    parts.append(f'(EStr {coq_string(p.value)})')
                elif isinstance(p, ast.FormattedValue) and p.conversion == -1 and p.format_spec is None:
                    parts.append(self.expr(p.value))
                else:
                    raise Unsupported(self.at(e) + 'f-string with conversion / format spec')
            return f'(EFStr {coq_list(parts)})'
        raise Unsupported(self.at(e) + f'expression {type(e).__name__}')


def main(argv):
    repo, out = argv[1], argv[2]
    tr = Translator(repo)
    try:
        tr.run()
        txt = tr.emit()
    except Unsupported as ex:
        print(f'GRAPH2COQ-UNSUPPORTED {ex}')
        return 2
    with open(out, 'w') as f:
        f.write(txt)
    tr.report['sha256'] = {m.rel: m.sha for m in tr.mods.values()}
    print('GRAPH2COQ ' + json.dumps(tr.report))
    return 0


if __name__ == '__main__':
    sys.exit(main(sys.argv))
