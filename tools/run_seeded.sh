#!/bin/sh
# run_seeded.sh <prop> <dir-with-patch.diff> [lines] : applies the patch to a scratch worktree of /repo's HEAD
# (one per property, so lanes for different properties can run concurrently) and runs ./check <prop> against it
prop="$1"; src="$2"
wt=/tmp/mutrepo_$prop
git -C /repo worktree list | grep -q "$wt " || git -C /repo worktree add -q --detach $wt HEAD
(cd $wt && git checkout -q -- . && git clean -qfd && git checkout -q --detach $(git -C /repo rev-parse HEAD) && git apply "$src/patch.diff") || { echo "patch does not apply"; exit 2; }
cd /verif && VERIF_REPO=$wt ./check $prop 2>&1 | grep "VIOLATION\|^\[violation\]\|^\[$prop\]\|KNOWN-FINDING" | cut -c1-240 | grep -v "^KNOWN" | head -${3:-5}
(cd $wt && git checkout -q -- . && git clean -qfd)
