#!/bin/sh
# confirm_seeded.sh <dir with patch.diff demo.py meta.json> <seeded id> "<pytest paths>"
# Confirms in a scratch worktree: demo passes clean, fails patched, tests pass patched; then stores under /verif/seeded/<id>/
src="$1"; id="$2"; tests="${3:-tests/conversion tests/convert_test.py}"
wt=/tmp/cs_$$
git -C /repo worktree add -q $wt HEAD || exit 2
cd $wt
PYTHONPATH=$wt/src /venv/bin/python "$src/demo.py" >/dev/null 2>&1; clean=$?
git apply "$src/patch.diff" || { echo "patch does not apply"; git -C /repo worktree remove --force $wt; exit 2; }
PYTHONPATH=$wt/src /venv/bin/python "$src/demo.py" >/dev/null 2>&1; patched=$?
PYTHONPATH=$wt/src /venv/bin/python -m pytest -q -p no:cacheprovider $tests -x -q -W ignore::pytest.PytestRemovedIn10Warning 2>&1 | tail -1 > /tmp/cs_$$.tests
tr=$(cat /tmp/cs_$$.tests); rm -f /tmp/cs_$$.tests
cd /; git -C /repo worktree remove --force $wt
echo "demo clean exit=$clean patched exit=$patched tests: $tr"
if [ "$clean" = 0 ] && [ "$patched" != 0 ] && echo "$tr" | grep -q passed && ! echo "$tr" | grep -q failed; then
  mkdir -p /verif/seeded/$id && cp "$src/patch.diff" "$src/demo.py" /verif/seeded/$id/
  python3 - "$src/meta.json" /verif/seeded/$id/meta.json "$clean" "$patched" "$tr" "$tests" <<'PY'
import json,sys
m=json.load(open(sys.argv[1]))
m['confirmed_by_coordinator']={'demo_exit_clean':int(sys.argv[3]),'demo_exit_patched':int(sys.argv[4]),'tests':sys.argv[6],'tests_result':sys.argv[5]}
json.dump(m,open(sys.argv[2],'w'),indent=1)
PY
  echo "stored /verif/seeded/$id"
else
  echo "NOT confirmed"; exit 1
fi
