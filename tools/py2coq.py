#!/usr/bin/env python3
"""py2coq — fail-closed translator from the anchored Python sources to Coq.

The translator is *syntactic*: it maps the Python AST of a function to a Coq
term over the universal value domain `val O` of coq/Sem/Val.v.  It knows no
semantics — every operator, scipp/numpy function, method and constant is
mapped to an identifier whose meaning is defined (and reasoned about) in Coq.

    a * b              ->  (vmul O a b)
    sc.to_unit(x, u)   ->  (sc_to_unit O x u (VBool O true))     [defaults filled from SIGS]
    x.astype(t, copy=False) -> (m_astype O x t (VBool O false))
    const.h            ->  (const_h O)
    x = e ; rest       ->  (vbind O e (fun x => rest))
    x op= e ; rest     ->  (vbind O (vop O x e) (fun x => rest))
    if c: raise E      ->  (vif O c (VErr O "E") rest)
    if c: A else: B    ->  (vif O c A' B') with the continuation copied into both arms
    return e           ->  e

Anything outside the supported subset raises Unsupported; the function is then
emitted as a comment, listed in the JSON report, and every Coq obligation that
mentions it fails to compile (fail-closed).

Usage: py2coq.py <spec.json> <outdir>
 spec = { "modules": [ { "py": "<path under /repo>", "coq": "GenTof",
                         "functions": ["f", "Class.method", ...],
                         "imports": {"elem_unit": "GenUtils"},   # names defined in other generated modules
                         "tables": [...]} ] }
"""
import ast
import hashlib
import json
import os
import sys
from fractions import Fraction

COQ_KEYWORDS = {
    'at', 'end', 'in', 'fun', 'match', 'with', 'let', 'return', 'if', 'then', 'else', 'as',
    'forall', 'exists', 'Type', 'Set', 'Prop', 'fix', 'cofix', 'struct', 'where', 'for',
    'using', 'IF', 'O', 'F', 'e', 'unit', 'val', 'elem', 'dims', 'dtype', 'nat', 'bool', 'list',
    'length', 'id', 'fst', 'snd', 'pi', 'us', 'ud', 'map', 'assoc', 'named', 'f0', 'f1', 'f2',
}


class Unsupported(Exception):
    pass


OPTIONS = {}     # opt-in translation forms, set from the spec ("fstrings": true)


# external callables: dotted python name -> (coq name, positional params, [(kw, default)])
# default None => Python None;  'T'/'F' => True/False
SIGS = {
    'sc.to_unit': ('sc_to_unit', ['x', 'unit'], [('copy', 'T')]),
    'sc.scalar': ('sc_scalar', ['value'], [('unit', None), ('dtype', None)]),
    'sc.sqrt': ('sc_sqrt', ['x'], []),
    'sc.sin': ('sc_sin', ['x'], []),
    'sc.cos': ('sc_cos', ['x'], []),
    'sc.exp': ('sc_exp', ['x'], []),
    'sc.abs': ('sc_abs', ['x'], []),
    'sc.atan2': ('sc_atan2', [], [('y', '!'), ('x', '!')]),
    'sc.reciprocal': ('sc_reciprocal', ['x'], []),
    'sc.where': ('sc_where', ['condition', 'x', 'y'], []),
    'sc.norm': ('sc_norm', ['x'], []),
    'sc.dot': ('sc_dot', ['x', 'y'], []),
    'sc.cross': ('sc_cross', ['x', 'y'], []),
    'sc.vector': ('sc_vector', ['value'], [('unit', None)]),
    'sc.spatial.as_vectors': ('sc_spatial_as_vectors', ['x', 'y', 'z'], []),
    'sc.spatial.inv': ('sc_spatial_inv', ['x'], []),
    'sc.values': ('sc_values', ['x'], []),
    'sc.stddevs': ('sc_stddevs', ['x'], []),
    'sc.isnan': ('sc_isnan', ['x'], []),
    'sc.asin': ('sc_asin', ['x'], []),
    'sc.acos': ('sc_acos', ['x'], []),
    'sc.atan': ('sc_atan', ['x'], []),
    'sc.tan': ('sc_tan', ['x'], []),
    'sc.log': ('sc_log', ['x'], []),
    'sc.round': ('sc_round', ['x'], []),
    'sc.minimum': ('sc_minimum', ['x', 'y'], []),
    'sc.maximum': ('sc_maximum', ['x', 'y'], []),
    'sc.isfinite': ('sc_isfinite', ['x'], []),
    'sc.isinf': ('sc_isinf', ['x'], []),
    'math.sqrt': ('math_sqrt', ['x'], []),
    'math.log': ('math_log', ['x'], []),
    'np.sqrt': ('math_sqrt', ['x'], []),
    'np.log': ('math_log', ['x'], []),
    'abs': ('py_abs', ['x'], []),
    'max': ('py_max', ['x', 'y'], []),
    'min': ('py_min', ['x', 'y'], []),
    'float': ('py_float', ['x'], []),
    'int': ('py_int', ['x'], []),
    'round': ('py_round', ['x'], []),
    'len': ('py_len', ['x'], []),
}
# methods: name -> (coq name, positional params, [(kw, default)])
METHODS = {
    'astype': ('m_astype', ['type'], [('copy', 'T')]),
    'to': ('m_to', [], [('unit', None), ('dtype', None), ('copy', 'T')]),
    'copy': ('m_copy', [], []),
}
BINOPS = {ast.Add: 'vadd', ast.Sub: 'vsub', ast.Mult: 'vmul', ast.Div: 'vdiv', ast.Pow: 'vpow',
          ast.Mod: 'vmod', ast.FloorDiv: 'vfloordiv'}
CMPOPS = {ast.LtE: 'vle', ast.Lt: 'vlt', ast.GtE: 'vge', ast.Gt: 'vgt', ast.Eq: 'veq',
          ast.NotEq: 'vne', ast.Is: 'vis', ast.IsNot: 'visnot'}


def coq_string(s):
    if any(ord(c) > 126 or ord(c) < 32 for c in s):
        s = ''.join(c if 32 <= ord(c) <= 126 else '?' for c in s)
    return '"' + s.replace('"', '""') + '"'


def dec_literal(x):
    """exact decimal of a Python float literal as (mantissa, exp10) from its repr"""
    r = repr(x)
    fr = Fraction(r)
    # repr is the shortest round-tripping decimal; express as m * 10^e
    if 'e' in r or 'E' in r:
        mant, ex = r.lower().split('e')
        ex = int(ex)
    else:
        mant, ex = r, 0
    if '.' in mant:
        ip, fp = mant.split('.')
        fp = fp.rstrip('0')
        m = int(ip + fp) if (ip + fp) not in ('', '-') else 0
        ex -= len(fp)
    else:
        m = int(mant)
    assert Fraction(m) * Fraction(10) ** ex == fr, (r, m, ex)
    return m, ex


class FunTranslator:
    def __init__(self, mod, fdef, qualname):
        self.mod = mod
        self.fdef = fdef
        self.qualname = qualname
        self.locals = set()
        self.rename = {}

    # ---- names
    def var(self, name):
        if name not in self.rename:
            n = name
            if n in COQ_KEYWORDS or n in self.mod.coq_toplevel or n.startswith('_'):
                n = 'v_' + n.lstrip('_')
            self.rename[name] = n
        return self.rename[name]

    def dotted(self, node):
        parts = []
        while isinstance(node, ast.Attribute):
            parts.append(node.attr)
            node = node.value
        if isinstance(node, ast.Name):
            parts.append(node.id)
            return list(reversed(parts))
        return None

    # ---- expressions
    def expr(self, n):
        m = getattr(self, 'e_' + type(n).__name__, None)
        if m is None:
            raise Unsupported(f'expression {type(n).__name__} at line {n.lineno}')
        return m(n)

    def e_Constant(self, n):
        v = n.value
        if v is None:
            return '(VNone O)'
        if v is True:
            return '(VBool O true)'
        if v is False:
            return '(VBool O false)'
        if isinstance(v, int):
            return f'(VInt O ({v}))'
        if isinstance(v, float):
            m, e = dec_literal(v)
            return f'(VFloat O (fdec ({m}) ({e})))'
        if isinstance(v, str):
            return f'(VStr O {coq_string(v)})'
        raise Unsupported(f'constant {v!r}')

    def e_Name(self, n):
        if n.id in self.locals:
            return self.var(n.id)
        if n.id in self.mod.local_funcs or n.id in self.mod.imports:
            raise Unsupported(f'function {n.id} used as a value at line {n.lineno}')
        if n.id in self.mod.module_consts:
            return self.mod.module_consts[n.id]
        raise Unsupported(f'free name {n.id} at line {n.lineno}')

    def e_Attribute(self, n):
        d = self.dotted(n)
        if d and d[0] in self.mod.aliases and d[0] not in self.locals:
            return '(' + '_'.join([self.mod.aliases[d[0]]] + d[1:]) + ' O)'
        return f'(py_attr O {self.expr(n.value)} {coq_string(n.attr)})'

    def e_BinOp(self, n):
        op = BINOPS.get(type(n.op))
        if op is None:
            raise Unsupported(f'binary operator {type(n.op).__name__}')
        return f'({op} O {self.expr(n.left)} {self.expr(n.right)})'

    def e_UnaryOp(self, n):
        if isinstance(n.op, ast.USub):
            if isinstance(n.operand, ast.Constant) and isinstance(n.operand.value, (int, float)) \
                    and not isinstance(n.operand.value, bool):
                return self.e_Constant(ast.Constant(value=-n.operand.value))
            return f'(vneg O {self.expr(n.operand)})'
        if isinstance(n.op, ast.Not):
            return f'(vnot O {self.expr(n.operand)})'
        if isinstance(n.op, ast.UAdd):
            return self.expr(n.operand)
        raise Unsupported('unary operator')

    def e_Compare(self, n):
        if len(n.ops) != 1:
            # a < b < c  ==  (a < b) and (b < c)
            parts = []
            left = n.left
            for op, right in zip(n.ops, n.comparators):
                parts.append(self.e_Compare(ast.Compare(left=left, ops=[op], comparators=[right])))
                left = right
            out = parts[-1]
            for p in reversed(parts[:-1]):
                out = f'(vand O {p} {out})'
            return out
        op = CMPOPS.get(type(n.ops[0]))
        if op is None:
            raise Unsupported(f'comparison {type(n.ops[0]).__name__}')
        return f'({op} O {self.expr(n.left)} {self.expr(n.comparators[0])})'

    def e_BoolOp(self, n):
        f = 'vand' if isinstance(n.op, ast.And) else 'vor'
        out = self.expr(n.values[-1])
        for v in reversed(n.values[:-1]):
            out = f'({f} O {self.expr(v)} {out})'
        return out

    def e_IfExp(self, n):
        return f'(vif O {self.expr(n.test)} {self.expr(n.body)} {self.expr(n.orelse)})'

    def e_Tuple(self, n):
        return '(VTuple O [' + '; '.join(self.expr(x) for x in n.elts) + '])'

    def e_List(self, n):
        return '(VTuple O [' + '; '.join(self.expr(x) for x in n.elts) + '])'

    def e_Dict(self, n):
        items = []
        for k, v in zip(n.keys, n.values):
            if not (isinstance(k, ast.Constant) and isinstance(k.value, str)):
                raise Unsupported('dict key that is not a string literal')
            items.append(f'({coq_string(k.value)}, {self.expr(v)})')
        return '(VDict O [' + '; '.join(items) + '])'

    def e_Subscript(self, n):
        if isinstance(n.slice, ast.Slice):
            raise Unsupported('slice')
        return f'(vindex O {self.expr(n.value)} {self.expr(n.slice)})'

    def e_JoinedStr(self, n):
        if not OPTIONS.get('fstrings'):
            return '(VStr O "<f-string>")'
        # opt-in (spec "fstrings": true): f'a{i}' -> (py_fstr O [VStr "a"; i]); no conversions / format specs
        parts = []
        for v in n.values:
            if isinstance(v, ast.Constant) and isinstance(v.value, str):
                parts.append(f'(VStr O {coq_string(v.value)})')
            elif isinstance(v, ast.FormattedValue) and v.conversion == -1 and v.format_spec is None:
                parts.append(self.expr(v.value))
            else:
                raise Unsupported(f'f-string conversion / format spec at line {n.lineno}')
        return '(py_fstr O [' + '; '.join(parts) + '])'

    def _bind_args(self, what, params, kwdefs, args, keywords, lineno, allow_star=False):
        """returns the list of coq argument strings in declaration order"""
        if any(isinstance(a, ast.Starred) for a in args):
            raise Unsupported(f'*args in call to {what} at line {lineno}')
        star = [k for k in keywords if k.arg is None]
        keywords = [k for k in keywords if k.arg is not None]
        if star and not allow_star:
            raise Unsupported(f'**kwargs in call to {what} at line {lineno}')
        if len(star) > 1 or (star and not (isinstance(star[0].value, ast.Name) and star[0].value.id in self.locals)):
            raise Unsupported(f'**kwargs form in call to {what} at line {lineno}')
        names = list(params) + [k for k, _ in kwdefs]
        defaults = dict(kwdefs)
        if len(args) > len(names):
            raise Unsupported(f'too many positional arguments for {what} at line {lineno}')
        given = {}
        for name, a in zip(names, args):
            given[name] = self.expr(a)
        for k in keywords:
            if k.arg not in names:
                raise Unsupported(f'unknown keyword {k.arg} for {what} at line {lineno}')
            if k.arg in given:
                raise Unsupported(f'duplicate argument {k.arg} for {what}')
            given[k.arg] = self.expr(k.value)
        out = []
        self._star_check = None
        if star:
            # f(x, **d): every parameter not given explicitly must be a REQUIRED keyword parameter and is
            # read from d; d may hold no other key (kw_check, defined by the property's SemExt)
            d = self.var(star[0].value.id)
            rest = [nm for nm in names if nm not in given]
            if any(nm in params or defaults.get(nm) != '!' for nm in rest):
                raise Unsupported(f'**kwargs feeding optional/positional parameters of {what} at line {lineno}')
            for nm in rest:
                given[nm] = f'(vindex O {d} (VStr O {coq_string(nm)}))'
            self._star_check = f'(kw_check O {d} [' + '; '.join(coq_string(nm) for nm in rest) + '])'
        for name in names:
            if name in given:
                out.append(given[name])
            elif name in defaults and defaults[name] != '!':
                d = defaults[name]
                out.append({None: '(VNone O)', 'T': '(VBool O true)', 'F': '(VBool O false)'}.get(d, d))
            else:
                raise Unsupported(f'missing argument {name} for {what} at line {lineno}')
        return out

    def _with_star_check(self, call):
        chk, self._star_check = getattr(self, '_star_check', None), None
        return call if chk is None else f'(vbind O {chk} (fun _ => {call}))'

    def e_Call(self, n):
        f = n.func
        d = self.dotted(f)
        # plain function of this or an imported generated module
        if isinstance(f, ast.Name) and f.id not in self.locals:
            if f.id in self.mod.local_funcs:
                params, kwdefs = self.mod.local_funcs[f.id]
                args = self._bind_args(f.id, params, kwdefs, n.args, n.keywords, n.lineno, allow_star=True)
                return self._with_star_check('(' + ' '.join([self.mod.coq_name(f.id)] + args) + ')')
            if f.id in self.mod.imports:
                other, params, kwdefs = self.mod.imports[f.id]
                args = self._bind_args(f.id, params, kwdefs, n.args, n.keywords, n.lineno, allow_star=True)
                return self._with_star_check('(' + ' '.join([f'{other} O'] + args) + ')')
            if f.id in SIGS:
                cn, params, kwdefs = SIGS[f.id]
                args = self._bind_args(f.id, params, kwdefs, n.args, n.keywords, n.lineno)
                return '(' + ' '.join([cn, 'O'] + args) + ')'
            raise Unsupported(f'call of unknown function {f.id} at line {n.lineno}')
        if d and d[0] in self.mod.aliases and d[0] not in self.locals:
            key = '.'.join(d)
            if key not in SIGS:
                raise Unsupported(f'call of unknown external {key} at line {n.lineno}')
            cn, params, kwdefs = SIGS[key]
            args = self._bind_args(key, params, kwdefs, n.args, n.keywords, n.lineno)
            return '(' + ' '.join([cn, 'O'] + args) + ')'
        if isinstance(f, ast.Attribute):
            if f.attr in METHODS:
                cn, params, kwdefs = METHODS[f.attr]
                args = self._bind_args('.' + f.attr, params, kwdefs, n.args, n.keywords, n.lineno)
                return '(' + ' '.join([cn, 'O', self.expr(f.value)] + args) + ')'
            raise Unsupported(f'method .{f.attr}() at line {n.lineno}')
        raise Unsupported(f'call at line {n.lineno}')

    # ---- statements: translate a block given the continuation (already-translated tail)
    def block(self, stmts, cont):
        """cont: None (falling off the end = return None) or a thunk producing the Coq text of
        what follows this block."""
        if not stmts:
            return cont() if cont else '(VNone O)'
        s, rest = stmts[0], stmts[1:]
        k = lambda: self.block(rest, cont)  # noqa: E731
        if isinstance(s, ast.Expr):
            if isinstance(s.value, ast.Constant) and isinstance(s.value.value, str):
                return k()  # docstring
            raise Unsupported(f'expression statement at line {s.lineno}')
        if isinstance(s, ast.Return):
            return self.expr(s.value) if s.value is not None else '(VNone O)'
        if isinstance(s, ast.Raise):
            exc = s.exc
            name = None
            if isinstance(exc, ast.Call):
                exc = exc.func
            dd = self.dotted(exc) if exc is not None else None
            if dd:
                name = dd[-1]
            if name is None:
                raise Unsupported(f'raise at line {s.lineno}')
            return f'(VErr O {coq_string(name)})'
        if isinstance(s, (ast.Assign, ast.AnnAssign)):
            targets = s.targets if isinstance(s, ast.Assign) else [s.target]
            if len(targets) != 1 or s.value is None:
                raise Unsupported(f'assignment form at line {s.lineno}')
            t = targets[0]
            v = s.value
            if (isinstance(t, ast.Name) and isinstance(v, ast.Call) and isinstance(v.func, ast.Attribute)
                    and v.func.attr == 'pop' and isinstance(v.func.value, ast.Name)
                    and v.func.value.id in self.locals and v.func.value.id != t.id
                    and len(v.args) == 1 and not v.keywords and 'pop' not in METHODS):
                # x = d.pop(k): binds x and REBINDS d without k (pop_value / pop_rest live in the property's SemExt)
                d = self.var(v.func.value.id)
                key = self.expr(v.args[0])
                self.locals.add(t.id)
                return (f'(vbind O (pop_value O {d} {key}) (fun {self.var(t.id)} =>\n'
                        f'   (vbind O (pop_rest O {d} {key}) (fun {d} =>\n   {k()}))))')
            rhs = self.expr(s.value)
            if isinstance(t, ast.Name):
                self.locals.add(t.id)
                return f'(vbind O {rhs} (fun {self.var(t.id)} =>\n   {k()}))'
            if isinstance(t, ast.Tuple) and all(isinstance(x, ast.Name) for x in t.elts):
                tmp = f'tup{s.lineno}'
                out_names = [x.id for x in t.elts]
                for nm in out_names:
                    self.locals.add(nm)
                body = k()
                for i, nm in reversed(list(enumerate(out_names))):
                    body = f'(vbind O (vindex O {tmp} (VInt O {i})) (fun {self.var(nm)} =>\n   {body}))'
                return f'(vbind O {rhs} (fun {tmp} =>\n   {body}))'
            raise Unsupported(f'assignment target at line {s.lineno}')
        if isinstance(s, ast.AugAssign):
            if not isinstance(s.target, ast.Name):
                raise Unsupported(f'augmented assignment target at line {s.lineno}')
            op = BINOPS.get(type(s.op))
            if op is None:
                raise Unsupported('augmented operator')
            x = self.var(s.target.id)
            if s.target.id not in self.locals:
                raise Unsupported(f'augmented assignment to non-local {s.target.id}')
            rhs = f'({op} O {x} {self.expr(s.value)})'
            return f'(vbind O {rhs} (fun {x} =>\n   {k()}))'
        if isinstance(s, ast.Delete):
            # `del x` of a local: the name is unbound from here on (a later use is refused as a free name)
            for t in s.targets:
                if not (isinstance(t, ast.Name) and t.id in self.locals):
                    raise Unsupported(f'del of something other than a local name at line {s.lineno}')
            for t in s.targets:
                self.locals.discard(t.id)
            return k()
        if isinstance(s, ast.For):
            return self.for_range(s, k)
        if isinstance(s, ast.If):
            c = self.expr(s.test)
            saved = set(self.locals)
            a = self.block(s.body, k)
            self.locals = set(saved)
            b = self.block(s.orelse, k)
            self.locals = set(saved) | self._assigned(s)
            return f'(vif O {c}\n   {a}\n   {b})'
        raise Unsupported(f'statement {type(s).__name__} at line {s.lineno}')

    def for_range(self, s, k):
        """for i in range(...): simple body   ->   py_for_range O lo hi step (fun i st => body') st0
        The loop-carried state is the tuple of the locals the body assigns (all must exist before the
        loop); no return/raise/break/continue/else; the loop variable is not visible afterwards."""
        it = s.iter
        if not (isinstance(s.target, ast.Name) and isinstance(it, ast.Call) and isinstance(it.func, ast.Name)
                and it.func.id == 'range' and 'range' not in self.locals and not it.keywords
                and 1 <= len(it.args) <= 3 and not s.orelse):
            raise Unsupported(f'for statement other than `for i in range(...)` at line {s.lineno}')
        for x in ast.walk(s):
            if isinstance(x, (ast.Return, ast.Raise, ast.Break, ast.Continue, ast.For, ast.While)) and x is not s:
                raise Unsupported(f'{type(x).__name__} inside a for body at line {s.lineno}')
        a = [self.expr(e) for e in it.args]
        if len(a) == 1:
            lo, hi, st = '(VInt O (0))', a[0], '(VInt O (1))'
        elif len(a) == 2:
            lo, hi, st = a[0], a[1], '(VInt O (1))'
        else:
            lo, hi, st = a
        i = s.target.id
        carried = sorted(self._assigned(ast.Module(body=s.body, type_ignores=[])))
        if i in carried or any(c not in self.locals for c in carried) or i in self.locals:
            raise Unsupported(f'for body assigns the loop variable or a new local at line {s.lineno}')
        tup = '(VTuple O [' + '; '.join(self.var(c) for c in carried) + '])'

        def unpack(body, stv):
            for j, c in reversed(list(enumerate(carried))):
                body = f'(vbind O (vindex O {stv} (VInt O {j})) (fun {self.var(c)} =>\n   {body}))'
            return body
        saved = set(self.locals)
        self.locals.add(i)
        stv = f'st{s.lineno}'
        inner = unpack(self.block(s.body, lambda: tup), stv)
        self.locals = set(saved)
        after = unpack(k(), stv)
        return (f'(vbind O (py_for_range O {lo} {hi} {st} (fun {self.var(i)} {stv} =>\n   {inner}) {tup})\n'
                f'   (fun {stv} => {after}))')

    def _assigned(self, node):
        out = set()
        for x in ast.walk(node):
            if isinstance(x, ast.Name) and isinstance(x.ctx, ast.Store):
                out.add(x.id)
        return out

    def translate(self):
        a = self.fdef.args
        if a.vararg or a.kwarg or a.posonlyargs:
            raise Unsupported('*args / **kwargs / positional-only parameters')
        params = [x.arg for x in a.args] + [x.arg for x in a.kwonlyargs]
        if params and params[0] in ('self', 'cls'):
            pass
        for p in params:
            self.locals.add(p)
        body = self.block(self.fdef.body, None)
        ps = ' '.join(self.var(p) for p in params)
        name = self.mod.coq_name(self.qualname)
        if ps:
            return f'Definition {name} ({ps} : val O) : val O :=\n  {body}.\n'
        return f'Definition {name} : val O :=\n  {body}.\n'


class Module:
    def __init__(self, spec, repo, all_sigs):
        self.spec = spec
        self.path = os.path.join(repo, spec['py'])
        self.src = open(self.path, encoding='utf-8').read()
        self.tree = ast.parse(self.src)
        self.coq = spec['coq']
        self.aliases = {}
        self.local_funcs = {}
        self.imports = {}
        self.module_consts = {}
        self.coq_toplevel = set()
        self.defs = {}
        for node in self.tree.body:
            if isinstance(node, ast.Import):
                for al in node.names:
                    self.aliases[al.asname or al.name.split('.')[0]] = \
                        {'scipp': 'sc', 'scipp.constants': 'const', 'numpy': 'np', 'math': 'math'}.get(
                            al.name, (al.asname or al.name).replace('.', '_'))
            elif isinstance(node, (ast.FunctionDef,)):
                self.defs[node.name] = node
            elif isinstance(node, ast.ClassDef):
                for sub in node.body:
                    if isinstance(sub, ast.FunctionDef):
                        self.defs[f'{node.name}.{sub.name}'] = sub
        for q, node in self.defs.items():
            if '.' not in q:
                self.local_funcs[q] = self.signature(node)
        for q in self.defs:
            self.coq_toplevel.add(self.coq_name(q))
        all_sigs[self.coq] = {q: self.signature(n) for q, n in self.defs.items()}

    @staticmethod
    def signature(node):
        a = node.args
        npos = len(a.args) - len(a.defaults)
        params = [x.arg for x in a.args[:npos]]
        kwdefs = []
        for x, d in zip(a.args[npos:], a.defaults):
            kwdefs.append((x.arg, Module.default(d)))
        for x, d in zip(a.kwonlyargs, a.kw_defaults):
            kwdefs.append((x.arg, '!' if d is None else Module.default(d)))
        return params, kwdefs

    @staticmethod
    def default(d):
        if isinstance(d, ast.Constant):
            if d.value is None:
                return None
            if d.value is True:
                return 'T'
            if d.value is False:
                return 'F'
            if isinstance(d.value, int):
                return f'(VInt O ({d.value}))'
            if isinstance(d.value, float):
                m, e = dec_literal(d.value)
                return f'(VFloat O (fdec ({m}) ({e})))'
            if isinstance(d.value, str):
                return f'(VStr O {coq_string(d.value)})'
        return '!'

    def coq_name(self, qual):
        n = qual.replace('.', '_')
        if n.startswith('_'):
            n = 'p' + n
        if n in COQ_KEYWORDS:
            n = n + '_'
        return n

    def resolve_imports(self, all_sigs):
        for name, other in self.spec.get('imports', {}).items():
            params, kwdefs = all_sigs[other][name]
            m = Module.__new__(Module)
            cn = Module.coq_name(m, name)
            self.imports[name] = (f'{other}.{cn}', params, kwdefs)

    def ordered(self, quals):
        """callees before callers (calls by plain name within the module)"""
        want = list(quals)
        deps = {}
        for q in want:
            node = self.defs.get(q)
            ds = []
            if node is not None:
                for x in ast.walk(node):
                    if isinstance(x, ast.Call) and isinstance(x.func, ast.Name) and x.func.id in want \
                            and x.func.id != q:
                        ds.append(x.func.id)
            deps[q] = ds
        out, seen = [], set()

        def visit(q, stack=()):
            if q in seen or q in stack:
                return
            for d in deps[q]:
                visit(d, stack + (q,))
            seen.add(q)
            out.append(q)
        for q in want:
            visit(q)
        return out

    def emit(self):
        sha = hashlib.sha256(self.src.encode()).hexdigest()
        out = [f'(* GENERATED by tools/py2coq.py from {self.spec["py"]} — do not edit. *)',
               'From Coq Require Import ZArith String List.',
               'From Verif.Sem Require Import Field Val.']
        for other in sorted(set(self.spec.get('imports', {}).values())):
            out.append(f'From Run Require {other}.')
        for req in self.spec.get('requires', []):
            out.append(f'Require Import {req}.')
        out += ['Import ListNotations.', 'Open Scope string_scope.', 'Open Scope Z_scope.', '',
                f'Definition source_sha256 : string := "{sha}".', '',
                'Section Gen.', 'Variable O : Fops.'] + list(self.spec.get('section', [])) + ['']
        report = {}
        for q in self.ordered(self.spec['functions']):
            if q not in self.defs:
                report[q] = 'not found in source'
                out.append(f'(* MISSING {q}: not found in source *)\n')
                continue
            try:
                ft = FunTranslator(self, self.defs[q], q)
                out.append(ft.translate())
                report[q] = 'ok'
            except Unsupported as ex:
                report[q] = f'unsupported: {ex}'
                out.append(f'(* UNSUPPORTED {q}: {ex} *)\n')
        out += ['End Gen.', '']
        return '\n'.join(out), report, sha


def main():
    spec = json.load(open(sys.argv[1]))
    outdir = sys.argv[2]
    # per-property extensions of the external-callable tables (their Coq meaning lives in the
    # modules named by a module's "requires")
    for k, v in spec.get('sigs', {}).items():
        SIGS[k] = (v[0], v[1], [tuple(x) for x in v[2]])
    for k, v in spec.get('methods', {}).items():
        METHODS[k] = (v[0], v[1], [tuple(x) for x in v[2]])
    OPTIONS['fstrings'] = bool(spec.get('fstrings'))
    repo = spec.get('repo', '/repo')
    os.makedirs(outdir, exist_ok=True)
    all_sigs = {}
    mods = [Module(m, repo, all_sigs) for m in spec['modules']]
    full = {}
    for m in mods:
        m.resolve_imports(all_sigs)
        text, report, sha = m.emit()
        with open(os.path.join(outdir, m.coq + '.v'), 'w') as f:
            f.write(text)
        full[m.coq] = {'py': m.spec['py'], 'sha256': sha, 'functions': report}
    json.dump(full, open(os.path.join(outdir, 'translate_report.json'), 'w'), indent=1)
    bad = {k: {q: r for q, r in v['functions'].items() if r != 'ok'} for k, v in full.items()}
    bad = {k: v for k, v in bad.items() if v}
    if bad:
        print('py2coq: untranslated:', json.dumps(bad))
    return 0


if __name__ == '__main__':
    sys.exit(main())
