"""sqwcorr — shared by props/C12.py and props/C13.py: case generators for the SQW builder,
serialisation of inputs/observations as Coq terms (Verif.SQW.Check.case), extraction of the
small source-level facts tied by coq-run/C12/Tie.v (block order tuple, pixel row tables, loop bound).
"""
import ast
import itertools
import math
import os
import re
import struct


ROW_ORDER = ['u1', 'u2', 'u3', 'u4', 'irun', 'idet', 'ien', 'signal', 'error']
ROW_TARGET = {'u1': '1/angstrom', 'u2': '1/angstrom', 'u3': '1/angstrom', 'u4': 'meV',
              'irun': 'none', 'idet': 'none', 'ien': 'none', 'signal': 'count', 'error': 'count**2'}
AX_UNITS = ['1/angstrom', '1/angstrom', '1/angstrom', 'meV']
INV_LEN = ['1/angstrom', '1/nm', '1/um', '1/pm', '1/m']
LEN = ['angstrom', 'nm', 'pm', 'um']
ENERGY = ['meV', 'eV', 'ueV', 'keV']
ANGLE = ['rad', 'deg', 'mrad']
COUNT = ['count', 'kcount', 'Mcount']
KINDS = ['pix', 'inst', 'samp', 'dnd', 'det']


# ------------------------------------------------------------------ Coq term helpers
def cq(s):
    return '"' + s.replace('"', '""') + '"'


def blob(b):
    if isinstance(b, str):
        b = b.encode('utf-8')
    words = [int.from_bytes(b[i:i + 7].ljust(7, b'\0'), 'big') for i in range(0, len(b), 7)]
    groups = [words[i:i + 1000] for i in range(0, len(words), 1000)]
    return f'(unblob {len(b)}%N [' + ';'.join('[' + ';'.join(map(str, g)) + ']%uint63' for g in groups) + '])'


# transport only: while a case term is assembled with sharing switched on, a long list literal that occurs several times
# in the term (the same bit patterns as supplied values, as oracle output and as model input when no conversion took
# place) is written once and let-bound; lists with different content are never merged
_SHARE = None


def f64list(bits):
    if len(bits) <= 3:
        return '[' + ';'.join(str(int(b)) for b in bits) + ']%N'
    raw = b''.join(struct.pack('>Q', int(b)) for b in bits)
    if _SHARE is not None and len(bits) >= 2000:
        if raw not in _SHARE:
            lit = '(f64s ' + blob(raw) + ')'
            narrow = f32_patterns(bits)
            if narrow is not None:      # every value is a normal binary32 number or +-0: 4 bytes each, widened in Coq (CheckC13.f32w)
                lit = '(f32w ' + blob(b''.join(struct.pack('>I', b) for b in narrow)) + ')'
            _SHARE[raw] = (f'shared_{len(_SHARE)}', lit)
        return _SHARE[raw][0]
    return '(f64s ' + blob(raw) + ')'


def f32_patterns(bits64_list):
    """the binary32 patterns of the given binary64 patterns when EVERY one of them is +-0 or a normal binary32 number
    held exactly, else None (transport decision only; the widening is redone in Coq)"""
    out = []
    for b in bits64_list:
        b = int(b)
        s, e, m = b >> 63, (b >> 52) & 2047, b & ((1 << 52) - 1)
        if e == 0 and m == 0:
            out.append(s << 31)
        elif 897 <= e <= 1150 and m & ((1 << 29) - 1) == 0:
            out.append((s << 31) | ((e - 896) << 23) | (m >> 29))
        else:
            return None
    return out


def u32list(bits):
    return '(u32s ' + blob(b''.join(struct.pack('>I', int(b)) for b in bits)) + ')'


def nlist(vals):
    return '[' + ';'.join(str(int(v)) for v in vals) + ']%N'


def blist(vals):
    return '[' + ';'.join('true' if v else 'false' for v in vals) + ']'


def bits64(x):
    return struct.unpack('>Q', struct.pack('>d', float(x)))[0]


def slist(strs):
    return '[' + ';'.join(blob(s) for s in strs) + ']'


# ------------------------------------------------------------------ value generators
def f32_exact(rng):
    return struct.unpack('<f', struct.pack('<f', rng.uniform(-100, 100)))[0]


def f32_tie(rng):
    """a double exactly half way between two neighbouring float32 values"""
    b = rng.randrange(0x00800000, 0x7F000000)
    lo = struct.unpack('<f', struct.pack('<I', b))[0]
    hi = struct.unpack('<f', struct.pack('<I', b + 1))[0]
    v = (float(lo) + float(hi)) / 2.0
    return v if rng.random() < 0.5 else -v


def special_value(rng, limit):
    k = rng.randrange(8)
    if k == 0:
        return 0.0
    if k == 1:
        return f32_exact(rng)
    if k == 2:
        v = f32_tie(rng)
        return v if abs(v) < limit else f32_exact(rng)
    if k == 3:
        return rng.choice([-1, 1]) * rng.uniform(1e-45, 1e-38)      # float32 subnormal range
    if k == 4:
        return rng.choice([-1, 1]) * min(limit, 3.0e38) * rng.uniform(0.5, 1.0)
    if k == 5:
        return rng.choice([-1, 1]) * 10 ** rng.uniform(-60, -46)    # rounds to zero in float32
    if k == 6:
        return float(rng.randrange(-5, 6))
    return rng.choice([-1, 1]) * 10 ** rng.uniform(-30, math.log10(min(limit, 1e30)))


def values(rng, n, limit=1e30, plain=False):
    out = []
    for _ in range(n):
        if plain or rng.random() < 0.6:
            out.append(rng.choice([-1, 1]) * 10 ** rng.uniform(-3, 3))
        else:
            out.append(special_value(rng, limit))
    return out


def ascii_string(rng, n):
    alphabet = 'abcdefghijklmnopqrstuvwxyzABCDEFGHIJKLMNOPQRSTUVWXYZ _-./()[]#%&*+,;=?@^~!$\'"\\{}|<>`'
    return ''.join(rng.choice(alphabet) for _ in range(n))


def strlen(rng, big=False):
    if big:
        return rng.choice([0, 1, 255, 256, 70000])
    return rng.choice([0, 1, 2, 5, 9, 17, 40])


NUM_DTYPES = ['float64', 'float32', 'int32', 'int64']


def pick_dtype(rng, dtypes='mixed', p=0.4):
    """dtype of one supplied numeric field: `dtypes` is a fixed dtype name, 'float64' (the historic class) or
    'mixed' (float64 with probability 1-p, else one of float32 / int32 / int64)"""
    if dtypes != 'mixed':
        return dtypes
    return rng.choice(NUM_DTYPES[1:]) if rng.random() < p else 'float64'


def cast(v, dtype, nonzero=False):
    """the supplied number as a value the dtype holds EXACTLY (so that the value handed to the writer, the value the
    oracle converts and the value Coq multiplies by the exact unit ratio are the same number)"""
    if dtype == 'float32':
        return struct.unpack('<f', struct.pack('<f', v))[0]
    if dtype in ('int32', 'int64'):
        k = int(round(v))
        return (1 if v >= 0 else -1) if (nonzero and k == 0) else k
    return float(v)


def cast_all(vals, dtype, nonzero=False):
    return [cast_all(v, dtype, nonzero) if isinstance(v, list) else cast(v, dtype, nonzero) for v in vals]


def gen_rows(rng, n, convert=True, f32_signal=False, row_dtypes=None):
    """row_dtypes: None (historic: float64 momenta/energy, int64|float64 indices), 'narrow' (momenta/energy float32 when
    they are already in the documented unit, indices int32|int64|float32), 'all-f32' (every one of the nine rows
    float32, as for pixels taken from an existing SQW file; documented units only)"""
    rows = {}
    if row_dtypes == 'f32-exact':
        # float64 / int64 rows in the documented units whose values binary32 holds exactly (compact transport for > 1 MiB blocks)
        for name in ('u1', 'u2', 'u3', 'u4'):
            rows[name] = {'unit': ROW_TARGET[name], 'dtype': 'float64', 'values': [f32_exact(rng) for _ in range(n)]}
        for name in ('irun', 'idet', 'ien'):
            rows[name] = {'unit': None, 'dtype': 'int64', 'values': [rng.randrange(0, 100000) for _ in range(n)]}
        rows['signal'] = {'unit': 'count', 'dtype': 'float64', 'values': [abs(f32_exact(rng)) for _ in range(n)]}
        rows['error'] = {'values': [abs(f32_exact(rng)) for _ in range(n)]}
        return rows
    if row_dtypes == 'all-f32':
        for name in ('u1', 'u2', 'u3', 'u4'):
            rows[name] = {'unit': ROW_TARGET[name], 'dtype': 'float32', 'values': [f32_exact(rng) for _ in range(n)]}
        for name in ('irun', 'idet', 'ien'):
            rows[name] = {'unit': None, 'dtype': 'float32', 'values': [float(rng.randrange(0, 1000)) for _ in range(n)]}
        rows['signal'] = {'unit': 'count', 'dtype': 'float32', 'values': [abs(f32_exact(rng)) for _ in range(n)]}
        rows['error'] = {'values': [abs(f32_exact(rng)) for _ in range(n)]}
        return rows
    if row_dtypes == 'narrow':
        rows = gen_rows(rng, n, convert, f32_signal)
        for name in ('u1', 'u2', 'u3', 'u4'):
            if rows[name]['unit'] == ROW_TARGET[name] and rng.random() < 0.5:
                rows[name] = {'unit': rows[name]['unit'], 'dtype': 'float32', 'values': [f32_exact(rng) for _ in range(n)]}
        for name in ('irun', 'idet', 'ien'):
            dt = rng.choice(['int32', 'int64', 'float32'])
            rows[name] = {'unit': None, 'dtype': dt,
                          'values': [(float if dt == 'float32' else int)(rng.randrange(0, 100000)) for _ in range(n)]}
        return rows
    for name in ('u1', 'u2', 'u3'):
        unit = rng.choice(INV_LEN) if convert else '1/angstrom'
        rows[name] = {'unit': unit, 'dtype': 'float64',
                      'values': values(rng, n, limit=3e38 if unit == '1/angstrom' else 1e25)}
    unit = rng.choice(ENERGY) if convert else 'meV'
    rows['u4'] = {'unit': unit, 'dtype': 'float64', 'values': values(rng, n, limit=3e38 if unit == 'meV' else 1e25)}
    for name in ('irun', 'idet', 'ien'):
        if rng.random() < 0.85:
            rows[name] = {'unit': None, 'dtype': 'int64', 'values': [rng.randrange(0, 100000) for _ in range(n)]}
        else:
            rows[name] = {'unit': None, 'dtype': 'float64', 'values': [float(rng.randrange(0, 1000)) for _ in range(n)]}
    if f32_signal:
        rows['signal'] = {'unit': 'count', 'dtype': 'float32', 'values': [abs(f32_exact(rng)) for _ in range(n)]}
        rows['error'] = {'values': [abs(f32_exact(rng)) for _ in range(n)]}
    else:
        unit = rng.choice(COUNT) if convert else 'count'
        rows['signal'] = {'unit': unit, 'dtype': 'float64',
                          'values': [abs(v) for v in values(rng, n, limit=3e38 if unit == 'count' else 1e20)]}
        rows['error'] = {'values': [abs(v) for v in values(rng, n, limit=3e38 if unit == 'count' else 1e20)]}
    return rows


def sq(rng, units, lo=-50.0, hi=50.0, dtypes='float64'):
    dt = pick_dtype(rng, dtypes)
    out = {'value': cast(rng.choice([0.0, rng.uniform(lo, hi), rng.uniform(lo, hi)]), dt), 'unit': rng.choice(units)}
    if dt != 'float64':
        out['dtype'] = dt
    return out


def with_dtype(spec, dt, nonzero=False):
    """cast the 'values' of a quantity spec to dtype dt and record it (float64 specs stay as they always were)"""
    if dt != 'float64':
        spec['values'] = cast_all(spec['values'], dt, nonzero)
        spec['dtype'] = dt
    return spec


def gen_experiment(rng, run_id, indirect=None, en2d=False, big=False, dtypes='mixed'):
    """dtypes: 'mixed' (each numeric field float64 / float32 / int32 / int64 independently), or one dtype name for
    every field that can carry one (efix, en, psi, omega, dpsi, gl, gs; u and v are scipp vectors: always float64)"""
    if indirect is None:
        indirect = rng.random() < 0.4
    n_en = rng.randrange(1, 6)
    if indirect and rng.random() < 0.7:
        ndet = rng.randrange(1, 5)
        efix = {'scalar': False, 'values': [rng.uniform(0.1, 500) for _ in range(ndet)], 'unit': rng.choice(ENERGY[:3])}
    else:
        ndet = rng.randrange(2, 4)
        efix = {'scalar': True, 'values': [rng.uniform(0.1, 500)], 'unit': rng.choice(ENERGY[:3])}
    eunit = rng.choice(ENERGY[:3])
    if indirect and en2d:
        if rng.random() < 0.5:
            en = {'dims': ['detector', 'energy_transfer'], 'unit': eunit,
                  'values': [[rng.uniform(-20, 20) for _ in range(n_en)] for _ in range(ndet)]}
        else:
            en = {'dims': ['energy_transfer', 'detector'], 'unit': eunit,
                  'values': [[rng.uniform(-20, 20) for _ in range(ndet)] for _ in range(n_en)]}
    else:
        en = {'dims': ['energy_transfer'], 'unit': eunit, 'values': [rng.uniform(-20, 20) for _ in range(n_en)]}
    with_dtype(efix, pick_dtype(rng, dtypes), nonzero=True)
    with_dtype(en, pick_dtype(rng, dtypes))
    return {
        'run_id': run_id, 'efix': efix, 'emode': 'indirect' if indirect else 'direct', 'en': en,
        'psi': sq(rng, ANGLE, -400, 400, dtypes), 'omega': sq(rng, ANGLE, -400, 400, dtypes), 'dpsi': sq(rng, ANGLE, -5, 5, dtypes),
        'gl': sq(rng, ANGLE, -5, 5, dtypes), 'gs': sq(rng, ANGLE, -5, 5, dtypes),
        'u': {'values': [rng.uniform(-2, 2) for _ in range(3)]}, 'v': {'values': [rng.uniform(-2, 2) for _ in range(3)]},
        'filename': ascii_string(rng, strlen(rng, big)), 'filepath': ascii_string(rng, strlen(rng, big)),
    }


def gen_pix_call(rng, n, n_runs=None, convert=True, f32_signal=False, en2d=False, big=False, run_ids='seq',
                 dtypes='mixed', row_dtypes=None):
    if n_runs is None:
        n_runs = rng.randrange(1, 4)
    if n == 0:
        # the range of an empty row is scipp's identity element pushed through to_unit; only modelled for the documented units
        convert, f32_signal, row_dtypes = False, False, None
    ids = list(range(n_runs)) if run_ids == 'seq' else sorted(rng.sample(range(0, 10 * n_runs + 5), n_runs))
    return {'kind': 'pix', 'npix': n, 'rows': gen_rows(rng, n, convert, f32_signal, row_dtypes), 'n_dims': rng.choice([None, None, 4, 3]),
            'experiments': [gen_experiment(rng, i, en2d=en2d, big=big and k == 0, dtypes=dtypes) for k, i in enumerate(ids)]}


EXTRA_COORD_NAMES = ['detector_number', 'tof', 'Q', 'wavelength', 'position_index', 'u5', 'signal_copy', 'event_id']
MASK_NAMES = ['hot_pixel', 'beamstop', 'bad_detector', 'bragg_peak', 'user']


def row_values(call, name):
    return call['rows'][name]['values']


def extreme_flags(call, row, which):
    """flags of ALL pixels that hold the smallest ('min') / largest ('max') supplied value of `row` (so that the
    min / max over the remaining pixels differs whenever the row is not constant)"""
    vals = row_values(call, row)
    if not vals:
        return []
    ext = min(vals) if which == 'min' else max(vals)
    return [v == ext for v in vals]


def add_pix_extras(rng, call, mode='random'):
    """what the supplied pixel DataArray carries BESIDES the nine rows: boolean masks over the pixel dimension and
    coordinates that are not rows.  The SQW pixel block has no notion of masks: all N supplied pixels are content, in
    order, and the pixel metadata describe all N of them.
    mode: 'random' (1..3 masks of random density incl. all-False and all-True, 0..3 extra coordinates),
          ('extreme', row, 'min'|'max'|'both') (one mask flagging exactly the pixels holding that extreme of that row,
          plus possibly a random second mask), 'coords' (extra coordinates only)"""
    n = call['npix']
    masks, extra = [], []
    names = MASK_NAMES[:]
    rng.shuffle(names)
    if isinstance(mode, (tuple, list)) and mode[0] == 'extreme':
        _, row, which = mode
        if which == 'both':
            a, b = extreme_flags(call, row, 'min'), extreme_flags(call, row, 'max')
            flags = [x or y for x, y in zip(a, b)]
        else:
            flags = extreme_flags(call, row, which)
        masks.append({'name': names.pop(), 'flags': flags, 'what': f'{which}:{row}'})
        if rng.random() < 0.4:
            masks.append({'name': names.pop(), 'flags': [rng.random() < 0.2 for _ in range(n)], 'what': 'random'})
    elif mode == 'random':
        for _ in range(rng.randrange(1, 4)):
            dens = rng.choice([0.0, 0.1, 0.5, 0.9, 1.0])
            masks.append({'name': names.pop(), 'flags': [rng.random() < dens for _ in range(n)], 'what': f'density:{dens}'})
    if mode in ('random', 'coords') or rng.random() < 0.5:
        cn = EXTRA_COORD_NAMES[:]
        rng.shuffle(cn)
        for _ in range(rng.randrange(1 if mode == 'coords' else 0, 4)):
            dt = rng.choice(['float64', 'int64', 'float32'])
            scalar_c = rng.random() < 0.25
            k = 1 if scalar_c else n
            vals = [rng.randrange(-1000, 100000) for _ in range(k)] if dt == 'int64' else [cast(rng.uniform(-1e6, 1e6), dt) for _ in range(k)]
            x = {'name': cn.pop(), 'dtype': dt, 'unit': rng.choice([None, 'dimensionless', 'us', 'm', '1/angstrom', 'meV']),
                 'scalar': scalar_c, 'values': vals}
            if dt != 'int64' and rng.random() < 0.3:
                x['variances'] = [cast(rng.uniform(0, 10), dt) for _ in range(k)]
            extra.append(x)
    if masks:
        call['masks'] = masks
    if extra:
        call['extra_coords'] = extra
    return call


def gen_inst_call(rng, big=False, dtypes='mixed'):
    return {'kind': 'inst', 'name': ascii_string(rng, strlen(rng, big)), 'src_name': ascii_string(rng, strlen(rng)),
            'src_target': ascii_string(rng, strlen(rng)), 'freq': sq(rng, ['MHz', 'Hz'], 0, 100, dtypes)}


def gen_samp_call(rng, big=False):
    return {'kind': 'samp', 'name': ascii_string(rng, strlen(rng, big)),
            'alatt': {'values': [rng.uniform(0.5, 20) for _ in range(3)], 'unit': rng.choice(LEN)},
            'angdeg': {'values': [rng.uniform(10, 170) for _ in range(3)], 'unit': rng.choice(['deg', 'rad'])}}


def gen_dnd_call(rng, nbins=None, big=False, dtypes='mixed'):
    """dtypes as in gen_experiment, for img_scales / img_range / both offsets (lattice parameters and u, v, w are vectors:
    float64); n_bins_all_dims and dax are int64 or int32"""
    if nbins is None:
        nbins = [rng.choice([1, 2, 3, 5]) for _ in range(4)]
    k = len(nbins)

    def multi(f):
        return [f(rng.choice(INV_LEN)) for _ in range(3)] + [f(rng.choice(ENERGY))]

    def one(lo, hi, nonzero=False):
        def f(u):
            dt = pick_dtype(rng, dtypes)
            out = {'value': cast(rng.uniform(lo, hi), dt, nonzero), 'unit': u}
            if dt != 'float64':
                out['dtype'] = dt
            return out
        return f

    def rng_pair(u):
        dt = pick_dtype(rng, dtypes)
        return with_dtype({'values': sorted([rng.uniform(-10, 10), rng.uniform(-10, 10)]), 'unit': u}, dt)
    axes = {
        'title': ascii_string(rng, strlen(rng, big)), 'label': [ascii_string(rng, rng.choice([0, 1, 2, 6])) for _ in range(4)],
        'img_scales': multi(one(0.01, 10, nonzero=True)),
        'img_range': multi(rng_pair),
        'nbins': nbins, 'single_bin': [rng.random() < 0.5 for _ in range(k)],
        'dax': rng.sample(range(4), 4), 'offset': multi(one(-3, 3)),
        'changes_aspect': rng.random() < 0.5,
    }
    if dtypes != 'float64':
        idt = rng.choice(['int64', 'int64', 'int32'])
        if idt != 'int64':
            axes['int_dtype'] = idt
    vu = rng.choice(INV_LEN[:3])
    proj = {
        'alatt': {'values': [rng.uniform(0.5, 20) for _ in range(3)], 'unit': rng.choice(LEN)},
        'angdeg': {'values': [rng.uniform(10, 170) for _ in range(3)], 'unit': rng.choice(['deg', 'rad'])},
        'offset': multi(one(-3, 3)),
        'title': ascii_string(rng, strlen(rng)), 'label': [ascii_string(rng, rng.choice([0, 1, 3])) for _ in range(4)],
        'u': {'values': [rng.uniform(-2, 2) for _ in range(3)], 'unit': vu},
        'v': {'values': [rng.uniform(-2, 2) for _ in range(3)], 'unit': rng.choice(INV_LEN[:3])},
        'w': None if rng.random() < 0.5 else {'values': [rng.uniform(-2, 2) for _ in range(3)], 'unit': vu},
        'nonorth': rng.random() < 0.3,
    }
    return {'kind': 'dnd', 'axes': axes, 'proj': proj}


def gen_call(rng, kind, n=3, dtypes='mixed', **kw):
    if kind == 'pix':
        return gen_pix_call(rng, n, dtypes=dtypes, **kw)
    if kind == 'inst':
        return gen_inst_call(rng, dtypes=dtypes)
    if kind == 'samp':
        return gen_samp_call(rng)
    if kind == 'dnd':
        return gen_dnd_call(rng, dtypes=dtypes)
    return {'kind': 'det'}


def field_dtypes(call):
    """the dtypes of the numeric fields of one generated call (float64 when not recorded), for coverage / descriptions"""
    out = {}

    def see(name, spec):
        if isinstance(spec, dict) and ('value' in spec or 'values' in spec):
            out[name] = spec.get('dtype', 'float64')
    k = call['kind']
    if k == 'pix':
        for x in call['experiments']:
            for f in ('efix', 'en', 'psi', 'omega', 'dpsi', 'gl', 'gs'):
                out.setdefault('exp.' + f, set()).add(x[f].get('dtype', 'float64'))
        for name, r in call['rows'].items():
            if 'dtype' in r:
                out.setdefault('row.' + name, set()).add(r['dtype'])
        return {a: sorted(b) for a, b in out.items()}
    if k == 'inst':
        see('inst.freq', call['freq'])
    if k == 'dnd':
        for grp, pfx in ((call['axes'], 'ax.'), (call['proj'], 'pr.')):
            for f in ('img_scales', 'img_range', 'offset'):
                for i, spec in enumerate(grp.get(f, [])):
                    see(f'{pfx}{f}.{i}', spec)
        out['ax.int'] = call['axes'].get('int_dtype', 'int64')
    return out


def all_sequences():
    """every ordering of every subset of the five builder calls (326)"""
    out = []
    for k in range(len(KINDS) + 1):
        for sub in itertools.combinations(KINDS, k):
            out.extend(itertools.permutations(sub))
    return out


def chunk_grid(n):
    return sorted({c for c in (1, 2, 8, 9, 10, n - 1, n, n + 1, 8192) if c >= 1})


def mk_case(rng, calls, byteorder=None, sink=None, title=None, chunk=None, tags=()):
    return {'byteorder': byteorder or rng.choice(['native', 'little', 'big']),
            'sink': sink or rng.choice(['bytesio', 'bytesio', 'file']),
            'title': ascii_string(rng, strlen(rng)) if title is None else title,
            'chunk': chunk, 'calls': calls, 'tags': list(tags)}


def describe(case):
    """short, json-able description of a case for evidence samples / replays"""
    d = {'byteorder': case['byteorder'], 'sink': case['sink'], 'title_len': len(case['title']), 'chunk': case['chunk'],
         'calls': [], 'tags': case.get('tags', [])}
    for c in case['calls']:
        if c['kind'] == 'pix':
            d['calls'].append({'kind': 'pix', 'npix': c['npix'], 'n_runs': len(c['experiments']),
                               'row_units': {k: c['rows'][k].get('unit') for k in ('u1', 'u2', 'u3', 'u4', 'signal')},
                               'modes': sorted({x['emode'] for x in c['experiments']}),
                               'en_ndim': sorted({len(x['en']['dims']) for x in c['experiments']}),
                               'dtypes': {k: v for k, v in field_dtypes(c).items() if v not in (['float64'], ['int64'])}})
            if c.get('masks'):
                d['calls'][-1]['masks'] = [{'name': m['name'], 'what': m.get('what'), 'n_masked': sum(map(bool, m['flags']))}
                                           for m in c['masks']]
            if c.get('extra_coords'):
                d['calls'][-1]['extra_coords'] = [{'name': x['name'], 'dtype': x['dtype'], 'unit': x['unit'], 'scalar': x['scalar'],
                                                   'variances': 'variances' in x} for x in c['extra_coords']]
        elif c['kind'] == 'dnd':
            d['calls'].append({'kind': 'dnd', 'nbins': c['axes']['nbins'],
                               'dtypes': {k: v for k, v in field_dtypes(c).items() if v not in ('float64', 'int64')}})
        elif c['kind'] == 'inst':
            d['calls'].append({'kind': 'inst', 'freq_dtype': c['freq'].get('dtype', 'float64')})
        else:
            d['calls'].append({'kind': c['kind']})
    return d


# ------------------------------------------------------------------ cases -> Coq
def experiment_term(x, ox):
    return ('{| x_filename := %s; x_filepath := %s; x_run_id := %d%%N; x_efix := %s; x_emode := %d%%N; '
            'x_en_rows := %d%%N; x_en := %s; x_psi := %d%%N; x_u := %s; x_v := %s; x_omega := %d%%N; '
            'x_dpsi := %d%%N; x_gl := %d%%N; x_gs := %d%%N |}') % (
        blob(x['filename']), blob(x['filepath']), x['run_id'], f64list(ox['efix']),
        1 if x['emode'] == 'direct' else 2, ox['en_rows'], f64list(ox['en']), ox['psi'], f64list(ox['u']),
        f64list(ox['v']), ox['omega'], ox['dpsi'], ox['gl'], ox['gs'])


def flat(v):
    out = []
    for a in v:
        if isinstance(a, list):
            out.extend(flat(a))
        else:
            out.append(a)
    return out


def supplied_bits(vals):
    return [bits64(v) for v in flat(vals)]


def qty(what, unit, vals, target, conv):
    return '{| q_what := %s; q_unit := %s; q_vals := %s; q_target := %s; q_conv := %s |}' % (
        cq(what), cq(unit or 'none'), f64list(supplied_bits(vals)), cq(target), f64list(conv))


def call_terms(case, res):
    """the builder calls as Verif.SQW.Model.call terms (values = the oracle's converted bit patterns) and the
    list of conversions the oracle made"""
    calls, convs = [], []
    for c, o in zip(case['calls'], res['oracle']):
        k = c['kind']
        if k == 'pix':
            rows = '[' + ';'.join(f64list(r) for r in o['rows']) + ']'
            xs = '[' + ';'.join(experiment_term(x, ox) for x, ox in zip(c['experiments'], o['experiments'])) + ']'
            nd = 4 if c.get('n_dims') is None else c['n_dims']
            calls.append(f'(CPix {{| pw_rows := {rows}; pw_int := {blist(o["ints"])} |}} {xs} {nd}%N)')
            for name, conv in zip(ROW_ORDER, o['rows']):
                r = c['rows'][name]
                unit = r.get('unit')
                if name == 'error':
                    unit = c['rows']['signal']['unit'] + '**2'
                convs.append(qty('pix.' + name, unit, r['values'], ROW_TARGET[name], conv))
            for x, ox in zip(c['experiments'], o['experiments']):
                convs.append(qty('exp.efix', x['efix']['unit'], x['efix']['values'], 'meV', ox['efix']))
                en = x['en']['values']
                if x['en']['dims'] == ['energy_transfer', 'detector']:
                    en = [list(r) for r in zip(*en)]
                convs.append(qty('exp.en', x['en']['unit'], en, 'meV', ox['en']))
                for a in ('psi', 'omega', 'dpsi', 'gl', 'gs'):
                    convs.append(qty('exp.' + a, x[a]['unit'], [x[a]['value']], 'rad', [ox[a]]))
                convs.append(qty('exp.u', 'dimensionless', x['u']['values'], 'dimensionless', ox['u']))
                convs.append(qty('exp.v', 'dimensionless', x['v']['values'], 'dimensionless', ox['v']))
        elif k == 'det':
            calls.append('CDet')
        elif k == 'inst':
            calls.append('(CInst {| in_name := %s; in_src_name := %s; in_src_target := %s; in_src_freq := %d%%N |})' % (
                blob(c['name']), blob(c['src_name']), blob(c['src_target']), o['freq']))
        elif k == 'samp':
            calls.append('(CSamp {| sa_name := %s; sa_alatt := %s; sa_angdeg := %s |})' % (
                blob(c['name']), f64list(o['alatt']), f64list(o['angdeg'])))
            convs.append(qty('samp.alatt', c['alatt']['unit'], c['alatt']['values'], 'angstrom', o['alatt']))
            convs.append(qty('samp.angdeg', c['angdeg']['unit'], c['angdeg']['values'], 'deg', o['angdeg']))
        elif k == 'dnd':
            a, p = c['axes'], c['proj']
            axes = ('{| ax_title := %s; ax_label := %s; ax_img_scales := %s; ax_img_range := %s; ax_nbins := %s; '
                    'ax_single_bin := %s; ax_dax := %s; ax_offset := %s; ax_changes_aspect := %s |}') % (
                blob(a['title']), slist(a['label']), f64list(o['img_scales']), f64list(o['img_range']),
                nlist(a['nbins']), blist(a['single_bin']), nlist(a['dax']), f64list(o['ax_offset']),
                'true' if a['changes_aspect'] else 'false')
            proj = ('{| pr_alatt := %s; pr_angdeg := %s; pr_offset := %s; pr_title := %s; pr_label := %s; pr_u := %s; '
                    'pr_v := %s; pr_w := %s; pr_nonorth := %s; pr_type := %s |}') % (
                f64list(o['alatt']), f64list(o['angdeg']), f64list(o['pr_offset']), blob(p['title']), slist(p['label']),
                f64list(o['u']), f64list(o['v']), f64list(o['w']), 'true' if p['nonorth'] else 'false', blob('aaa'))
            calls.append(f'(CDnd {{| dm_axes := {axes}; dm_proj := {proj} |}})')
            for i in range(4):
                convs.append(qty('dnd.img_scales', a['img_scales'][i]['unit'], [a['img_scales'][i]['value']], AX_UNITS[i],
                                 [o['img_scales'][i]]))
                convs.append(qty('dnd.img_range', a['img_range'][i]['unit'], a['img_range'][i]['values'], AX_UNITS[i],
                                 o['img_range'][2 * i:2 * i + 2]))
                convs.append(qty('dnd.ax_offset', a['offset'][i]['unit'], [a['offset'][i]['value']], AX_UNITS[i],
                                 [o['ax_offset'][i]]))
                convs.append(qty('dnd.pr_offset', p['offset'][i]['unit'], [p['offset'][i]['value']], AX_UNITS[i],
                                 [o['pr_offset'][i]]))
            convs.append(qty('dnd.alatt', p['alatt']['unit'], p['alatt']['values'], 'angstrom', o['alatt']))
            convs.append(qty('dnd.angdeg', p['angdeg']['unit'], p['angdeg']['values'], 'deg', o['angdeg']))
            convs.append(qty('dnd.u', p['u']['unit'], p['u']['values'], '1/angstrom', o['u']))
            convs.append(qty('dnd.v', p['v']['unit'], p['v']['values'], '1/angstrom', o['v']))
            if p['w'] is not None:
                convs.append(qty('dnd.w', p['w']['unit'], p['w']['values'], '1/angstrom', o['w']))
    return calls, convs


def obs_term(path, o):
    k = o['k']
    if k == 'str':
        return f'({cq(path)}, RStr {blob(o["v"])})'
    if k == 'int':
        if int(o['v']) < 0:      # no negative integer is ever expected: the comparison reports a kind mismatch
            return f'({cq(path)}, RNum "negative-int" [])'
        return f'({cq(path)}, RInt {int(o["v"])}%N)'
    if k == 'u32':
        return f'({cq(path)}, RU32 {u32list(o["vals"])})'
    if o['unit'] in ('ints', 'shape'):
        if any(v < 0 for v in o['vals']):
            return f'({cq(path)}, RNum "negative-ints" [])'
        return f'({cq(path)}, RNum {cq(o["unit"])} {nlist(o["vals"])})'
    return f'({cq(path)}, RNum {cq(o["unit"])} {f64list(o["vals"])})'


def endian_term(s):
    return 'LE' if s == 'little' else 'BE'


def case_term(case, res, with_convs=True, with_reader_view=True, share=False):
    global _SHARE
    if share:
        _SHARE = {}
        try:
            body = case_term(case, res, with_convs, with_reader_view)
            lets = ''.join(f'let {name} := {lit} in\n' for name, lit in _SHARE.values())
        finally:
            _SHARE = None
        return f'({lets}{body})' if lets else body
    calls, convs = call_terms(case, res)
    env = res['env']
    dates = env.get('dates', [])
    has_dnd = any(c['kind'] == 'dnd' for c in case['calls'])
    d_main = dates[0] if dates else ''
    d_dnd = dates[1] if (has_dnd and len(dates) > 1) else ''
    bo = case['byteorder'] if case['byteorder'] != 'native' else res['native']
    rd = res.get('reader', {})
    info = rd.get('info')
    if info is None:
        r_open, r_end, r_hdr, r_nd, r_names, r_view, r_err = 'false', 'LE', 'false', 0, '[]', '[]', '[]'
    else:
        r_open = 'true'
        r_end = endian_term(info['byteorder'])
        r_hdr = 'true' if (info['prog_name'] == 'horace' and info['prog_version_bits'] == 0x4010000000000000
                           and info['sqw_type'] == 1) else 'false'
        r_nd = info['n_dims']
        r_names = '[' + ';'.join(f'({blob(a)}, {blob(b)})' for a, b in info['block_names']) + ']'
        view = rd['view'] if with_reader_view else {}
        r_view = '[' + ';\n   '.join(obs_term(p, o) for p, o in view.items()) + ']'
        r_err = '[' + ';'.join(cq(k) for k in rd['errors']) + ']%string' if rd['errors'] else '[]'
    chunk = 8192 if case['chunk'] is None else case['chunk']
    return ('{| c_endian := %s;\n  c_env := {| env_full := %s; env_path := %s; env_name := %s; env_date_main := %s; env_date_dnd := %s |};\n'
            '  c_title := %s;\n  c_calls := [%s];\n  c_chunk := %d%%N;\n  c_file := %s;\n  c_convs := [%s];\n  c_dates_ok := %s;\n'
            '  c_r_open := %s; c_r_endian := %s; c_r_header_ok := %s; c_r_ndims := %d%%N;\n  c_r_names := %s;\n  c_r_view := %s;\n'
            '  c_r_errors := %s |}') % (
        endian_term(bo), blob(env['full']), blob(env['path']), blob(env['name']), blob(d_main), blob(d_dnd),
        blob(case['title']), ';\n    '.join(calls), chunk, blob(bytes.fromhex(res['file_hex'])),
        ';\n    '.join(convs) if with_convs else '', 'true' if res.get('dates_in_window') else 'false',
        r_open, r_end, r_hdr, r_nd, r_names, r_view, r_err)


HEADER = ('From Coq Require Import NArith ZArith String List Bool Uint63.\n'
          'From Verif.SQW Require Import Bytes Format Model Content Check.\n'
          'From Run Require Import GenSqw.\n'
          'Import ListNotations.\nOpen Scope string_scope.\n')


# ------------------------------------------------------------------ shared by the two property modules
def run_harness(ctx, cases, batch=150):
    results = []
    for k in range(0, len(cases), batch):
        payload = {'cases': [{kk: v for kk, v in c.items() if kk != 'tags'} for c in cases[k:k + batch]]}
        results.extend(ctx.run_impl('sqw_impl.py', payload)['cases'])
    return results


def norm_reason(r):
    r = re.sub(r'@\d+', '', r)
    r = re.sub(r'\.\d+\.', '.N.', r)
    return r


def case_size(c):
    return sum(cl.get('npix', 0) for cl in c['calls'])


def py_structure(raw):
    """the property statement evaluated directly on the bytes (used by search/replay): header, table, extents to EOF"""
    bo = '<' if int.from_bytes(raw[:4], 'little') < int.from_bytes(raw[:4], 'big') else '>'
    pos = 0

    def u32():
        nonlocal pos
        v = struct.unpack(bo + 'I', raw[pos:pos + 4])[0]
        pos += 4
        return v

    def chars():
        nonlocal pos
        n = u32()
        s = raw[pos:pos + n]
        pos += n
        return s.decode('latin1')
    prog = chars()
    ver = struct.unpack(bo + 'd', raw[pos:pos + 8])[0]
    pos += 8
    ty, nd = u32(), u32()
    bat_size = u32()
    bat_begin = pos
    nblocks = u32()
    descs = []
    for _ in range(nblocks):
        t, n1, n2 = chars(), chars(), chars()
        p = struct.unpack(bo + 'Q', raw[pos:pos + 8])[0]
        pos += 8
        sz, lk = u32(), u32()
        descs.append({'type': t, 'name': [n1, n2], 'position': p, 'size': sz})
    problems = []
    if prog != 'horace' or ver != 4.0 or ty != 1:
        problems.append('header')
    if bat_size != pos - bat_begin:
        problems.append('bat size field')
    exp = pos
    for d in descs:
        if d['position'] != exp:
            problems.append(f'extent of {d["name"]} starts at {d["position"]}, expected {exp}')
        exp = d['position'] + d['size']
    if exp != len(raw):
        problems.append(f'last extent ends at {exp}, file has {len(raw)} bytes')
    names = [tuple(d['name']) for d in descs]
    if len(set(names)) != len(names):
        problems.append('duplicate block in the table')
    for d in descs:
        why = block_problem(raw, d, bo)
        if why:
            problems.append(f'block {d["name"]} ({d["type"]}, extent {d["position"]}+{d["size"]}) {why}')
    return {'byteorder': 'little' if bo == '<' else 'big', 'n_dims': nd, 'descs': descs, 'problems': problems}


# "each extent holding a block of the declared type that decodes completely within it", evaluated on the bytes with a
# decoder written from the format description (typed, self-describing object arrays), not with the package's reader
SCALAR_SIZE = {0: 1, 3: 8, 4: 4, 5: 1, 6: 1, 9: 4, 10: 4, 11: 8, 12: 8}     # logical f64 f32 i8 u8 i32 u32 i64 u64
EXPECTED_TYPE = {('data', 'nd_data'): 'dnd_data_block', ('pix', 'data_wrap'): 'pix_data_block'}


class _Undecodable(Exception):
    pass


def decode_object_array(raw, pos, end, bo, depth=0):
    """position after ONE object array starting at pos; raises _Undecodable when it would leave [pos, end) or meets an
    unknown type tag"""
    def take(n):
        nonlocal pos
        if n < 0 or pos + n > end:
            raise _Undecodable(f'needs {n} bytes at offset {pos}, the extent ends at {end}')
        b = raw[pos:pos + n]
        pos += n
        return b

    def u32():
        return struct.unpack(bo + 'I', take(4))[0]
    if depth > 64:
        raise _Undecodable('nesting deeper than 64')
    tag = take(1)[0]
    if tag == 32:                                  # "serializes itself": the object array follows
        return decode_object_array(raw, pos, end, bo, depth + 1)
    shape = [u32() for _ in range(take(1)[0])]
    vol = 1
    for k in shape:
        vol *= k
    if tag == 1:                                   # char: nothing at all for the empty shape
        if shape:
            take(vol)
    elif tag == 23:                                # cell: vol object arrays
        for _ in range(vol):
            pos = decode_object_array(raw, pos, end, bo, depth + 1)
    elif tag == 24:                                # struct(s): field names once, then ONE cell array with all values
        if shape:
            sizes = [u32() for _ in range(u32())]
            for k in sizes:
                take(k)
            if pos >= end or raw[pos] != 23:
                raise _Undecodable(f'struct field values at offset {pos} are not a cell array')
            pos = decode_object_array(raw, pos, end, bo, depth + 1)
    elif tag in SCALAR_SIZE:
        take(SCALAR_SIZE[tag] * vol)
    else:
        raise _Undecodable(f'unknown type tag {tag} at offset {pos - 2 - 4 * len(shape)}')
    return pos


def block_problem(raw, d, bo):
    """'' when the extent of descriptor d holds a block of the declared type that decodes to exactly its size"""
    name, p, size = tuple(d['name']), d['position'], d['size']
    end = p + size
    if d['type'] != EXPECTED_TYPE.get(name, 'data_block'):
        return f'is declared as {d["type"]}'
    if end > len(raw):
        return f'ends beyond the end of the file ({len(raw)} bytes)'
    try:
        if name == ('pix', 'data_wrap'):
            if size < 12:
                return 'is shorter than the pixel block header'
            n_rows = struct.unpack(bo + 'I', raw[p:p + 4])[0]
            n_pix = struct.unpack(bo + 'Q', raw[p + 4:p + 12])[0]
            used = 12 + 4 * n_rows * n_pix
        elif name == ('data', 'nd_data'):
            if size < 4:
                return 'is shorter than the histogram block header'
            k = struct.unpack(bo + 'I', raw[p:p + 4])[0]
            if 4 + 4 * k > size:
                return f'declares {k} dimensions that do not fit'
            shape = struct.unpack(bo + f'{k}I', raw[p + 4:p + 4 + 4 * k])
            vol = 1
            for n in shape:
                vol *= n
            used = 4 + 4 * k + 3 * 8 * vol
        else:
            used = decode_object_array(raw, p, end, bo) - p
    except _Undecodable as ex:
        return f'does not decode within its extent: {ex}'
    return '' if used == size else f'decodes to {used} of its {size} bytes'



# ------------------------------------------------------------------ source facts for tie A
def source_facts(repo):
    """small syntactic facts of /repo's CURRENT _build.py: the canonical block order tuple, the default pixel
    row names / units, and the stop expression of the chunk loop in _PixWrap.write (fail-closed)."""
    path = os.path.join(repo, 'src', 'scippneutron', 'io', 'sqw', '_build.py')
    src = open(path).read()
    tree = ast.parse(src)
    facts = {}
    for node in tree.body:
        if isinstance(node, ast.Assign) and len(node.targets) == 1 and isinstance(node.targets[0], ast.Name):
            if node.targets[0].id in ('_DEFAULT_PIX_ROWS', '_DEFAULT_PIX_ROW_UNITS'):
                facts[node.targets[0].id] = list(ast.literal_eval(node.value))
        if isinstance(node, ast.FunctionDef) and node.name == '_to_canonical_block_order':
            for st in node.body:
                if isinstance(st, ast.Assign) and isinstance(st.targets[0], ast.Name) and st.targets[0].id == 'order':
                    facts['order'] = [list(t) for t in ast.literal_eval(st.value)]
        if isinstance(node, ast.ClassDef) and node.name == '_PixWrap':
            for fn in node.body:
                if isinstance(fn, ast.FunctionDef) and fn.name == 'write':
                    loops = [n for n in ast.walk(fn) if isinstance(n, ast.For) and isinstance(n.iter, ast.Call)
                             and isinstance(n.iter.func, ast.Name) and n.iter.func.id == 'range']
                    if len(loops) != 1:
                        raise ValueError('_PixWrap.write: expected exactly one range() loop')
                    args = loops[0].iter.args
                    if len(args) != 3 or ast.unparse(args[0]) != '0' or ast.unparse(args[2]) != 'chunk_size':
                        raise ValueError('_PixWrap.write: unexpected range() arguments ' + ast.unparse(loops[0].iter))
                    facts['loop_stop_src'] = ast.unparse(args[1])
                if isinstance(fn, ast.FunctionDef) and fn.name == 'size':
                    rets = [n for n in ast.walk(fn) if isinstance(n, ast.Return)]
                    facts['pix_size_src'] = ast.unparse(rets[0].value) if rets else None
    missing = [k for k in ('_DEFAULT_PIX_ROWS', '_DEFAULT_PIX_ROW_UNITS', 'order', 'loop_stop_src') if k not in facts]
    if missing:
        raise ValueError('could not extract from _build.py: ' + ', '.join(missing))
    stop = facts['loop_stop_src']
    if stop == 'self.n_rows()':
        facts['bound'] = 'BoundNRows'
    elif stop == 'self.n_pixels()':
        facts['bound'] = 'BoundNPixels'
    else:
        raise ValueError('_PixWrap.write: loop bound expression not understood: ' + stop)
    import hashlib
    facts['sha256'] = hashlib.sha256(src.encode()).hexdigest()
    return facts


def gen_sqw_v(facts):
    order = '[' + '; '.join(f'(bs {cq(a)}, bs {cq(b)})' for a, b in facts['order']) + ']'
    rows = '[' + '; '.join(cq(r) for r in facts['_DEFAULT_PIX_ROWS']) + ']'
    units = '[' + '; '.join(cq(u if u is not None else 'none') for u in facts['_DEFAULT_PIX_ROW_UNITS']) + ']'
    return ('(* GENERATED on every run from /repo/src/scippneutron/io/sqw/_build.py (sha256 %s) *)\n'
            'From Coq Require Import String List.\nFrom Verif.SQW Require Import Bytes Format Model.\n'
            'Import ListNotations.\nLocal Open Scope string_scope.\n'
            '(* the tuple `order` in _to_canonical_block_order *)\nDefinition src_block_order : list bname := %s.\n'
            '(* _DEFAULT_PIX_ROWS / _DEFAULT_PIX_ROW_UNITS *)\nDefinition src_pix_rows : list string := %s.\n'
            'Definition src_pix_row_units : list string := %s.\n'
            '(* `for offset in range(0, %s, chunk_size)` in _PixWrap.write *)\nDefinition src_loop_bound : bound_kind := %s.\n'
            '(* _PixWrap.size: %s *)\n') % (
        facts['sha256'], order, rows, units, facts['loop_stop_src'], facts['bound'], facts.get('pix_size_src'))


# ------------------------------------------------------------------ unit tables of writer (_models.py) and reader (_sqw.py)
def _const_str(node):
    return node.value if isinstance(node, ast.Constant) and isinstance(node.value, str) else None


def _eval_unit_list(node):
    """["1/angstrom"] * 3 + ["meV"]  ->  list of str (fail-closed)"""
    if isinstance(node, ast.List):
        out = [_const_str(e) for e in node.elts]
        if any(o is None for o in out):
            raise ValueError('unit list element is not a string literal')
        return out
    if isinstance(node, ast.BinOp) and isinstance(node.op, ast.Add):
        return _eval_unit_list(node.left) + _eval_unit_list(node.right)
    if isinstance(node, ast.BinOp) and isinstance(node.op, ast.Mult) and isinstance(node.right, ast.Constant):
        return _eval_unit_list(node.left) * int(node.right.value)
    raise ValueError('unit list expression not understood: ' + ast.unparse(node))


READER_CLASS = {'_parse_ix_sample_0_0': 'IX_sample', '_parse_line_proj_7_0': 'line_proj',
                '_parse_single_ix_experiment_3_0': 'IX_experiment'}


def unit_facts(repo):
    base = os.path.join(repo, 'src', 'scippneutron', 'io', 'sqw')
    models = ast.parse(open(os.path.join(base, '_models.py')).read())
    reader = ast.parse(open(os.path.join(base, '_sqw.py')).read())
    writer_units, writer_multi = [], {}
    for cls in [n for n in models.body if isinstance(n, ast.ClassDef)]:
        serial = None
        for st in cls.body:
            if isinstance(st, ast.AnnAssign) and isinstance(st.target, ast.Name) and st.target.id == 'serial_name':
                serial = _const_str(st.value)
        for fn in [n for n in cls.body if isinstance(n, ast.FunctionDef) and n.name == '_serialize_to_dict']:
            local = {}
            for st in ast.walk(fn):
                if isinstance(st, ast.Assign) and len(st.targets) == 1 and isinstance(st.targets[0], ast.Name):
                    if st.targets[0].id == 'units':
                        writer_multi[serial] = _eval_unit_list(st.value)
                    # w = _variable_to_float_array(self.w, "1/angstrom")
                    v = st.value
                    if isinstance(v, ast.Call) and isinstance(v.func, ast.Name) and v.func.id == '_variable_to_float_array' \
                            and len(v.args) == 2 and _const_str(v.args[1]) is not None:
                        local[st.targets[0].id] = _const_str(v.args[1])
            for d in [n for n in ast.walk(fn) if isinstance(n, ast.Dict)]:
                for k, v in zip(d.keys, d.values):
                    key = _const_str(k)
                    if key is None:
                        continue
                    if isinstance(v, ast.Call) and isinstance(v.func, ast.Name) and v.func.id == '_variable_to_float_array' \
                            and len(v.args) == 2:
                        u = _const_str(v.args[1])
                        if u is not None:
                            writer_units.append([serial, key, u])
                    elif isinstance(v, ast.Name) and v.id in local:
                        writer_units.append([serial, key, local[v.id]])
    reader_units, reader_multi = [], {}
    for fn in [n for n in reader.body if isinstance(n, ast.FunctionDef) and n.name in READER_CLASS]:
        cls = READER_CLASS[fn.name]
        units_list = None
        for st in ast.walk(fn):
            if isinstance(st, ast.Assign) and len(st.targets) == 1 and isinstance(st.targets[0], ast.Name) \
                    and st.targets[0].id == 'units':
                units_list = _eval_unit_list(st.value)
                reader_multi[cls] = units_list
        for call in [n for n in ast.walk(fn) if isinstance(n, ast.Call)]:
            kw = {k.arg: k.value for k in call.keywords}
            if 'unit' not in kw:
                continue
            fields = [_const_str(c.args[1]) for c in ast.walk(call)
                      if isinstance(c, ast.Call) and isinstance(c.func, ast.Name) and c.func.id == '_get_struct_field'
                      and len(c.args) == 2]
            names = [_const_str(a) for a in call.args]       # get_vec("u", unit=units[0])
            u = _const_str(kw['unit'])
            if u is None and isinstance(kw['unit'], ast.Subscript) and isinstance(kw['unit'].value, ast.Name) \
                    and kw['unit'].value.id == 'units' and units_list is not None and isinstance(kw['unit'].slice, ast.Constant):
                u = units_list[kw['unit'].slice.value]
            if u is None:
                continue
            if fields and fields[0] is not None:
                reader_units.append([cls, fields[0], u])
            elif isinstance(call.func, ast.Name) and call.func.id == 'get_vec' and names and names[0] is not None:
                reader_units.append([cls, names[0], u])
    for need in READER_CLASS:
        if not any(isinstance(n, ast.FunctionDef) and n.name == need for n in reader.body):
            raise ValueError(f'_sqw.py: parser {need} not found')
    if not any(w[:2] == ['IX_sample', 'alatt'] for w in writer_units) or not any(r[:2] == ['IX_sample', 'alatt'] for r in reader_units):
        raise ValueError('unit extraction did not find the sample lattice parameters')
    return {'writer_units': writer_units, 'reader_units': reader_units, 'writer_multi': writer_multi, 'reader_multi': reader_multi}


def gen_units_v(f):
    def triples(l):
        return '[' + '; '.join(f'({cq(a)}, {cq(b)}, {cq(c)})' for a, b, c in l) + ']'

    def multi(d):
        return '[' + '; '.join(f'({cq(k)}, [' + '; '.join(cq(u) for u in v) + '])' for k, v in sorted(d.items())) + ']'
    return ('(* GENERATED on every run from /repo/src/scippneutron/io/sqw/_models.py and _sqw.py *)\n'
            'From Coq Require Import String List.\nImport ListNotations.\nLocal Open Scope string_scope.\n'
            '(* (class, field, unit the WRITER converts to)  -- _variable_to_float_array(x, unit) in _serialize_to_dict *)\n'
            f'Definition writer_units : list (string * string * string) := {triples(f["writer_units"])}.\n'
            '(* (class, field, unit the READER attaches)  -- sc.vector/sc.array(..., unit=...) in _parse_* *)\n'
            f'Definition reader_units : list (string * string * string) := {triples(f["reader_units"])}.\n'
            '(* `units = [...]` lists used for img_scales / img_range / offset *)\n'
            f'Definition writer_multi_units : list (string * list string) := {multi(f["writer_multi"])}.\n'
            f'Definition reader_multi_units : list (string * list string) := {multi(f["reader_multi"])}.\n')
