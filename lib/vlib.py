"""vlib — shared driver for the per-property checks (see DESIGN.md section 2).

A property module props/Cxx.py provides

    ID            'Cxx'
    LEVEL         'proof' | 'translation_validation' | ...
    TRANSLATE     py2coq spec (dict) or None
    RUN_FILES     ordered list of .v files under coq-run/Cxx/ compiled on every run
    PROPERTY_FILE name of the run file holding the property theorems (counted as obligations)
    correspondence(ctx) -> dict    run the implementation, let Coq compare with the model
    search(ctx, broken) -> list    look for a concrete failing input when an obligation broke
    replay(ctx, obj)               re-run one recorded input

and this module does the rest: regenerate, compile, collect Print Assumptions,
known findings, evidence, VIOLATION lines, exit status.
"""
import hashlib
import json
import os
import re
import shutil
import subprocess
import sys
import time

VERIF = os.path.dirname(os.path.dirname(os.path.abspath(__file__)))
REPO = os.environ.get('VERIF_REPO', '/repo')
PY = '/venv/bin/python'
COQ_STATIC = os.path.join(VERIF, 'coq')
NCPU = min(16, os.cpu_count() or 4)

FORBIDDEN = re.compile(
    r'\b(Admitted|admit|Axiom|Axioms|Parameter|Parameters|Conjecture|Conjectures|Admit Obligations)\b'
    r'|Unset\s+Guard|bypass_check|Unset\s+Positivity|Unset\s+Universe|type-in-type|impredicative-set')


def sh(cmd, timeout=600, cwd=None, env=None, input=None):
    e = dict(os.environ)
    e.update({'PYTHONPATH': os.path.join(REPO, 'src'), 'PYTHONHASHSEED': '0',
              'SCIPPNEUTRON_VERIF': '1', 'PIP_NO_INDEX': '1'})
    if env:
        e.update(env)
    try:
        p = subprocess.run(cmd, cwd=cwd, env=e, timeout=timeout, input=input,
                           stdout=subprocess.PIPE, stderr=subprocess.STDOUT, text=True,
                           shell=isinstance(cmd, str))
        return p.returncode, p.stdout
    except subprocess.TimeoutExpired as ex:
        out = ex.stdout or ''
        if isinstance(out, bytes):
            out = out.decode(errors='replace')
        return 124, out + f'\n[timeout after {timeout}s]'


def clean_out(s):
    return '\n'.join(l for l in s.splitlines() if 'conda' not in l.lower())


class Violation:
    def __init__(self, key, what, replay, found_input=True):
        self.key = key            # stable identifier (matched against known_findings.txt)
        self.what = what
        self.replay = replay      # json-serialisable
        self.found_input = found_input


class Ctx:
    def __init__(self, mod, tier, seed):
        self.mod = mod
        self.id = mod.ID
        self.tier = tier
        self.seed = seed
        self.t0 = time.time()
        # drills against a scratch repo (VERIF_REPO) build in their own directory so that they cannot collide with a
        # check of /repo running at the same time
        self.build = os.path.join(VERIF, 'build', self.id + ('' if os.path.realpath(REPO) == '/repo' else '_scratch'))
        self.obligations = []      # (name, status, detail)
        self.assumptions = {}      # theorem -> [axioms]
        self.violations = []
        self.coverage = {}
        self.notes = []
        self.translate_report = {}
        self.broken = []           # names of broken obligations

    # ---------------------------------------------------------------- static library
    def ensure_static(self):
        """the static Coq library must be built (setup_cmd does it); on demand only the directories this
        property needs are (re)built, so a file of another property cannot block or break this check"""
        targets = ' '.join(os.path.relpath(v, COQ_STATIC) + 'o' for v in static_files(static_dirs(self.mod)))
        rc, out = sh(f'sh {VERIF}/tools/mkcoqproject.sh && cd {COQ_STATIC} && '
                     f'timeout 1500 make -k -j{NCPU} {targets} 2>&1 | tail -30', timeout=1600)
        if rc != 0 or 'Error' in out:
            self.note('static Coq library failed to build:\n' + out)
            return False
        return True

    def note(self, s):
        self.notes.append(s)
        print('[note]', s)

    # ---------------------------------------------------------------- translate + compile
    def prepare_build(self):
        shutil.rmtree(self.build, ignore_errors=True)
        os.makedirs(self.build, exist_ok=True)

    def translate(self):
        spec = getattr(self.mod, 'TRANSLATE', None)
        if not spec:
            return True
        spec = dict(spec)
        spec['repo'] = REPO
        sp = os.path.join(self.build, 'translate_spec.json')
        json.dump(spec, open(sp, 'w'))
        rc, out = sh([PY, os.path.join(VERIF, 'tools', 'py2coq.py'), sp, self.build], timeout=120)
        out = clean_out(out)
        rep = os.path.join(self.build, 'translate_report.json')
        if rc != 0 or not os.path.exists(rep):
            self.obligations.append(('translate', 'broken', out[-2000:]))
            self.broken.append('translate')
            return False
        self.translate_report = json.load(open(rep))
        for modname, r in self.translate_report.items():
            for q, st in r['functions'].items():
                name = f'translate:{modname}.{q}'
                if st == 'ok':
                    self.obligations.append((name, 'discharged', ''))
                else:
                    self.obligations.append((name, 'broken', st))
                    self.broken.append(name)
        return True

    def coqc(self, vfile, timeout=900):
        cmd = ['coqc', '-Q', COQ_STATIC, 'Verif', '-Q', self.build, 'Run', vfile]
        return sh(cmd, timeout=timeout, cwd=self.build)

    def compile_run_files(self):
        """compile generated modules, then the per-run obligation files; returns True iff all ok"""
        ok = True
        gen = [m['coq'] + '.v' for m in (getattr(self.mod, 'TRANSLATE', None) or {}).get('modules', [])]
        # further modules generated from /repo by the property's own pre_build(ctx) hook
        gen += [g for g in getattr(self.mod, 'GEN_FILES', []) if g not in gen]
        src_dir = os.path.join(VERIF, 'coq-run', self.id)
        run_files = list(getattr(self.mod, 'RUN_FILES', []))
        # an entry may be (source path relative to coq-run/, name in the build dir): reuse of another
        # property's obligation file
        pairs = [(os.path.join(src_dir, f), f) if isinstance(f, str) else (os.path.join(VERIF, 'coq-run', f[0]), f[1])
                 for f in run_files]
        run_files = [p[1] for p in pairs]
        for src, f in pairs:
            txt = open(src).read()
            if FORBIDDEN.search(strip_comments(txt)):
                self.obligations.append((f'gate:{f}', 'broken', 'forbidden construct (Admitted/Axiom/...)'))
                self.broken.append(f'gate:{f}')
                ok = False
            shutil.copy(src, os.path.join(self.build, f))
        failed_upstream = False
        for f in gen + run_files:
            names = lemma_names(open(os.path.join(self.build, f)).read()) if f in run_files else []
            t = time.time()
            rc, out = self.coqc(f, timeout=getattr(self.mod, 'COQ_TIMEOUT', 900))
            out = clean_out(out)
            dt = time.time() - t
            if rc == 0:
                for n in names:
                    self.obligations.append((f'{f}:{n}', 'discharged', ''))
                self.assumptions.update(parse_assumptions(out, open(os.path.join(self.build, f)).read()))
                if f not in run_files:
                    self.obligations.append((f'compile:{f}', 'discharged', ''))
                print(f'[coq] {f} ok ({dt:.1f}s)')
            elif failed_upstream and re.search(r'Cannot find a physical path|Cannot find library|inconsistent assumptions|not found in the current', out):
                # depends on a file that failed earlier in this run
                ok = False
                for n in names:
                    self.obligations.append((f'{f}:{n}', 'unchecked', 'depends on a file that failed'))
                    self.broken.append(f'{f}:{n}')
                if not names:
                    self.obligations.append((f'compile:{f}', 'unchecked', 'depends on a file that failed'))
                    self.broken.append(f'compile:{f}')
                print(f'[coq] {f} not checked (depends on a failed file)')
            else:
                ok = False
                failed_upstream = True
                line = None
                m = re.search(r'line (\d+), characters', out)
                if m:
                    line = int(m.group(1))
                bad = None
                if f in run_files and line is not None:
                    bad = lemma_at(open(os.path.join(self.build, f)).read(), line)
                detail = compact_coq_error(out)
                if not names:
                    self.obligations.append((f'compile:{f}', 'broken', detail))
                    self.broken.append(f'compile:{f}')
                seen_bad = False
                for n in names:
                    if n == bad:
                        seen_bad = True
                        self.obligations.append((f'{f}:{n}', 'broken', detail))
                        self.broken.append(f'{f}:{n}')
                    elif not seen_bad and bad is not None:
                        self.obligations.append((f'{f}:{n}', 'discharged', ''))
                    else:
                        self.obligations.append((f'{f}:{n}', 'unchecked', 'file failed earlier'))
                        self.broken.append(f'{f}:{n}')
                if names and bad is None:
                    self.obligations.append((f'compile:{f}', 'broken', detail))
                    self.broken.append(f'compile:{f}')
                print(f'[coq] {f} FAILED ({dt:.1f}s): {detail[:400]}')
        return ok

    # ---------------------------------------------------------------- implementation side
    def run_impl(self, script, payload, timeout=1800):
        """run tools/harness/<script> in the repo's python; JSON in (stdin) / JSON out (last line)"""
        path = os.path.join(VERIF, 'tools', 'harness', script)
        t = time.time()
        # every harness process reports the source lines of the package it executed (lib/covtie.py)
        self._ncov = getattr(self, '_ncov', 0) + 1
        wrap = os.path.join(VERIF, 'tools', 'harness', '_covwrap.py')
        cov_env = {'VERIF_COV_ROOT': os.path.join(REPO, 'src', 'scippneutron'),
                   'VERIF_COV_OUT': os.path.join(self.build, f'cov_{self._ncov}.json')}
        rc, out = sh([PY, wrap, path], timeout=timeout, input=json.dumps(payload), cwd=VERIF, env=cov_env)
        print(f'[impl] {script} ({time.time() - t:.1f}s)')
        out = clean_out(out)
        lines = [l for l in out.splitlines() if l.startswith('RESULT ')]
        if rc != 0 or not lines:
            raise RuntimeError(f'harness {script} failed (rc={rc}):\n{out[-3000:]}')
        res = json.loads(lines[-1][7:])
        self._history_pass(script, payload, res, timeout)
        # a harness may evaluate parts of the property statement itself (e.g. independence of the call history)
        # and hand the violations it saw to the driver
        if isinstance(res, dict):
            for v in res.get('harness_violations') or []:
                self.violation(v['key'], v['what'], v.get('replay'))
        return res

    # ---------------------------------------------------------------- independence of the call history
    # harness script -> (key of the case list in the payload, key of the result list): for these harnesses every case
    # is a pure function of its own description, so evaluating the SAME cases in reverse order in a fresh process
    # must give identical results; a difference means the package keeps state between calls (a cache keyed too
    # coarsely, a module-level table updated in place) - a violation of "results do not depend on call history"
    # which every property about returned values presupposes.  Done once per check run and harness (the first call
    # with at least 8 cases).
    HISTORY = {'c04_impl.py': ('groups', 'groups'), 'c05_impl.py': ('groups', 'groups'), 'c08_impl.py': ('groups', 'groups'),
               'c10_impl.py': ('cases', 'cases'), 'c11_impl.py': ('cases', 'cases'), 'c16_impl.py': ('groups', 'groups'),
               'c19_impl.py': ('cases', 'cases'), 'c20_atten.py': ('groups', 'groups'), 'c02_impl.py': ('groups', 'groups')}

    def _history_pass(self, script, payload, res, timeout):
        cfg = self.HISTORY.get(script)
        if not cfg or os.environ.get('VERIF_NO_HISTORY_PASS') or script in getattr(self, '_hist_done', set()):
            return
        pk, rk = cfg
        if not isinstance(payload, dict) or not isinstance(payload.get(pk), list) or len(payload[pk]) < 8:
            return
        if not isinstance(res, dict) or not isinstance(res.get(rk), list) or len(res[rk]) != len(payload[pk]):
            return
        self._hist_done = getattr(self, '_hist_done', set()) | {script}
        p2 = dict(payload)
        p2[pk] = list(reversed(payload[pk]))
        path = os.path.join(VERIF, 'tools', 'harness', script)
        t = time.time()
        rc, out = sh([PY, path], timeout=timeout, input=json.dumps(p2), cwd=VERIF)
        lines = [l for l in clean_out(out).splitlines() if l.startswith('RESULT ')]
        if rc != 0 or not lines:
            self.note(f'history pass of {script} did not complete (rc={rc})')
            return
        r2 = json.loads(lines[-1][7:]).get(rk)
        if not isinstance(r2, list) or len(r2) != len(res[rk]):
            self.note(f'history pass of {script}: result list of another length')
            return
        r2 = list(reversed(r2))
        n_diff = 0
        for case, a, b in zip(payload[pk], res[rk], r2):
            if json.dumps(a, sort_keys=True, default=str) != json.dumps(b, sort_keys=True, default=str):
                n_diff += 1
                if n_diff == 1:
                    self.violation(f'history-dependent-result:{script}',
                                   f'the implementation answers the same case differently depending on the calls made before it '
                                   f'in the same process ({script}: cases evaluated in the given order vs. in reverse order in a '
                                   f'fresh process)', {'case': case, 'given_order': a, 'reverse_order': b})
        self.coverage.setdefault('history_pass', {})[script] = {'cases': len(r2), 'differing': n_diff}
        print(f'[impl] {script} history pass ({time.time() - t:.1f}s): {n_diff} of {len(r2)} cases differ')

    # ---------------------------------------------------------------- Coq evaluation of cases
    def coq_eval_shards(self, header, case_terms, footer_fn, shard=400, prefix='cases', timeout=900):
        """write shards `prefix_k.v` each holding `header`, a list `cases` of the given Coq terms
        and `footer_fn(k)`; compile in parallel; return {case_index: message} of failing cases and
        the list of shard errors"""
        files = []
        for k in range(0, len(case_terms), shard):
            name = f'{prefix}_{k // shard}.v'
            with open(os.path.join(self.build, name), 'w') as f:
                f.write(header)
                f.write('Definition cases := [\n' + ';\n'.join(case_terms[k:k + shard]) + '\n].\n')
                f.write(footer_fn(k))
            files.append((k, name))
        procs = []
        results = {}
        errors = []
        pending = list(files)
        running = []
        retry, retried = [], set()
        while pending or running or retry:
            if not pending and not running and retry:
                k, name = retry.pop(0)
                p = subprocess.Popen(['timeout', str(2 * timeout), 'coqc', '-Q', COQ_STATIC, 'Verif', '-Q',
                                      self.build, 'Run', name], cwd=self.build,
                                     stdout=subprocess.PIPE, stderr=subprocess.STDOUT, text=True)
                running.append((k, name, p))
            while pending and len(running) < NCPU:
                k, name = pending.pop(0)
                p = subprocess.Popen(['timeout', str(timeout), 'coqc', '-Q', COQ_STATIC, 'Verif', '-Q',
                                      self.build, 'Run', name], cwd=self.build,
                                     stdout=subprocess.PIPE, stderr=subprocess.STDOUT, text=True)
                running.append((k, name, p))
            still = []
            for k, name, p in running:
                if p.poll() is None:
                    still.append((k, name, p))
                    continue
                out = clean_out(p.stdout.read())
                if p.returncode != 0 and not re.search(r'Error|error', out) and name not in retried:
                    # killed from outside (time limit under load, memory pressure): no Coq error message.  Evaluate the
                    # shard once more, alone, after the others, with twice the time limit.
                    retried.add(name)
                    retry.append((k, name))
                    continue
                if p.returncode != 0:
                    errors.append((name, compact_coq_error(out) or f'coqc exited with status {p.returncode} and no message (killed?)'))
                    continue
                got = False
                for m in re.finditer(r'"((?:[^"]|"")*)"', out):
                    s = m.group(1)
                    if s.startswith('OK'):
                        got = True
                    for fm in re.finditer(r'F(\d+):([^;]*);', s):
                        got = True
                        results[k + int(fm.group(1))] = fm.group(2)
                if not got:
                    errors.append((name, 'no result line: ' + out[-500:]))
            running = still
            if running:
                time.sleep(0.05)
        return results, errors

    # ---------------------------------------------------------------- results
    def violation(self, key, what, replay, found_input=True):
        if any(v.key == key for v in self.violations):
            return          # one replay per distinct failure class
        self.violations.append(Violation(key, what, replay, found_input))

    def finish(self):
        known = load_known()
        os.makedirs(os.path.join(VERIF, 'replays'), exist_ok=True)
        os.makedirs(os.path.join(VERIF, 'evidence'), exist_ok=True)
        unknown = 0
        printed_known = set()
        for i, v in enumerate(self.violations):
            kf = known.get((self.id, v.key))
            if kf is not None:
                if v.key not in printed_known:
                    print(f'KNOWN-FINDING: property={self.id} {v.key} {kf}')
                    printed_known.add(v.key)
                continue
            unknown += 1
            path = os.path.join(VERIF, 'replays', f'{self.id}_{int(self.t0)}_{i}.json')
            json.dump({'property': self.id, 'key': v.key, 'what': v.what, 'replay': v.replay,
                       'found_input': v.found_input, 'seed': self.seed, 'tier': self.tier},
                      open(path, 'w'), indent=1, default=str)
            tail = '' if v.found_input else ' no-failing-input-found'
            print(f'[violation] {v.what}')
            print(f'VIOLATION property={self.id} replay={path}{tail}')
        n_obl = len(self.obligations)
        n_dis = sum(1 for o in self.obligations if o[1] == 'discharged')
        tb = sorted({a for axs in self.assumptions.values() for a in axs})
        cov = {
            'obligations': n_obl,
            'discharged': n_dis,
            'checker_cmd': f'coqc -Q {COQ_STATIC} Verif -Q build/{self.id} Run <generated modules, '
                           + ', '.join(f if isinstance(f, str) else f[1] for f in getattr(self.mod, "RUN_FILES", [])) + '> (Coq 8.16.1, full .vo)',
            'trusted_base': ['Coq 8.16.1 kernel (coqc, vm_compute; no native_compute)']
                            + [f'axiom (Print Assumptions): {a}' for a in tb]
                            + list(getattr(self.mod, 'TRUSTED', [])),
            'obligation_list': [{'name': o[0], 'status': o[1], **({'detail': o[2][:300]} if o[2] else {})}
                                for o in self.obligations],
            'assumptions_per_theorem': self.assumptions,
            'source_sha256': {k: v.get('sha256') for k, v in self.translate_report.items()},
            'known_findings_reported': sorted(printed_known),
        }
        cov.update(self.coverage)
        level = getattr(self.mod, 'LEVEL', 'proof')
        if level == 'proof' and n_dis != n_obl:
            # the claim is no longer a proof on this tree; say so in the evidence
            cov['explanation'] = 'some obligations are not discharged on this tree; see obligation_list'
        ev = {
            'property_id': self.id, 'tier': self.tier, 'seed': self.seed, 'level': level,
            'coverage': cov,
            'assumptions': list(getattr(self.mod, 'ASSUMPTIONS', [])),
            'wall_s': round(time.time() - self.t0, 2),
            'violations': unknown,
        }
        # evidence/ is only (re)written by runs against /repo itself; drills against a scratch copy
        # (VERIF_REPO) leave it alone
        evdir = os.path.join(VERIF, 'evidence') if os.path.realpath(REPO) == '/repo' else os.path.join(VERIF, 'build', 'evidence_scratch')
        os.makedirs(evdir, exist_ok=True)
        json.dump(ev, open(os.path.join(evdir, f'{self.id}.json'), 'w'), indent=1, default=str)
        print(f'[{self.id}] obligations {n_dis}/{n_obl} discharged; '
              f'evaluations={cov.get("evaluations")}; violations={unknown}; '
              f'known={len(printed_known)}; wall={ev["wall_s"]}s')
        return 1 if unknown else 0


def static_dirs(mod):
    """static library directories this property needs (its own, the shared layer, declared extras)"""
    ds = ['Sem', mod.ID] + list(getattr(mod, 'STATIC_DIRS', []))
    return [d for d in dict.fromkeys(ds) if os.path.isdir(os.path.join(COQ_STATIC, d))]


def static_files(dirs):
    out = []
    for d in dirs:
        for root, _, files in os.walk(os.path.join(COQ_STATIC, d)):
            out += [os.path.join(root, f) for f in files if f.endswith('.v')]
    return sorted(out)


def static_stale(dirs=None):
    if dirs is not None:
        for v in static_files(dirs):
            vo = v + 'o'
            if not os.path.exists(vo) or os.path.getmtime(vo) < os.path.getmtime(v):
                return True
        return False
    for root, _, files in os.walk(COQ_STATIC):
        for f in files:
            if f.endswith('.v'):
                v = os.path.join(root, f)
                vo = v + 'o'
                if not os.path.exists(vo) or os.path.getmtime(vo) < os.path.getmtime(v):
                    return True
    return False


def strip_comments(txt):
    out, depth, i = [], 0, 0
    while i < len(txt):
        if txt.startswith('(*', i):
            depth += 1
            i += 2
        elif txt.startswith('*)', i) and depth:
            depth -= 1
            i += 2
        else:
            if depth == 0:
                out.append(txt[i])
            i += 1
    return ''.join(out)


LEMMA_RE = re.compile(r'^\s*(?:Local\s+|Global\s+)?(Theorem|Lemma|Corollary|Example|Fact|Proposition)\s+([A-Za-z0-9_\']+)',
                      re.M)


def lemma_names(txt):
    return [m.group(2) for m in LEMMA_RE.finditer(txt)]


def lemma_at(txt, line):
    best = None
    for m in LEMMA_RE.finditer(txt):
        ln = txt.count('\n', 0, m.start()) + 1
        if ln <= line:
            best = m.group(2)
    return best


PA_RE = re.compile(r'^\s*Print\s+Assumptions\s+([A-Za-z0-9_\.\']+)\s*\.', re.M)


def parse_assumptions(out, src):
    """`Print Assumptions` prints either 'Closed under the global context' or an 'Axioms:' block,
    in the order of the commands in the source file."""
    names = [m.group(1) for m in PA_RE.finditer(strip_comments(src))]
    blocks = []
    cur = None
    for line in out.splitlines():
        if line.startswith('Closed under the global context'):
            blocks.append([])
            cur = None
        elif line.startswith('Axioms:'):
            cur = []
            blocks.append(cur)
        elif cur is not None:
            m = re.match(r'^([A-Za-z_][A-Za-z0-9_\.\']*)\s*(:|$)', line)
            if m:
                cur.append(m.group(1))
            elif not line.startswith(' '):
                cur = None
    return {n: b for n, b in zip(names, blocks)}


def compact_coq_error(out):
    out = re.sub(r'\{\|.*?\|\}', '{|..|}', out, flags=re.S)
    i = out.find('Error')
    j = out.rfind('File "', 0, i if i >= 0 else len(out))
    s = out[j if j >= 0 else 0:]
    return s[:1500]


def load_known():
    """known_findings.txt:  KNOWN-FINDING property=Cxx key=<key> :: text     (suppresses that key)
                            fixed: property=Cxx <commit> <text>             (suppresses nothing)"""
    known = {}
    p = os.path.join(VERIF, 'known_findings.txt')
    if os.path.exists(p):
        for l in open(p):
            m = re.match(r'KNOWN-FINDING property=(\S+) key=(\S+) :: (.*)', l.strip())
            if m:
                known[(m.group(1), m.group(2))] = m.group(3)
    return known


def float_to_q(x):
    """exact rational of a Python float as Coq Q text"""
    from fractions import Fraction
    fr = Fraction(x)
    return f'({fr.numerator} # {fr.denominator})'


def sha(s):
    return hashlib.sha256(s.encode()).hexdigest()


def main(argv):
    import argparse
    import importlib
    ap = argparse.ArgumentParser()
    ap.add_argument('prop')
    ap.add_argument('--tier', default=os.environ.get('VERIF_TIER', 'quick'))
    ap.add_argument('--seed', type=int, default=int(os.environ.get('VERIF_SEED', '20260929')))
    ap.add_argument('--replay')
    ap.add_argument('--pin-stmts', action='store_true',
                    help='(re)generate tools/corpus/stmt_pins/<prop>.json from the anchored files of the repo and exit')
    a = ap.parse_args(argv)
    sys.path.insert(0, os.path.join(VERIF, 'props'))
    mod = importlib.import_module(a.prop)
    ctx = Ctx(mod, a.tier if a.tier in ('quick', 'thorough') else 'quick', a.seed)
    if a.pin_stmts:
        import covtie
        pin = covtie.make_pin(VERIF, REPO, mod.ID, mod)
        print(f'[pin] {mod.ID}: ' + ', '.join(f'{f} ({sum(len(v) for v in d.values())} statements)' for f, d in pin.items()))
        return 0
    if a.replay:
        obj = json.load(open(a.replay))
        return mod.replay(ctx, obj)
    ctx.prepare_build()
    if static_stale(static_dirs(mod)) or os.environ.get('VERIF_REBUILD_STATIC'):
        import fcntl
        os.makedirs(os.path.join(VERIF, 'build'), exist_ok=True)
        with open(os.path.join(VERIF, 'build', '.static.lock'), 'w') as lk:
            fcntl.flock(lk, fcntl.LOCK_EX)
            if static_stale(static_dirs(mod)) or os.environ.get('VERIF_REBUILD_STATIC'):
                ctx.ensure_static()
    ok = ctx.translate()
    if hasattr(mod, 'pre_build'):
        # property-specific generation from /repo's current files into ctx.build (e.g. data tables)
        try:
            mod.pre_build(ctx)
        except Exception as ex:
            ctx.obligations.append(('pre_build', 'broken', str(ex)[:500]))
            ctx.broken.append('pre_build')
    ok = ctx.compile_run_files() and ok
    t_corr = time.time()
    try:
        mod.correspondence(ctx)
        print(f'[corr] correspondence finished ({time.time() - t_corr:.1f}s)')
    except Exception as ex:  # a harness crash is reported, never swallowed
        import traceback
        traceback.print_exc()
        ctx.violation('harness-crash', f'correspondence harness crashed: {ex}', {'error': str(ex)},
                      found_input=False)
    try:
        import covtie
        cov_broken, cov_stats = covtie.check(VERIF, REPO, ctx.id, mod, ctx.build)
        ctx.coverage.update(cov_stats)
        if isinstance(cov_stats.get('exercise_tie'), dict):
            if not cov_broken:
                ctx.obligations.append(('exercise-tie', 'discharged', ''))
            for n, d in cov_broken:
                ctx.obligations.append((n, 'broken', d))
                ctx.broken.append(n)
                print(f'[tie] {d}')
    except Exception as ex:
        ctx.note(f'exercise tie not evaluated: {ex}')
    known = load_known()

    def fresh_inputs():
        return [v for v in ctx.violations if (ctx.id, v.key) not in known and v.found_input]

    found = []
    if ctx.broken:
        try:
            found = mod.search(ctx, ctx.broken) or []
        except Exception as ex:
            import traceback
            traceback.print_exc()
            ctx.note(f'search crashed: {ex}')
    # Escalation: the anchored source differs from the pinned text (or an obligation broke) and no failing input has
    # been found yet - draw further case streams (other seeds) for the correspondence and the search before giving
    # up.  Never happens on the pinned text with all obligations discharged, so it costs nothing on an unchanged tree.
    try:
        changed = covtie.changed(VERIF, REPO, ctx.id, mod)
    except Exception:
        changed = []
    # (what search() returns is not trusted as evidence of a failing input: only violations it registered with a
    # concrete input and that are not KNOWN findings count)
    if (changed or ctx.broken) and not fresh_inputs() and not os.environ.get('VERIF_NO_ESCALATION'):
        ctx.coverage['escalation'] = {'reason': (changed[:5] or ctx.broken[:5]), 'extra_seeds': []}
        seed0 = ctx.seed
        ev0 = ctx.coverage.get('evaluations')
        for extra in (1, 2):
            ctx.seed = seed0 + 7919 * extra
            ctx.coverage['escalation']['extra_seeds'].append(ctx.seed)
            print(f'[escalate] anchored source changed / obligation broken and no failing input yet: further case stream (seed {ctx.seed})')
            try:
                mod.correspondence(ctx)
                if ctx.broken and not fresh_inputs():
                    found = mod.search(ctx, ctx.broken) or []
            except Exception as ex:
                ctx.note(f'escalation run crashed: {ex}')
            if isinstance(ev0, int) and isinstance(ctx.coverage.get('evaluations'), int):
                ev0 = ev0 + ctx.coverage['evaluations']
                ctx.coverage['evaluations'] = ev0
            if fresh_inputs():
                break
        ctx.seed = seed0
    if ctx.broken and not fresh_inputs():
        # a KNOWN finding never stands in for the failing input of a broken obligation
        ctx.violation('broken-obligation:' + ctx.broken[0],
                      'proof obligations no longer check: ' + ', '.join(ctx.broken[:8]),
                      {'broken': ctx.broken,
                       'details': [o for o in ctx.obligations if o[1] != 'discharged'][:10]},
                      found_input=False)
    return ctx.finish()
