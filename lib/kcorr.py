"""kcorr — correspondence support for kernel-style (element-wise) functions.

Generates operand groups, runs tools/harness/kernels_impl.py on the real code,
writes the observations as Coq `kcase` terms and lets Coq compare them with the
executable model (Q instance of the regenerated kernels)."""
import math
import random
from fractions import Fraction

DT = {'float64': 'DF64', 'float32': 'DF32', 'int64': 'DI64', 'int32': 'DI32', 'vector3': 'DVec3',
      'bool': 'DBool'}


def q(pair):
    n, d = pair
    n = int(n)
    return f'(({n}) # {int(d)})'


def dims_term(d):
    return '[' + ';'.join(f'({x})' for x in d) + ']%Z'


def inp_term(st, idx):
    v = st['values'][idx if len(st['values']) > 1 else 0]
    return f'(mkinp {q(v)} {q(st["unit"]["mult"])} {dims_term(st["unit"]["dims"])} {DT[st["dtype"]]})'


def out_term(res, k):
    if res.get('unit') is None:
        return None
    u = res['unit']
    sc_, dm, dt = q(u['mult']), dims_term(u['dims']), DT.get(res['dtype'])
    if dt is None:
        return None
    v = res['values'][k]
    if res['dtype'] == 'vector3':
        if any(isinstance(c, str) for c in v):
            return None
        return f'(OutVec {q(v[0])} {q(v[1])} {q(v[2])} {sc_} {dm})'
    if v == 'nan':
        return f'(OutNaN {sc_} {dm} {dt})'
    if v in ('inf', '-inf'):
        return f'(OutInf {sc_} {dm} {dt})'
    return f'(OutVal {q(v)} {sc_} {dm} {dt})'


def unravel(k, shape):
    idx = []
    for s in reversed(shape):
        idx.append(k % s)
        k //= s
    return list(reversed(idx))


def flat_index(st, idx):
    """position, in the operand's flat value list (C order of its logical dims/shape), of the element that belongs to
    the result element with the per-dimension indices `idx` ({dim label: index}): matched BY DIMENSION LABEL, so the
    dim order / memory layout of the operand does not matter"""
    dims = st.get('dims') or []
    if not dims:
        return 0
    shape = st.get('shape')
    if shape is None:          # observation without a shape: one dim
        return idx.get(dims[0], 0)
    k = 0
    for d, s in zip(dims, shape):
        k = k * int(s) + idx.get(d, 0)
    return k


def is_nd(gres):
    """does any operand of this observed group have two or more dims?"""
    return any(len(st.get('dims') or []) >= 2 for st in gres.get('operands', {}).values())


def layout_of(greq, order):
    """dims / shape / memory layout of the operands of a request group (for descriptions and replays)"""
    out = {}
    for n in order:
        sp = greq['operands'][n]
        if 'dims' in sp:
            out[n] = {'dims': sp['dims'], 'shape': sp['shape'], 'layout': sp.get('layout') or 'contiguous'}
        else:
            out[n] = {'dims': [sp['dim']] if sp.get('dim') else [], 'shape': [len(sp['values'])] if sp.get('dim') else []}
    return out


def element_cases(kname, order, greq, gres, tol, get=None):
    """-> list of (coq term, python description) for every output element of one group.
    `order`: operand names in the model's argument order."""
    out = []
    ops = gres['operands']
    nd = is_nd(gres)
    if 'error' in gres:
        ins = '[' + '; '.join(inp_term(ops[n], 0) for n in order) + ']'
        desc = {'kernel': kname, 'operands': {n: describe(ops[n], 0) for n in order}, 'impl': 'raises ' + gres['error']}
        if nd:
            desc['arrays'] = layout_of(greq, order)
            desc['group_operands'] = {n: greq['operands'][n] for n in order}
        out.append((f'(mkc "{kname}" {ins} (OutErr "{gres["error"]}") {tol})', desc))
        return out
    res = gres['result']
    if get is not None:
        res = res['dict'][get]
    n_el = 1
    for s in res['shape']:
        n_el *= s
    for k in range(n_el):
        idx = dict(zip(res['dims'], unravel(k, res['shape'])))
        ins_terms = []
        d_ops = {}
        for n in order:
            st = ops[n]
            i = flat_index(st, idx)
            ins_terms.append(inp_term(st, i))
            d_ops[n] = describe(st, i)
        ot = out_term(res, k)
        if ot is None:
            continue
        desc = {'kernel': kname, 'operands': d_ops,
                'impl': {'value': fmt(res['values'][k]), 'unit': res['unit']['name'], 'dtype': res['dtype']}}
        if nd:
            desc['element'] = idx
            desc['result_dims'] = res['dims']
            desc['arrays'] = layout_of(greq, order)
            desc['group_operands'] = {n: greq['operands'][n] for n in order}
        out.append((f'(mkc "{kname}" [{"; ".join(ins_terms)}] {ot} {tol})', desc))
    return out


# ------------------------------------------------ whole-array cases: Coq itself matches elements by dim label
def cstr(s):
    return '"' + str(s).replace('"', '""') + '"'


def arr_term(st):
    """an observed operand as a Coq `arr` (coq-run/C01/Corr.v): labelled dims, shape, flat values, unit, dtype"""
    dims = '[' + '; '.join(cstr(d) for d in st.get('dims') or []) + ']'
    shape = '[' + '; '.join(f'{int(n)}%nat' for n in st.get('shape') or []) + ']'
    vals = '[' + '; '.join(q(v) for v in st['values']) + ']'
    return (f'(mkarr {dims} {shape} {vals} {q(st["unit"]["mult"])} {dims_term(st["unit"]["dims"])} '
            f'{DT[st["dtype"]]})')


def array_case(kname, order, greq, gres, tol):
    """-> (coq term `acase`, [description per result element]) for one observed group, or None when the result cannot
    be written down (not a numeric Variable).  The element matching is NOT done here: the term holds the arrays."""
    ops = gres['operands']
    ins = '[' + '; '.join(arr_term(ops[n]) for n in order) + ']'
    lay = layout_of(greq, order)
    gops = {n: greq['operands'][n] for n in order}
    if 'error' in gres:
        desc = {'kernel': kname, 'operands': {n: describe(ops[n], 0) for n in order}, 'impl': 'raises ' + gres['error'],
                'error_text': gres.get('error_text'), 'arrays': lay, 'group_operands': gops}
        return f'(mkac "{kname}" {ins} (AOutErr "{gres["error"]}") {tol})', [desc]
    res = gres['result']
    if res.get('unit') is None or 'shape' not in res:
        return None
    n_el = 1
    for s in res['shape']:
        n_el *= s
    outs, descs = [], []
    for k in range(n_el):
        ot = out_term(res, k)
        if ot is None:
            return None
        outs.append(ot)
        idx = dict(zip(res['dims'], unravel(k, res['shape'])))
        descs.append({'kernel': kname, 'operands': {n: describe(ops[n], flat_index(ops[n], idx)) for n in order},
                      'impl': {'value': fmt(res['values'][k]), 'unit': res['unit']['name'], 'dtype': res['dtype']},
                      'element': idx, 'result_dims': res['dims'], 'arrays': lay, 'group_operands': gops})
    rd = '[' + '; '.join(cstr(d) for d in res['dims']) + ']'
    rs = '[' + '; '.join(f'{int(n)}%nat' for n in res['shape']) + ']'
    return f'(mkac "{kname}" {ins} (AOut {rd} {rs} [{"; ".join(outs)}]) {tol})', descs


def fmt(v):
    if isinstance(v, str):
        return v
    if isinstance(v[0], list) or (isinstance(v[0], str) and len(v) == 3 and isinstance(v[1], list)):
        return [fmt(c) for c in v]
    if isinstance(v[0], list):
        return [fmt(c) for c in v]
    try:
        return float(Fraction(int(v[0]), int(v[1])))
    except Exception:
        return [fmt(c) for c in v]


def describe(st, i):
    v = st['values'][i if len(st['values']) > 1 else 0]
    return {'value': fmt(v), 'unit': st['unit']['name'], 'dtype': st['dtype']}


# ---------------------------------------------------------------- generators
def loguniform(rng, lo, hi):
    return math.exp(rng.uniform(math.log(lo), math.log(hi)))


def hexf(x):
    return float(x).hex()


UNITS = {
    'time': [('s', 1.0), ('ms', 1e-3), ('us', 1e-6), ('ns', 1e-9)],
    'length': [('m', 1.0), ('mm', 1e-3), ('km', 1e3), ('angstrom', 1e-10), ('nm', 1e-9), ('cm', 1e-2)],
    'energy': [('meV', 1.602176634e-22), ('J', 1.0), ('eV', 1.602176634e-19), ('ueV', 1.602176634e-25)],
    'angle': [('rad', 1.0), ('deg', math.pi / 180)],
    'invlength': [('1/angstrom', 1e10), ('1/m', 1.0), ('1/nm', 1e9)],
}


def operand(rng, kind, si_values, dtype=None, dim='x', unit=None):
    """an operand of physical kind with the given SI values expressed in a random unit"""
    if unit is None:
        unit = rng.choice(UNITS[kind])
    name, mult = unit
    if dtype is None:
        dtype = rng.choice(['float64', 'float64', 'float32', 'int64'])
    vals = [v / mult for v in si_values]
    if dtype.startswith('int'):
        vals = [max(1, min(30000, int(round(v)))) for v in vals]
        return {'values': vals, 'unit': name, 'dtype': dtype, 'dim': dim}
    return {'values': [hexf(v) for v in vals], 'unit': name, 'dtype': dtype, 'dim': dim}
