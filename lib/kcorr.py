"""kcorr — correspondence support for kernel-style (element-wise) functions.

Generates operand groups, runs tools/harness/kernels_impl.py on the real code,
writes the observations as Coq `kcase` terms and lets Coq compare them with the
executable model (Q instance of the regenerated kernels)."""
import math
import random
from fractions import Fraction

DT = {'float64': 'DF64', 'float32': 'DF32', 'int64': 'DI64', 'int32': 'DI32', 'vector3': 'DVec3',
      'bool': 'DBool'}


def q(pair):
    n, d = pair
    n = int(n)
    return f'(({n}) # {int(d)})'


def dims_term(d):
    return '[' + ';'.join(f'({x})' for x in d) + ']%Z'


def inp_term(st, idx):
    v = st['values'][idx if len(st['values']) > 1 else 0]
    return f'(mkinp {q(v)} {q(st["unit"]["mult"])} {dims_term(st["unit"]["dims"])} {DT[st["dtype"]]})'


def out_term(res, k):
    if res.get('unit') is None:
        return None
    u = res['unit']
    sc_, dm, dt = q(u['mult']), dims_term(u['dims']), DT.get(res['dtype'])
    if dt is None:
        return None
    v = res['values'][k]
    if res['dtype'] == 'vector3':
        if any(isinstance(c, str) for c in v):
            return None
        return f'(OutVec {q(v[0])} {q(v[1])} {q(v[2])} {sc_} {dm})'
    if v == 'nan':
        return f'(OutNaN {sc_} {dm} {dt})'
    if v in ('inf', '-inf'):
        return f'(OutInf {sc_} {dm} {dt})'
    return f'(OutVal {q(v)} {sc_} {dm} {dt})'


def unravel(k, shape):
    idx = []
    for s in reversed(shape):
        idx.append(k % s)
        k //= s
    return list(reversed(idx))


def element_cases(kname, order, greq, gres, tol, get=None):
    """-> list of (coq term, python description) for every output element of one group.
    `order`: operand names in the model's argument order."""
    out = []
    ops = gres['operands']
    if 'error' in gres:
        ins = '[' + '; '.join(inp_term(ops[n], 0) for n in order) + ']'
        desc = {'kernel': kname, 'operands': {n: describe(ops[n], 0) for n in order}, 'impl': 'raises ' + gres['error']}
        out.append((f'(mkc "{kname}" {ins} (OutErr "{gres["error"]}") {tol})', desc))
        return out
    res = gres['result']
    if get is not None:
        res = res['dict'][get]
    n_el = 1
    for s in res['shape']:
        n_el *= s
    for k in range(n_el):
        idx = dict(zip(res['dims'], unravel(k, res['shape'])))
        ins_terms = []
        d_ops = {}
        for n in order:
            st = ops[n]
            i = idx.get(st['dims'][0], 0) if st['dims'] else 0
            ins_terms.append(inp_term(st, i))
            d_ops[n] = describe(st, i)
        ot = out_term(res, k)
        if ot is None:
            continue
        desc = {'kernel': kname, 'operands': d_ops,
                'impl': {'value': fmt(res['values'][k]), 'unit': res['unit']['name'], 'dtype': res['dtype']}}
        out.append((f'(mkc "{kname}" [{"; ".join(ins_terms)}] {ot} {tol})', desc))
    return out


def fmt(v):
    if isinstance(v, str):
        return v
    if isinstance(v[0], list) or (isinstance(v[0], str) and len(v) == 3 and isinstance(v[1], list)):
        return [fmt(c) for c in v]
    if isinstance(v[0], list):
        return [fmt(c) for c in v]
    try:
        return float(Fraction(int(v[0]), int(v[1])))
    except Exception:
        return [fmt(c) for c in v]


def describe(st, i):
    v = st['values'][i if len(st['values']) > 1 else 0]
    return {'value': fmt(v), 'unit': st['unit']['name'], 'dtype': st['dtype']}


# ---------------------------------------------------------------- generators
def loguniform(rng, lo, hi):
    return math.exp(rng.uniform(math.log(lo), math.log(hi)))


def hexf(x):
    return float(x).hex()


UNITS = {
    'time': [('s', 1.0), ('ms', 1e-3), ('us', 1e-6), ('ns', 1e-9)],
    'length': [('m', 1.0), ('mm', 1e-3), ('km', 1e3), ('angstrom', 1e-10), ('nm', 1e-9), ('cm', 1e-2)],
    'energy': [('meV', 1.602176634e-22), ('J', 1.0), ('eV', 1.602176634e-19), ('ueV', 1.602176634e-25)],
    'angle': [('rad', 1.0), ('deg', math.pi / 180)],
    'invlength': [('1/angstrom', 1e10), ('1/m', 1.0), ('1/nm', 1e9)],
}


def operand(rng, kind, si_values, dtype=None, dim='x', unit=None):
    """an operand of physical kind with the given SI values expressed in a random unit"""
    if unit is None:
        unit = rng.choice(UNITS[kind])
    name, mult = unit
    if dtype is None:
        dtype = rng.choice(['float64', 'float64', 'float32', 'int64'])
    vals = [v / mult for v in si_values]
    if dtype.startswith('int'):
        vals = [max(1, min(30000, int(round(v)))) for v in vals]
        return {'values': vals, 'unit': name, 'dtype': dtype, 'dim': dim}
    return {'values': [hexf(v) for v in vals], 'unit': name, 'dtype': dtype, 'dim': dim}
