"""covtie — the "exercise" tie: the correspondence run must EXECUTE every statement of the anchored source
files that is new or changed with respect to the pinned reference text of those files.

Why: a hand-written model validated by correspondence says nothing about code the correspondence never
runs.  A fast path, a cache branch or a special case added to a modelled function is exactly such code.  The
pin (tools/corpus/stmt_pins/<Cxx>.json, generated from /repo's committed text by `./check Cxx --pin-stmts`)
holds, per function of the anchored files, the normalised text of its statements.  On every run the current
text is parsed again; a statement whose normalised text is not in the pin of its function (new or edited code)
and of which no line was executed by any harness process of this run is reported as a broken tie obligation
`exercise:<file>:<function>`: the check then runs its search for a failing input and, if none is found,
reports the violation with no-failing-input-found, naming the statement the correspondence does not reach.
On the pinned text no statement is new, so the obligation holds whatever the seed.  Old statements that the
harness does not reach (error branches, mostly) are listed in the evidence, not flagged.
"""
import ast
import glob
import json
import os


def _header_span(node):
    """(first line, last line) of the part of a statement that is executed when control reaches it"""
    body = None
    for attr in ('body',):
        b = getattr(node, attr, None)
        if isinstance(b, list) and b and isinstance(b[0], ast.stmt):
            body = b
    if body is not None:
        return node.lineno, max(node.lineno, body[0].lineno - 1)
    return node.lineno, getattr(node, 'end_lineno', node.lineno)


def _norm(node):
    """normalised text of a statement: its header for compound statements; exception messages dropped"""
    try:
        if isinstance(node, ast.If):
            return 'if ' + ast.unparse(node.test)
        if isinstance(node, ast.While):
            return 'while ' + ast.unparse(node.test)
        if isinstance(node, (ast.For, ast.AsyncFor)):
            return 'for ' + ast.unparse(node.target) + ' in ' + ast.unparse(node.iter)
        if isinstance(node, (ast.With, ast.AsyncWith)):
            return 'with ' + ', '.join(ast.unparse(i) for i in node.items)
        if isinstance(node, ast.Try):
            return 'try'
        if isinstance(node, ast.Match):
            return 'match ' + ast.unparse(node.subject)
        if isinstance(node, ast.Raise):
            exc = node.exc
            if isinstance(exc, ast.Call):
                exc = exc.func
            return 'raise ' + (ast.unparse(exc) if exc is not None else '')
        return ast.unparse(node)
    except Exception:
        return type(node).__name__


def _is_docstring(node):
    return isinstance(node, ast.Expr) and isinstance(node.value, ast.Constant) and isinstance(node.value.value, str)


def statements(src):
    """{qualname: [(normalised text, first line, last line)]} for every function/method (nested functions under
    their own qualified name; module level under '<module>'; class bodies under the class name)"""
    tree = ast.parse(src)
    out = {}

    def walk_body(body, qual):
        lst = out.setdefault(qual, [])
        for node in body:
            if isinstance(node, (ast.FunctionDef, ast.AsyncFunctionDef)):
                walk_body(node.body, (qual + '.' if qual != '<module>' else '') + node.name)
                continue
            if isinstance(node, ast.ClassDef):
                walk_body(node.body, (qual + '.' if qual != '<module>' else '') + node.name)
                continue
            if _is_docstring(node) or isinstance(node, (ast.Pass, ast.Import, ast.ImportFrom, ast.Global, ast.Nonlocal)):
                continue
            a, b = _header_span(node)
            lst.append((_norm(node), a, b))
            for attr in ('body', 'orelse', 'finalbody'):
                sub = getattr(node, attr, None)
                if isinstance(sub, list) and sub and isinstance(sub[0], ast.stmt):
                    walk_body(sub, qual)
            for h in getattr(node, 'handlers', []) or []:
                walk_body(h.body, qual)
            for c in getattr(node, 'cases', []) or []:
                walk_body(c.body, qual)

    walk_body(tree.body, '<module>')
    return out


def anchored_files(verif, prop_id, mod):
    files = getattr(mod, 'COV_FILES', None)
    if files is None:
        files = []
        for l in open(os.path.join(verif, 'properties.jsonl')):
            p = json.loads(l)
            if p['id'] == prop_id:
                files = [f for f in p['anchors']['files'] if f.endswith('.py') and f.startswith('src/scippneutron/')]
    return list(files)


def pin_path(verif, prop_id):
    return os.path.join(verif, 'tools', 'corpus', 'stmt_pins', prop_id + '.json')


def make_pin(verif, repo, prop_id, mod):
    pin = {}
    for f in anchored_files(verif, prop_id, mod):
        src = open(os.path.join(repo, f)).read()
        pin[f] = {q: sorted({t for t, _, _ in sts}) for q, sts in statements(src).items()}
    os.makedirs(os.path.dirname(pin_path(verif, prop_id)), exist_ok=True)
    json.dump(pin, open(pin_path(verif, prop_id), 'w'), indent=0, sort_keys=True)
    return pin


def load_hits(build):
    hits, ok, n = {}, True, 0
    for p in glob.glob(os.path.join(build, 'cov_*.json')):
        try:
            d = json.load(open(p))
        except Exception:
            continue
        n += 1
        ok = ok and d.get('ok', False)
        for f, lines in d.get('hits', {}).items():
            hits.setdefault(f, set()).update(lines)
    return hits, ok and n > 0, n


def check(verif, repo, prop_id, mod, build):
    """returns (broken: [(name, detail)], stats: dict)"""
    pp = pin_path(verif, prop_id)
    if not os.path.exists(pp):
        return [], {'exercise_tie': 'no statement pin for this property'}
    pin = json.load(open(pp))
    hits, ok, nproc = load_hits(build)
    if not ok:
        return [], {'exercise_tie': f'no line-coverage data from the harness processes ({nproc} reports)'}
    prefix = 'src/scippneutron/'
    broken = []
    total = executed = 0
    new_total = 0
    old_unreached = []
    for f, pinned in pin.items():
        path = os.path.join(repo, f)
        if not os.path.exists(path):
            broken.append((f'exercise:{f}', 'anchored file is missing'))
            continue
        try:
            cur = statements(open(path).read())
        except SyntaxError as ex:
            broken.append((f'exercise:{f}', f'anchored file does not parse: {ex}'))
            continue
        h = hits.get(f[len(prefix):], set())
        for q, sts in cur.items():
            if q == '<module>':
                continue            # module-level statements run at import
            known = set(pinned.get(q, []))
            called = any(any(l in h for l in range(a, b + 1)) for _, a, b in sts)
            for t, a, b in sts:
                total += 1
                hit = any(l in h for l in range(a, b + 1))
                executed += hit
                if t in known:
                    if not hit and called:
                        old_unreached.append(f'{f}:{q}: {t[:80]}')
                    continue
                new_total += 1
                if not hit and (called or q in pinned):
                    broken.append((f'exercise:{f}:{q}',
                                   f'the correspondence run does not execute the new or changed statement '
                                   f'`{t[:160]}` (line {a}) of {q} in {f}: the model is not validated against it'))
                elif not hit:
                    # a new function nobody calls during the run: only relevant if something reaches it
                    pass
    stats = {'exercise_tie': {'anchored_files': sorted(pin), 'statements': total, 'executed_by_harness': executed,
                              'new_or_changed_statements': new_total,
                              'pinned_statements_not_reached': len(old_unreached),
                              'pinned_statements_not_reached_sample': old_unreached[:12],
                              'harness_processes': nproc}}
    # one obligation per function is enough
    seen, uniq = set(), []
    for n, d in broken:
        if n not in seen:
            seen.add(n)
            uniq.append((n, d))
    return uniq, stats


def changed(verif, repo, prop_id, mod):
    """statements of the anchored files whose normalised text is not in the pin of their function (static; no run needed)"""
    pp = pin_path(verif, prop_id)
    if not os.path.exists(pp):
        return []
    pin = json.load(open(pp))
    out = []
    for f, pinned in pin.items():
        path = os.path.join(repo, f)
        try:
            cur = statements(open(path).read())
        except Exception:
            out.append(f'{f}: unreadable')
            continue
        for q, sts in cur.items():
            known = set(pinned.get(q, []))
            for t, a, b in sts:
                if t not in known:
                    out.append(f'{f}:{q}: {t[:100]}')
    return out
