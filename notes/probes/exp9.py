import numpy as np, scipp as sc, warnings, math
from fractions import Fraction as Fr
warnings.simplefilter('ignore')
import scipp.constants as const
from scippneutron.conversion import tof as k
h=Fr(const.h.value); mn=Fr(const.m_n.value); meV=Fr(sc.to_unit(sc.scalar(1.0,unit='meV'),'J').value); A=Fr(1,10**10)
print('h',const.h.value,const.h.unit,'m_n',const.m_n.value, 'meV->J',float(meV))
rng=np.random.default_rng(3)
def rel(a,b): return abs(Fr(a)-b)/abs(b)
worst={}
for i in range(300):
    t=float(10**rng.uniform(-6,0)); L=float(10**rng.uniform(-1,3)); th=float(rng.uniform(1e-3,math.pi))
    tv=sc.scalar(t*1e6,unit='us'); Lv=sc.scalar(L,unit='m'); thv=sc.scalar(th,unit='rad')
    ts=Fr(t*1e6)*Fr(1,10**6)
    lam=h*ts/(mn*Fr(L))/A
    E=mn*Fr(L)**2/(2*ts**2)/meV
    s=Fr(math.sin(th/2))
    r={'wl':rel(k.wavelength_from_tof(tof=tv,Ltotal=Lv).value,lam),
       'E':rel(k.energy_from_tof(tof=tv,Ltotal=Lv).value,E),
       'd':rel(k.dspacing_from_tof(tof=tv,Ltotal=Lv,two_theta=thv).value,lam/(2*s))}
    wl=sc.scalar(float(lam),unit='angstrom'); lamf=Fr(float(lam))
    r['E_wl']=rel(k.energy_from_wavelength(wavelength=wl).value, h**2/(2*mn*(lamf*A)**2)/meV)
    Ev=sc.scalar(float(E),unit='meV'); Ef=Fr(float(E))
    wfe=k.wavelength_from_energy(energy=Ev).value
    r['wl_E']=abs(Fr(wfe)**2 - h**2/(2*mn*Ef*meV)/A**2)/ (h**2/(2*mn*Ef*meV)/A**2)/2
    dfe=k.dspacing_from_energy(energy=Ev,two_theta=thv).value
    r['d_E']=abs((Fr(dfe)*s)**2 - h**2/(8*mn*Ef*meV)/A**2)/(h**2/(8*mn*Ef*meV)/A**2)/2
    r['Q']=rel(k.Q_from_wavelength(wavelength=wl,two_theta=thv).value, 4*Fr(math.pi)*s/lamf)
    r['d_wl']=rel(k.dspacing_from_wavelength(wavelength=wl,two_theta=thv).value, lamf/(2*s))
    for kk,v in r.items(): worst[kk]=max(worst.get(kk,0),float(v))
print(worst)
