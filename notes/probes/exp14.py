import numpy as np, scipp as sc, warnings
warnings.simplefilter('ignore')
import scippneutron as scn
rng=np.random.default_rng(4)
nev=50; npx=4
ev=sc.DataArray(sc.array(dims=['event'],values=rng.uniform(1,2,nev),variances=rng.uniform(0.1,1,nev),unit='counts'),
   coords={'tof':sc.array(dims=['event'],values=rng.uniform(1000,9000,nev),unit='us'),'spectrum':sc.array(dims=['event'],values=rng.integers(0,npx,nev),unit=None)})
b=ev.group(sc.arange('spectrum',npx,unit=None)).bin(tof=sc.array(dims=['tof'],values=[0.,3000.,6000.,10000.],unit='us'))
b.coords['position']=sc.vectors(dims=['spectrum'],values=rng.normal(size=(npx,3))+[0,0,3],unit='m')
b.coords['source_position']=sc.vector([0,0,-10.],unit='m'); b.coords['sample_position']=sc.vector([0,0,0.],unit='m')
b.masks['m']=sc.array(dims=['spectrum'],values=[False,True,False,False])
b.coords['incident_energy']=sc.scalar(5.0,unit='meV')
snap=b.copy()
for tgt in ['wavelength','dspacing','Q','energy_transfer']:
    bb=b if tgt=='energy_transfer' else b.drop_coords('incident_energy')
    r=scn.convert(bb,'tof',tgt,scatter=True)
    # dense per event
    ok=True
    for i in range(npx):
        for j in range(3):
            cell=r['spectrum',i][ 'tof' if 'tof' in r.dims else tgt ,j].value
            src=bb['spectrum',i]['tof',j].value
            if len(src)==0: continue
            d=sc.DataArray(sc.ones(sizes={'event':len(src)}),coords={'tof':src.coords['tof']})
            for c in ['position','source_position','sample_position']+(['incident_energy'] if tgt=='energy_transfer' else []): d.coords[c]=bb.coords[c]['spectrum',i] if 'spectrum' in bb.coords[c].dims else bb.coords[c]
            dd=scn.convert(d,'tof',tgt,scatter=True)
            ok&=np.array_equal(dd.coords[tgt].values,cell.coords[tgt].values,equal_nan=True) and np.array_equal(cell.values,src.values) and np.array_equal(cell.variances,src.variances)
    print(tgt,'event==dense',ok,'dims',r.dims,'edge coord',tgt in r.coords, 'masks',list(r.masks))
print('input unchanged',sc.identical(snap,b))
