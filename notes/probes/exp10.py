import numpy as np, scipp as sc, warnings, math, io
warnings.simplefilter('ignore')
import scipp.constants as const
from scippneutron.conversion import tof as k, beamline as bl
rng=np.random.default_rng(5)
mn=const.m_n.value; meV=1.602176634e-22
# C05
worst=0;bad=0
for i in range(300):
    Ei=10**rng.uniform(-3,4); Ef=10**rng.uniform(-3,4); L1=10**rng.uniform(-1,3); L2=10**rng.uniform(-1,3)
    v=lambda E: math.sqrt(2*E*meV/mn)
    t=L1/v(Ei)+L2/v(Ef)
    tv=sc.scalar(t*1e6,unit='us')
    d=k.energy_transfer_direct_from_tof(tof=tv,L1=sc.scalar(L1,unit='m'),L2=sc.scalar(L2,unit='m'),incident_energy=sc.scalar(Ei,unit='meV')).value
    ind=k.energy_transfer_indirect_from_tof(tof=tv,L1=sc.scalar(L1,unit='m'),L2=sc.scalar(L2,unit='m'),final_energy=sc.scalar(Ef,unit='meV')).value
    worst=max(worst,abs(d-(Ei-Ef))/max(Ei,Ef),abs(ind-(Ei-Ef))/max(Ei,Ef))
    # boundary
    t0=L1/v(Ei)*1e6
    for kk in [-2,-1,0,1,2]:
        tt=t0
        for _ in range(abs(kk)): tt=np.nextafter(tt, np.inf if kk>0 else -np.inf)
        r=k.energy_transfer_direct_from_tof(tof=sc.scalar(tt,unit='us'),L1=sc.scalar(L1,unit='m'),L2=sc.scalar(L2,unit='m'),incident_energy=sc.scalar(Ei,unit='meV')).value
        if np.isinf(r): bad+=1
print('C05 worst rel',worst,'inf count',bad)
# C08
from scipy.spatial.transform import Rotation
worst=0
for i in range(200):
    Rm=Rotation.random(random_state=int(rng.integers(1<<30))).as_matrix(); Um=Rotation.random(random_state=int(rng.integers(1<<30))).as_matrix()
    B=np.diag(10**rng.uniform(-1,1,3))@(np.eye(3)+np.triu(rng.uniform(-1,1,(3,3)),1))
    Q=rng.normal(size=3)
    ub=k.ub_matrix_from_u_and_b(u_matrix=sc.spatial.linear_transform(value=Um),b_matrix=sc.spatial.linear_transform(value=B,unit='1/angstrom'))
    hkl=k.hkl_vec_from_Q_vec(Q_vec=sc.vector(Q,unit='1/angstrom'),ub_matrix=ub,sample_rotation=sc.spatial.linear_transform(value=Rm))
    back=2*np.pi*Rm@Um@B@hkl.value
    worst=max(worst,np.linalg.norm(back-Q)/np.linalg.norm(Q)/np.linalg.cond(B))
    assert np.allclose(ub.value,Um@B)
print('C08 hkl residual/cond',worst, hkl.unit)
b1=sc.vector([0.1,0.2,3.],unit='m'); b2=sc.vector([1.,-0.5,2.],unit='m'); wl=sc.scalar(2.0,unit='angstrom')
q=k.Q_elements_from_wavelength(wavelength=wl,incident_beam=b1,scattered_beam=b2)
qn=math.sqrt(sum(v.value**2 for v in q.values())); tt=bl.two_theta(incident_beam=b1,scattered_beam=b2)
print('C08 |Q| vs Q', qn, k.Q_from_wavelength(wavelength=wl,two_theta=tt).value)
e=b1.value/np.linalg.norm(b1.value)-b2.value/np.linalg.norm(b2.value); print(' Qx expected',2*np.pi/2*e[0],q['Qx'].value)
# C03 near-degenerate
for eps in [0,1e-12,1e-9,1e-6]:
    a=sc.vector([0,0,1.],unit='m'); b=sc.vector([math.sin(eps),0,math.cos(eps)],unit='m')
    c=sc.vector([math.sin(eps),0,-math.cos(eps)],unit='m')
    print('C03',eps, bl.two_theta(incident_beam=a,scattered_beam=b).value, math.pi-bl.two_theta(incident_beam=a,scattered_beam=c).value)
