import numpy as np, scipp as sc, warnings
warnings.simplefilter('ignore')
from scippneutron.peaks import fit_peaks, remove_peaks
rng=np.random.default_rng(1)
x=sc.linspace('x',0.,10.,201,unit='angstrom')
from scippneutron.peaks.model import GaussianModel
y=GaussianModel()(x,amplitude=sc.scalar(20.,unit='angstrom'),loc=sc.scalar(5.,unit='angstrom'),scale=sc.scalar(0.3,unit='angstrom'))+sc.scalar(2.0)
yv=y.values+rng.normal(0,0.1,201)
da=sc.DataArray(sc.array(dims=['x'],values=yv,variances=np.full(201,0.01)),coords={'x':x})
for w in [3.0,0.5,0.2,0.12,0.06,0.04,0.001]:
    try:
        r=fit_peaks(da,peak_estimates=sc.array(dims=['x'],values=[5.0],unit='angstrom'),windows=sc.scalar(w,unit='angstrom'),background='linear',peak='gaussian')
        print(w,[ (q.assessment.name) for q in r])
    except Exception as e:
        print(w,'EXC',type(e).__name__,str(e)[:100])
# estimates outside data / at the edge
for pe in [[0.0,5.0],[-3.0,5.0],[5.0,10.0],[5.0,14.0]]:
    try:
        r=fit_peaks(da,peak_estimates=sc.array(dims=['x'],values=pe,unit='angstrom'),windows=sc.scalar(2.0,unit='angstrom'),background='linear',peak='gaussian')
        print(pe,[(q.assessment.name, q.window.values.tolist()) for q in r])
    except Exception as e:
        print(pe,'EXC',type(e).__name__,str(e)[:100])
