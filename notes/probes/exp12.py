import numpy as np, scipp as sc, warnings, math, csv
warnings.simplefilter('ignore')
from scippneutron.atoms import Atom, ScatteringParams
base='/repo/src/scippneutron/atoms/'
bad=0;n=0
fields=['coherent_scattering_length_re','coherent_scattering_length_im','incoherent_scattering_length_re','incoherent_scattering_length_im','coherent_scattering_cross_section','incoherent_scattering_cross_section','total_scattering_cross_section','absorption_cross_section']
units=['fm']*4+['barn']*4
for line in open(base+'scattering_parameters.csv'):
    row=line.rstrip('\n').split(','); n+=1
    p=ScatteringParams.for_isotope(row[0])
    for i,(f,u) in enumerate(zip(fields,units)):
        v=getattr(p,f); val,std=row[1+2*i],row[2+2*i]
        if val=='':
            if v is not None: bad+=1;print('blank',row[0],f)
        else:
            ok = v is not None and v.value==float(val) and v.unit==sc.Unit(u) and ((v.variance is None) if std=='' else (v.variance==float(std)**2))
            if not ok: bad+=1; print('mismatch',row[0],f,val,std,v)
print('scattering rows',n,'bad',bad)
bad=0;n=0
w={}
for line in list(open(base+'atomic_weights.csv'))[2:]:
    el,z,wt,er=line.rstrip('\n').split(','); w[el]=(int(z),wt,er); n+=1
    a=Atom.for_isotope(el)
    if a.z!=int(z): bad+=1; print('z',el)
    try:
        aw=a.atomic_weight
        if wt=='' or aw.value!=float(wt) or aw.variance!=float(er)**2 or aw.unit!=sc.Unit('Da'): bad+=1;print('w',el,wt,aw)
    except ValueError:
        if wt!='': bad+=1;print('w missing',el)
    try: a.atomic_mass; bad+=1; print('mass for element',el)
    except ValueError: pass
print('weights rows',n,'bad',bad, 'blank weights',sum(1 for v in w.values() if v[1]==''))
bad=0;n=0
import re
for line in list(open(base+'atomic_masses.csv'))[2:]:
    iso,m,er=line.rstrip('\n').split(','); n+=1
    try:
        a=Atom.for_isotope(iso)
    except Exception as e:
        bad+=1; print('lookup fail',iso,type(e).__name__,e); continue
    el=re.match(r'\d+([A-Za-z]+)',iso)[1]
    am=a.atomic_mass
    if am.value!=float(m) or am.variance!=float(er)**2 or a.z!=w[el][0]: bad+=1; print('mass',iso,m,am,a.z)
print('mass rows',n,'bad',bad)
for nm in ['h','H ',' H','1h','1H ','01H','H1','Hx','','1','1H,','He,2']:
    for fn in (Atom.for_isotope,ScatteringParams.for_isotope):
        try: r=fn(nm); print('ACCEPTED',repr(nm),fn.__qualname__,r.isotope)
        except Exception as e: pass
