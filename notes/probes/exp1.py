import numpy as np, scipp as sc, io, warnings
warnings.simplefilter('ignore')
# --- C10 overlap across TDC
from scippneutron.chopper import DiskChopper
def mk(b,e,f=14.0,phase=0.0,bp=0.0):
    return DiskChopper(axle_position=sc.vector([0,0,5.],unit='m'),frequency=sc.scalar(f,unit='Hz'),
      beam_position=sc.scalar(bp,unit='deg'),phase=sc.scalar(phase,unit='deg'),
      slit_begin=sc.array(dims=['slit'],values=b,unit='deg'),slit_end=sc.array(dims=['slit'],values=e,unit='deg'))
try:
    c=mk([10.,300.],[50.,380.]); print('C10 TDC overlap accepted (defect?)')
except Exception as ex: print('C10 rejected',ex)
# --- C10 cascade duplicates
from scippneutron.tof.chopper_cascade import Chopper
c=mk([10.],[50.],f=14.0)
ch=Chopper.from_disk_chopper(c,pulse_frequency=sc.scalar(14.,unit='Hz'),npulses=3)
print('open',np.sort(ch.time_open.values)); print('close',np.sort(ch.time_close.values))
