import numpy as np, scipp as sc, warnings, math, io
warnings.simplefilter('ignore')
rng=np.random.default_rng(7)
# C15
from scippneutron.io.xye import save_xye, load_xye
n=2000
vals=np.concatenate([rng.normal(size=n)*10.0**rng.integers(-300,300,size=n),[5e-324,2.2250738585072014e-308,1.7976931348623157e308,1.0,0.1]])
x=np.sort(rng.normal(size=len(vals))*10.0**rng.integers(-300,300,size=len(vals)))
var=np.abs(rng.normal(size=len(vals)))*10.0**rng.integers(-150,150,size=len(vals))
da=sc.DataArray(sc.array(dims=['x'],values=vals,variances=var,unit='counts'),coords={'x':sc.array(dims=['x'],values=x,unit='angstrom')})
f=io.StringIO(); save_xye(f,da,header='a # b\nsecond line\n#third'); f.seek(0)
ld=load_xye(f,dim='x',unit='counts',coord_unit='angstrom')
print('C15 bitexact vals',np.array_equal(ld.values,vals),'coord',np.array_equal(ld.coords['x'].values,x),'var max rel',np.max(np.abs(ld.variances-var)/var))
for nrow in [1,2]:
    f=io.StringIO(); save_xye(f,da[:nrow]); f.seek(0); print(' rows',nrow,load_xye(f,dim='x',unit='counts',coord_unit='angstrom').sizes)
# C19 differential
from scippneutron.chopper.filtering import find_plateaus, collapse_plateaus, filter_in_phase
def spec(xs,ys,atol,minn):
    runs=[];start=0
    for i in range(1,len(xs)):
        if abs((ys[i]-ys[i-1])/(xs[i]-xs[i-1]))>atol:
            runs.append((start,i));start=i
    runs.append((start,len(xs)))
    return [r for r in runs if r[1]-r[0]>=minn]
mism=0;raised=0;tot=0
for it in range(300):
    n=int(rng.integers(2,60)); xs=np.cumsum(rng.uniform(0.1,2,n)); 
    levels=np.repeat(rng.integers(0,5,size=n//4+1)*10.0,4)[:n]; ys=levels+rng.normal(0,0.05,n)
    atol=1.0; minn=int(rng.integers(1,6))
    da=sc.DataArray(sc.array(dims=['t'],values=ys,unit='Hz'),coords={'t':sc.array(dims=['t'],values=xs,unit='s')})
    try:
        p=find_plateaus(da,atol=sc.scalar(atol,unit='Hz/s'),min_n_points=minn)
    except RuntimeError: raised+=1; continue
    tot+=1
    got=[tuple(b.value.coords['t'].values.tolist()) for b in p]
    exp=[tuple(xs[a:b].tolist()) for a,b in spec(xs,ys,atol,minn)]
    if got!=exp: mism+=1; 
    if len(p):
        c=collapse_plateaus(p,coord='t')
        for b,row in zip(p,c):
            tv=b.value.coords['t'].values; lo,hi=row.coords['t'].values
            assert lo<=tv.min() and tv.max()<hi and np.isclose(row.value,b.value.values.mean())
print('C19 plateaus mismatches',mism,'of',tot,'raised',raised)
fr=sc.DataArray(sc.array(dims=['t'],values=[14.,28.,7.,14.000001,0.,-14.,21.,4.6666666667,13.9999999],unit='Hz'),coords={'t':sc.arange('t',9)})
print('C19 inphase',filter_in_phase(fr,reference=sc.scalar(14.,unit='Hz'),rtol=sc.scalar(1e-6)).values)
