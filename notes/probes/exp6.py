import numpy as np, scipp as sc, warnings
warnings.simplefilter('ignore')
from scippneutron.atoms import ScatteringParams, Atom
p=ScatteringParams.for_isotope('H'); p.absorption_cross_section.value=99.0
print('after mutation:',ScatteringParams.for_isotope('H').absorption_cross_section.value)
a=Atom.for_isotope('1H'); m=a.atomic_mass; m.value=5.0; print(Atom.for_isotope('1H').atomic_mass.value)
from scippneutron.conversion import tof as k
for dt in ['float32','float64','int64','int32']:
    t=sc.array(dims=['t'],values=[1000,2000],unit='us',dtype=dt); L=sc.scalar(10.0,unit='m'); 
    tt=sc.scalar(1.0,unit='rad')
    try:
        print(dt, k.wavelength_from_tof(tof=t,Ltotal=L).dtype, k.energy_from_tof(tof=t,Ltotal=L).dtype, k.dspacing_from_tof(tof=t,Ltotal=L,two_theta=tt).dtype)
    except Exception as e: print(dt,'EXC',e)
    w=sc.array(dims=['t'],values=[1,2],unit='angstrom',dtype=dt)
    try:
        print('  wl', k.energy_from_wavelength(wavelength=w).dtype, k.Q_from_wavelength(wavelength=w,two_theta=tt).dtype, k.dspacing_from_wavelength(wavelength=w,two_theta=tt).dtype,
          k.Q_elements_from_wavelength(wavelength=w,incident_beam=sc.vector([0,0,1.],unit='m'),scattered_beam=sc.vector([0,1,1.],unit='m'))['Qx'].dtype)
    except Exception as e: print(dt,'EXC',e)
