import numpy as np, scipp as sc, warnings
warnings.simplefilter('ignore')
import scippneutron as scn
def mk(coords):
    da=sc.DataArray(sc.ones(sizes={'spectrum':2,'tof':3}),coords={'tof':sc.array(dims=['tof'],values=[1000.,2000.,3000.,4000.],unit='us')})
    allc={'position':sc.vectors(dims=['spectrum'],values=[[1.,0,0.2],[0,1.,0.3]],unit='m'),
     'source_position':sc.vector([0,0,-10.],unit='m'),'sample_position':sc.vector([0,0,0.1],unit='m'),
     'incident_beam':sc.vector([0,0,7.],unit='m'),'scattered_beam':sc.vectors(dims=['spectrum'],values=[[1.,0,0],[0,2.,0]],unit='m'),
     'L1':sc.scalar(5.,unit='m'),'L2':sc.array(dims=['spectrum'],values=[1.,3.],unit='m'),'Ltotal':sc.array(dims=['spectrum'],values=[11.,12.],unit='m'),
     'two_theta':sc.array(dims=['spectrum'],values=[0.5,1.5],unit='rad'),'incident_energy':sc.scalar(3.,unit='meV'),'final_energy':sc.scalar(2.,unit='meV')}
    for c in coords: da.coords[c]=allc[c]
    return da
for coords,tgt,scatter in [(['Ltotal'],'wavelength',True),(['L1','L2','position','source_position','sample_position'],'wavelength',True),
   (['L1'],'wavelength',True),([],'wavelength',True),(['Ltotal'],'dspacing',True),(['Ltotal','two_theta'],'foo',True),
   (['Ltotal'],'wavelength',False),(['position','source_position'],'energy',False),(['position','source_position'],'dspacing',False),
   (['Ltotal','incident_energy'],'energy',True),(['L1','L2','incident_energy','final_energy'],'energy_transfer',True),(['L1','L2','incident_energy'],'energy_transfer',True),
   (['L1','L2','incident_energy'],'wavelength',True),(['Ltotal','incident_energy'],'energy_transfer',True),(['position','source_position','sample_position'],'L1',True),(['position','source_position','sample_position'],'two_theta',False)]:
    try:
        r=scn.convert(mk(coords),'tof',tgt,scatter=scatter); print(coords,tgt,scatter,'OK',r.coords[tgt].values.ravel()[:2])
    except Exception as e: print(coords,tgt,scatter,type(e).__name__,str(e)[:90])
