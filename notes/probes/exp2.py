import numpy as np, scipp as sc, io, warnings, dataclasses
warnings.simplefilter('ignore')
from scippneutron.io.sqw import *
t = SqwIXExperiment(run_id=0, efix=sc.scalar(1.2, unit="meV"), emode=EnergyMode.direct,
  en=sc.array(dims=["energy_transfer"], values=[3.0], unit="meV"), psi=sc.scalar(1.2, unit="rad"),
  u=sc.vector([0.0, 1.0, 0.0]), v=sc.vector([1.0, 1.0, 0.0]), omega=sc.scalar(1.4, unit="rad"),
  dpsi=sc.scalar(0.0, unit="rad"), gl=sc.scalar(3, unit="rad"), gs=sc.scalar(-0.5, unit="rad"), filename="", filepath="/data")
def pix(n):
    return sc.DataArray(sc.array(dims=['obs'],values=np.arange(n)*1.0,variances=np.arange(n)*1.0,unit='count'),
      coords={k: sc.arange('obs',0.0,n+0.0,unit=u) for k,u in [('u1','1/Å'),('u2','1/Å'),('u3','1/Å'),('u4','meV')]}|
             {k: sc.arange('obs',0,n,unit=None) for k in ('idet','irun','ien')})
for n,chunk in [(7,2),(20,1),(20,3),(100,8192),(10000,8192),(0,5)]:
    b=io.BytesIO()
    try:
        Sqw.build(b,byteorder='little').add_pixel_data(pix(n),experiments=[t]).create(chunk_size=chunk)
    except Exception as e:
        print(n,chunk,'EXC',type(e).__name__,e); continue
    size=len(b.getvalue()); b.seek(0)
    with Sqw.open(b) as s:
        d=s._block_allocation_table[('pix','data_wrap')]
        print(n,chunk,'filesize',size,'declared end',d.position+d.size)
# sample unit
b=io.BytesIO()
smp=SqwIXSample(name='s',lattice_spacing=sc.vector([2.,3.,4.],unit='angstrom'),lattice_angle=sc.vector([90.,90.,90.],unit='deg'))
Sqw.build(b,byteorder='little').add_pixel_data(pix(3),experiments=[t,t]).add_default_sample(smp).create()
b.seek(0)
with Sqw.open(b) as s:
    r=s.read_data_block(('experiment_info','samples'))
    print(r[0].lattice_spacing, r[0] is r[1])
