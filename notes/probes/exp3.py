import numpy as np, scipp as sc, io, warnings
warnings.simplefilter('ignore')
from scippneutron.io import cif
for v in ['_tag','#c','$x',';abc','[a]','a\tb','loop_','data_x','?','.','a\n;b','global_', "it's \"q\"", 'stop_','a b','', 'x #y', "a' b", 'a" b']:
    f=io.StringIO(); cif.Block('b',[{'k.v':v, 'k.w':'ok'}]).write(f); 
    print(repr(v),'->',repr(f.getvalue().split('\n\n',1)[1]))
f=io.StringIO(); cif.Loop({'a.x':sc.array(dims=['r'],values=[';abc','d']), 'a.y':sc.array(dims=['r'],values=['e','f'])}).write(f); print(repr(f.getvalue()))
# cylinder
from scippneutron.absorption.cylinder import Cylinder
for a in [(0,0,1.),(0,0.6,0.8),(0,0.6,-0.8),(0,0,-1.),(1,0,0),(0.6,0,-0.8)]:
    c=Cylinder(sc.vector(a),sc.vector([0.,0,0],unit='mm'),sc.scalar(1.,unit='mm'),sc.scalar(2.,unit='mm'))
    p,w=c.quadrature('cheap')
    rel=p-c.center_of_base
    ax=sc.dot(rel,c.symmetry_line)
    rad=sc.norm(rel-ax*c.symmetry_line)
    print(a,'axial range',ax.min().value,ax.max().value,'max radial',rad.max().value,'sumw/vol',(w.sum()/c.volume).value)
