import numpy as np, scipp as sc, warnings
warnings.simplefilter('ignore')
from scippneutron.tof import chopper_cascade as cc
rng=np.random.default_rng(0)
bad=0;tot=0;exc=0
for it in range(300):
    fs=cc.FrameSequence.from_source_pulse(time_min=sc.scalar(0.0,unit='ms'),time_max=sc.scalar(float(rng.uniform(1,5)),unit='ms'),
        wavelength_min=sc.scalar(float(rng.uniform(0.1,2)),unit='angstrom'),wavelength_max=sc.scalar(float(rng.uniform(3,12)),unit='angstrom'))
    chs=[]
    for d in sorted(rng.uniform(5,40,size=rng.integers(1,4))):
        n=rng.integers(1,3)
        o=np.sort(rng.uniform(0,80,size=2*n))
        chs.append(cc.Chopper(distance=sc.scalar(float(d),unit='m'),time_open=sc.array(dims=['c'],values=o[0::2]*1e-3,unit='s'),time_close=sc.array(dims=['c'],values=o[1::2]*1e-3,unit='s')))
    out=fs.chop(chs)
    fr=out[sc.scalar(60.,unit='m')] if False else out.frames[-1].propagate_to(sc.scalar(60.,unit='m'))
    for sf in fr.subframes:
        tot+=1
        if not sf.is_regular(): 
            bad+=1
            if bad<3: print('irregular',sf.time.values,sf.wavelength.values)
    try:
        if fr.subframes: fr.subbounds()
    except NotImplementedError: exc+=1
print(tot,bad,exc)
