import numpy as np, scipp as sc, warnings, math
warnings.simplefilter('ignore')
from scippneutron.peaks.model import *
rng=np.random.default_rng(2)
for M in (GaussianModel,LorentzianModel,PseudoVoigtModel):
    worst_norm=0;worst_half=0;worst_sym=0
    for i in range(50):
        A=float(rng.normal()*10); mu=float(rng.normal()*100); s=float(10**rng.uniform(-6,6)); fr=float(rng.uniform(0,1))
        m=M(prefix='p_')
        pr={'p_amplitude':sc.scalar(A,unit='m*counts'),'p_loc':sc.scalar(mu,unit='m'),'p_scale':sc.scalar(s,unit='m')}
        if M is PseudoVoigtModel: pr['p_fraction']=sc.scalar(fr)
        fw=m.fwhm(pr).value
        x=sc.array(dims=['x'],values=[mu,mu+fw/2,mu-fw/2,mu+0.37*s,mu-0.37*s],unit='m')
        y=m(x,**pr).values
        worst_half=max(worst_half,abs(y[1]/y[0]-0.5),abs(y[2]/y[0]-0.5)); worst_sym=max(worst_sym,abs(y[3]-y[4])/abs(y[3]))
        # integral via tan substitution for heavy tails
        u=np.linspace(-math.pi/2,math.pi/2,200001)[1:-1]; xs=mu+s*np.tan(u); w=s/np.cos(u)**2
        yy=m(sc.array(dims=['x'],values=xs,unit='m'),**pr).values*w
        I=np.trapz(yy,u); worst_norm=max(worst_norm,abs(I/A-1))
    print(M.__name__,'half',worst_half,'sym',worst_sym,'norm',worst_norm, m(x,**pr).unit)
p=PolynomialModel(degree=4,prefix='q')
co=[1.5,-2,0.3,0.01,-0.002]; x=sc.array(dims=['x'],values=[-3.,0.,2.5],unit='s')
print(p(x,**{f'qa{i}':sc.scalar(c,unit=sc.Unit('m')/sc.Unit('s')**i) for i,c in enumerate(co)}).values, [sum(c*v**i for i,c in enumerate(co)) for v in [-3.,0.,2.5]])
c=(GaussianModel(prefix='g_')+PolynomialModel(degree=1,prefix='b_')).with_prefix('Z')
print(sorted(c.param_names))
try: GaussianModel()(x,amplitude=sc.scalar(1.),loc=sc.scalar(1.,unit='s')); print('accepted missing!')
except ValueError as e: print('refused')
