import numpy as np, scipp as sc, warnings
warnings.simplefilter('ignore')
from scippneutron.conversion import beamline as bl
g=sc.vector([0,-9.81,0],unit='m/s^2')
b2=sc.vector([0.3,0.4,2.0],unit='m')
wl=sc.scalar(10.0,unit='angstrom')
for tilt in [0.0,1e-12,1e-9,1e-6,1e-3]:
    b1=sc.vector([0,np.sin(tilt)*10,np.cos(tilt)*10],unit='m')
    r=bl.scattering_angles_with_gravity(b1,b2,wl,g)
    nog=bl.two_theta(incident_beam=b1,scattered_beam=b2)
    print(tilt, r['two_theta'].value, r['phi'].value, 'nograv',nog.value)
