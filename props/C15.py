"""C15 - XYE files round-trip coordinates and values exactly, uncertainties to rounding.

  pre_build      tools/harness/c15_extract.py turns the CURRENT io/xye.py into Run.GenXye: the guard
                 sequence of save_xye / _deduce_coord as a first-order decision list, the columns of the
                 saved table, the savetxt / loadtxt keyword arguments, the str.replace steps applied to the
                 header, load_xye's re-shape branch and column indices (fail-closed: unknown statements
                 are listed and no obligation accepts them);
  coq/C15        ProofsFloat (Flocq: decimal19_roundtrip for all normal and subnormal doubles,
                 variance_roundtrip), ProofsText (numpy header prefixing, line/token splitting, shape rule;
                 by induction), ProofsGuard (specification of representable data, proof method for a guard
                 list), ProofsMain (end-to-end statement), Model / Check (executable definitions);
  coq-run/C15    Tie.v (obligations on GenXye), Properties.v (theorems + Print Assumptions), Corr.v,
                 HeaderInert.v (header text is inert for EVERY ASCII header and every reader - needs
                 save_xye to neutralise lone carriage returns);
  correspondence the real save_xye / load_xye on thousands of doubles (subnormals, +-max, powers of two and
                 their neighbours, printf ties, ...), 1..1e4 rows, hostile headers, 1..5 coordinates, path /
                 pathlib / open file / StringIO targets, every refusal class; the file text, the saved and the
                 re-loaded bit patterns go to Coq, which parses every printed token as an exact rational and
                 checks the printf contract (hypothesis of the theorem), bit equality, the variance bound and
                 the line structure with the model reader.
"""
import json
import os
import random
import re
import shutil
import struct
import sys
import tempfile
from fractions import Fraction

import vlib

ID = 'C15'
LEVEL = 'proof'
TRANSLATE = None
GEN_FILES = ['GenXye.v']
RUN_FILES = ['Corr.v', 'Tie.v', 'Properties.v', 'HeaderInert.v']
COQ_TIMEOUT = 600
TRUSTED = [
    'tools/harness/c15_extract.py (syntactic extraction of xye.py into first-order Coq data; fail-closed)',
    'coq/C15/Model.v: written contracts of numpy.savetxt (header prefixing "# " after every "\\n", one blank between '
    'columns, "\\n" after each row) and numpy.loadtxt (universal newlines for paths/open files, "\\n" only for StringIO; '
    'cut at first "#"; skip empty lines; split at every blank; squeeze; transpose for unpack=True) - oracles, '
    'compared with the real numpy by the correspondence on every run',
    'oracle printf("%.18e"): prints a decimal within half a unit of the 19th significant digit (checked in Coq on every '
    'printed token of every run, never assumed for the verdict of a run)',
    'oracle strtod / numpy float parser: correctly rounded to nearest-even (its effect - bit-identical reload - is '
    'checked on every value of every run)',
    'IEEE-754 standard model for numpy.sqrt and x**2 in binary64 (hypotheses of variance_roundtrip; checked per row)',
    'tools/harness/c15_impl.py + props/C15.py (exact serialisation of bit patterns and file text into Coq data)',
    'Flocq 4.1.0 (library of the sandbox) for the binary64 format, ulp, succ/pred and rounding',
]
ASSUMPTIONS = [
    'real-number reading of binary64: the sign of zero is invisible to decimal19_roundtrip (covered by the '
    'bit-pattern comparison of the correspondence, which includes -0.0)',
    'variance_roundtrip: standard model |d| <= u = 2^-53 per operation plus absolute underflow term 2^-1075 for the '
    'product; overflow of s*s cannot occur for finite v (not proved; +-max and its neighbours are in every run)',
    'coordinates are 1-d along the data dimension (or bin edges) and a coord= argument names an existing coordinate; '
    'other inputs (0-d coordinate, missing name) are refused by scipp itself - observed in the correspondence, outside '
    'the guard model',
]
LEVEL_TEXT = ('Proof (Coq + Flocq): for every finite binary64 value, normal or subnormal, any decimal within half a unit of '
              'the 19th significant digit rounds back to it (bit-for-bit coordinates and values); (sqrt v)^2 is within '
              '(3u+3u^2+u^3)v + eta of v (< 3.000000000000001 ulp); n>=1 rows of three tokens load as three columns, the '
              'one-row case through the ndim==1 branch; every header line numpy writes starts with "#" and the loader sees '
              'exactly the rows written; save_xye (guard list regenerated from the source each run) returns normally iff '
              'the data is representable and raises the documented exception otherwise. The numpy/printf/strtod oracles are '
              'validated inside Coq against thousands of real files per run.')
LEVEL_NOTE = ('Trusted: Coq kernel, std-lib real-number axioms + classic (Flocq), Flocq, the extraction script, the written '
              'contracts of numpy.savetxt/loadtxt, printf and strtod (each exercised on every run). Overflow of the squared '
              'standard deviation is not covered by theorem (cannot happen for finite v; extremes are tested).')
TECHNIQUE = ('Coq/Flocq proofs for all inputs + vm_compute decision table on the regenerated guard list + '
             'vm_compute correspondence (exact rationals, bit patterns) against the implementation')

MAXF = 0x7FEFFFFFFFFFFFFF
SIGN = 1 << 63
UNIVERSAL = ('path', 'pathlib', 'fileobj')


# ------------------------------------------------------------------ small helpers
def b2f(b):
    return struct.unpack('<d', struct.pack('<Q', b))[0]


def f2b(x):
    return struct.unpack('<Q', struct.pack('<d', x))[0]


def pre_build(ctx):
    out = os.path.join(ctx.build, 'GenXye.v')
    rc, txt = vlib.sh([vlib.PY, os.path.join(vlib.VERIF, 'tools', 'harness', 'c15_extract.py'), vlib.REPO, out],
                      timeout=120)
    txt = vlib.clean_out(txt)
    m = re.search(r'^C15EXTRACT (.*)$', txt, re.M)
    if rc != 0 or not m:
        raise RuntimeError('c15_extract failed: ' + txt[-400:])
    info = json.loads(m.group(1))
    ctx.coverage['extracted'] = info
    ctx.translate_report['GenXye'] = {'sha256': info['sha256'], 'functions': {}}
    ctx.obligations.append(('extract:GenXye', 'discharged', ''))


# ------------------------------------------------------------------ generators
def tie_doubles(rng, k):
    """doubles whose exact decimal expansion has exactly 20 significant digits ending in 5: printf must
    break a genuine tie at the 19th digit (m / 2^j with 20 - j integer digits)"""
    out = []
    while len(out) < k:
        j = rng.randint(1, 19)
        d = 20 - j
        lo, hi = 10 ** (d - 1) * 2 ** j, min(10 ** d * 2 ** j, 2 ** 53)
        if lo >= hi:
            continue
        m = rng.randrange(lo, hi) | 1
        x = m / 2 ** j
        if Fraction(x) == Fraction(m, 2 ** j):
            out.append(f2b(x) | (SIGN if rng.random() < 0.3 else 0))
    return out


def special_doubles():
    s = [0, SIGN, 1, 2, (1 << 52) - 1, 1 << 52, (1 << 52) + 1, MAXF, MAXF - 1, MAXF | SIGN, 1 | SIGN,
         ((1 << 52) - 1) | SIGN]
    for x in (0.1 + 0.2, 0.3, 0.1, 1 / 3, 2 / 3, 3.141592653589793, 2.718281828459045, 1e23, 1e22, 9007199254740993.0,
              2.2250738585072011e-308, 2.2250738585072014e-308, 8.98846567431158e307, 5e-324, 1.7976931348623157e308,
              4.35, 0.5, 1.0, 2.0, 1e-5, 123456789012345678.0, 9.999999999999999e22, 1.0000000000000002,
              0.9999999999999999, 1e15, 1e16, 9.5367431640625e-07, 1.0000019073486328125, 4.9406564584124654e-320):
        s.append(f2b(x))
        s.append(f2b(-x))
    for k in range(-30, 31, 3):
        s.append(f2b(10.0 ** k))
    return s


def gen_double(rng):
    """one finite binary64 bit pattern from a mixture that reaches every exponent and the boundaries"""
    r = rng.random()
    if r < 0.30:       # uniform over sign / exponent / mantissa (all magnitudes, 1/2047 subnormal)
        b = (rng.getrandbits(1) << 63) | (rng.randrange(0, 2047) << 52) | rng.getrandbits(52)
    elif r < 0.42:     # subnormals
        b = (rng.getrandbits(1) << 63) | rng.choice([rng.getrandbits(52), rng.getrandbits(rng.randint(1, 52)),
                                                     1, (1 << 52) - 1, 1 << rng.randint(0, 51)])
    elif r < 0.60:     # powers of two and their neighbours
        e = rng.randrange(1, 2047)
        b = (e << 52) + rng.choice([-2, -1, 0, 0, 1, 2])
        b |= rng.getrandbits(1) << 63
    elif r < 0.70:     # everyday magnitudes
        b = f2b(rng.choice([-1, 1]) * rng.uniform(0, 1) * 10 ** rng.randint(-6, 9))
    elif r < 0.78:     # short decimals / integers
        b = f2b(rng.choice([-1, 1]) * round(rng.uniform(0, 1000), rng.randint(0, 6)))
    elif r < 0.86:     # near the top and the bottom of the range
        b = rng.choice([MAXF - rng.randrange(0, 4), (1 << 52) + rng.randrange(-3, 4), (2046 << 52) + rng.randrange(0, 5),
                        rng.randrange(1, 6)]) | (rng.getrandbits(1) << 63)
    elif r < 0.93:
        b = tie_doubles(rng, 1)[0]
    else:              # powers of ten and neighbours
        b = f2b(10.0 ** rng.randint(-307, 308)) + rng.choice([-1, 0, 1])
        b |= rng.getrandbits(1) << 63
    if (b >> 52) & 2047 == 2047:
        b = MAXF | (b & SIGN)
    return b


def gen_variance(rng):
    r = rng.random()
    if r < 0.08:
        return rng.choice([0, 1, 2, MAXF, MAXF - 1, 1 << 52, (1 << 52) - 1, f2b(0.1 + 0.2), f2b(4.0), f2b(2.0)])
    if r < 0.2:        # exact squares
        return f2b(float(rng.randint(0, 2 ** 26)) ** 2)
    return gen_double(rng) & ~SIGN


HEADER_POOL = ['', 'plain header', 'x [us]   Y [counts]   E [counts]', 'two\nlines', '# already commented', '#', '\n', '\n\n',
               'a\n#b\n\n', 'trailing newline\n', '1 2 3', 'text\n1.0 2.0 3.0', '## \n # # \n', 'tab\tand\x0bvt\x0cff',
               ' leading blank', 'nul\x00char', 'del\x7fchar', 'x' * 300, '#\n#\n#', 'line\n4.0e+00 5.0e+00 6.0e+00\n']
CR_HEADERS = ['a\rb', '\r1 2 3', 'a\n\r7 8 9', 'crlf\r\nline', '\r', 'x\r\r\ny', 'old mac\rline endings\r']


def gen_header(rng):
    r = rng.random()
    if r < 0.2:
        return None
    if r < 0.55:
        return rng.choice(HEADER_POOL)
    if r < 0.70:
        return rng.choice(CR_HEADERS)
    n = rng.randint(1, 40)
    alphabet = ['\n', '#', ' ', '1', '2', '.', 'e', '-', '+'] * 3 + [chr(k) for k in range(128) if k != 13]
    if rng.random() < 0.25:
        alphabet = alphabet + ['\r'] * 8
    return ''.join(rng.choice(alphabet) for _ in range(n))


def gen_files(rng, tier):
    if tier == 'quick':
        sizes = [1, 1, 1, 1, 2, 2, 3, 5, 8, 17, 33, 64, 100, 257, 400]
        n_small, big = 70, [10000]
    else:
        sizes = [1, 1, 1, 2, 3, 5, 8, 17, 33, 64, 100, 257, 400, 1000, 2500]
        n_small, big = 260, [10000, 9999]
    files = []
    special = special_doubles()
    ties = tie_doubles(rng, 60)
    coord_names_pool = ['d', 'tof', 'two_theta', 'Q', 'wavelength']
    plan = sizes + [rng.choice([1, 1, 2, 3, 4, 6, 12, 30]) for _ in range(n_small)] + big
    for fid, n in enumerate(plan):
        if fid == 0:
            xs = special[:]
            n = len(xs)
            ys = list(reversed(special))
        elif fid == 1:
            xs, ys = ties[:], list(reversed(ties))
            n = len(xs)
        else:
            xs = [gen_double(rng) for _ in range(n)]
            ys = [gen_double(rng) for _ in range(n)]
        vs = [gen_variance(rng) for _ in range(n)]
        nco = rng.choice([1, 1, 2, 3, 4, 5])
        mode = rng.choice(['single', 'dimcoord', 'given']) if nco > 1 else rng.choice(['single', 'given'])
        if nco == 1:
            names = [rng.choice(coord_names_pool)]
            chosen = names[0]
            coord_arg = chosen if mode == 'given' else None
        else:
            others = rng.sample([c for c in coord_names_pool if c != 'd'], nco - 1)
            if mode == 'given':
                names = others + (['d'] if rng.random() < 0.5 and len(others) < 4 else [])
                names = names if len(names) >= 2 else others + ['d']
                chosen = rng.choice([c for c in names if c != 'd'] or names)
                coord_arg = chosen
            else:
                names = others + ['d']
                rng.shuffle(names)
                chosen, coord_arg = 'd', None
        header = gen_header(rng)
        if n > 1000 and header is not None and '\r' in header:
            header = 'big file'
        files.append({'id': fid, 'target': rng.choice(['path', 'pathlib', 'stringio', 'fileobj']),
                      'header': None if header is None else [ord(c) for c in header],
                      'coords': names, 'chosen': chosen, 'coord_arg': coord_arg,
                      'unit': rng.choice([None, 'counts', 'dimensionless']),
                      'coord_unit': rng.choice([None, 'us', 'angstrom']),
                      'x': xs, 'y': ys, 'v': vs})
    # every header of the pools at least once, on both kinds of reader
    fid = len(files)
    for h in HEADER_POOL + CR_HEADERS:
        for tgt in ('path', 'stringio'):
            n = rng.choice([1, 2, 3])
            files.append({'id': fid, 'target': tgt, 'header': [ord(c) for c in h], 'coords': ['d'], 'chosen': 'd',
                          'coord_arg': None, 'unit': None, 'coord_unit': None,
                          'x': [gen_double(rng) for _ in range(n)], 'y': [gen_double(rng) for _ in range(n)],
                          'v': [gen_variance(rng) for _ in range(n)]})
            fid += 1
    return files


REFUSAL_LABELS = {
    'ok': 'representable',
}


def gen_refusals(rng, tier):
    """every combination of the facts the guards look at (small grid), as constructible data arrays"""
    out = []
    rid = 0
    for has_var in (True, False):
        for ndim in (1, 0, 2):
            for masks in ([], ['m'], ['m1', 'm2']):
                for coords, edges in (([], []), (['d'], []), (['d'], ['d']), (['a'], []), (['a'], ['a']),
                                      (['a', 'b'], []), (['a', 'd'], []), (['a', 'd'], ['d']), (['a', 'd'], ['a']),
                                      (['a', 'b', 'd'], ['b']), (['a', 'b', 'c'], ['a']),
                                      (['a', 'b', 'c', 'e', 'f'], [])):
                    for coord_arg in [None] + coords[:2]:
                        if tier == 'quick' and (ndim != 1 or not has_var or masks == ['m1', 'm2']) and rng.random() < 0.8:
                            continue
                        out.append({'id': rid, 'has_variances': has_var, 'ndim': ndim, 'masks': masks,
                                    'coords': coords, 'edges': edges, 'coord_arg': coord_arg, 'scalar_coords': []})
                        rid += 1
    return out


def refusal_facts(c):
    """the valuation of the guard predicates for a constructed case, from the construction (not from the code)"""
    nco = len(c['coords'])
    if c['coord_arg'] is not None:
        chosen = c['coord_arg']
    elif nco == 1:
        chosen = c['coords'][0]
    else:
        chosen = 'd'
    dim_in = c['ndim'] == 1 and 'd' in c['coords']
    # a 0-d data array has 0-d coordinates: nothing is an edge
    is_edges = c['ndim'] >= 1 and chosen in c['edges']
    return {'has_variances': c['has_variances'], 'ndim': c['ndim'], 'nmasks': len(c['masks']), 'ncoords': nco,
            'coord_given': c['coord_arg'] is not None, 'dim_in_coords': dim_in, 'chosen_is_edges': is_edges}


def refusal_label(f):
    if not f['has_variances']:
        return 'no-variances'
    if f['ndim'] != 1:
        return f'ndim-{f["ndim"]}'
    if f['nmasks']:
        return 'masks'
    if f['ncoords'] == 0:
        return 'no-coordinate'
    if not f['coord_given'] and f['ncoords'] > 1 and not f['dim_in_coords']:
        return 'ambiguous-coordinate'
    if f['chosen_is_edges']:
        return 'bin-edges'
    return 'representable'


EXTRA_REFUSED = [
    {'id': 0, 'has_variances': True, 'ndim': 1, 'masks': [], 'coords': ['d'], 'edges': [], 'coord_arg': 'nope',
     'scalar_coords': [], 'label': 'coord-arg-missing'},
    {'id': 1, 'has_variances': True, 'ndim': 1, 'masks': [], 'coords': ['d', 's'], 'edges': [], 'coord_arg': 's',
     'scalar_coords': ['s'], 'label': 'coord-arg-0d'},
    {'id': 2, 'has_variances': True, 'ndim': 1, 'masks': [], 'coords': ['s'], 'edges': [], 'coord_arg': None,
     'scalar_coords': ['s'], 'label': 'only-coord-0d'},
]


# ------------------------------------------------------------------ Coq serialisation
def coq_text(s):
    """Coq term of type Model.text for an arbitrary 8-bit string"""
    parts = []
    i = 0
    while i < len(s):
        j = i
        safe = (32 <= ord(s[i]) < 127) or s[i] == '\n'
        while j < len(s) and (((32 <= ord(s[j]) < 127) or s[j] == '\n') == safe):
            j += 1
        seg = s[i:j]
        if safe:
            parts.append('s2t "' + seg.replace('"', '""') + '"%string')
        else:
            parts.append('codes [' + '; '.join(str(ord(c)) for c in seg) + ']%nat')
        i = j
    if not parts:
        return '(@nil Ascii.ascii)'
    return '(List.concat [' + '; '.join(parts) + '])'


def coq_bool(b):
    return 'true' if b else 'false'


def chunks_of(f, r, per=100):
    """split one file observation into Coq chunk terms of <= per rows; returns (terms, descriptors)"""
    text = ''.join(chr(k) for k in r['text'])
    n = len(f['x'])
    rd = 'Universal' if f['target'] in UNIVERSAL else 'LFOnly'
    if 'load_error' in r:
        loaded, nl = f'(LErr "{r["load_error"]}")', None
    else:
        nl = len(r['lx'])
        loaded = f'(LRows {nl})'
    lines = text.split('\n')
    aligned = nl == n and text.endswith('\n') and len(lines) - 1 >= n
    out = []

    def rows(a, b):
        rs = []
        for k in range(a, b):
            lx, ly, lv = (r['lx'][k], r['ly'][k], r['lv'][k]) if (nl is not None and k < nl) else (0, 0, 0)
            rs.append(f'mkrow {f["x"][k]} {f["y"][k]} {f["v"][k]} {r["s"][k]} {lx} {ly} {lv}')
        return '[' + '; '.join(rs) + ']'
    if not aligned and n > per:
        # a big file that did not load / whose text does not end with n data lines: Coq decides on the
        # recorded outcome (load error, loaded row count) and on the beginning of the text
        cut = '\n'.join(lines[:per]) + '\n'
        out.append((f'mkchunk {rd} {coq_text(cut)} {rows(0, min(n, per))} {n} {loaded}', (0, min(n, per))))
        return out
    if not aligned or n <= per:
        out.append((f'mkchunk {rd} {coq_text(text)} {rows(0, n)} {n} {loaded}', (0, n)))
        return out
    head = lines[:len(lines) - 1 - n]
    data = lines[len(lines) - 1 - n:-1]
    for a in range(0, n, per):
        b = min(n, a + per)
        t = '\n'.join(data[a:b]) + '\n'
        if a == 0 and head:
            t = '\n'.join(head) + '\n' + t
        out.append((f'mkchunk {rd} {coq_text(t)} {rows(a, b)} {n} {loaded}', (a, b)))
    return out


def ulp_distance(a, b):
    def key(u):
        return -(u & ~SIGN) if u & SIGN else u
    return abs(key(a) - key(b))


# ------------------------------------------------------------------ correspondence
def run_harness(ctx, files, refusals):
    tmp = tempfile.mkdtemp(prefix='c15_')
    try:
        return ctx.run_impl('c15_impl.py', {'tmpdir': tmp, 'files': files, 'refusals': refusals})
    finally:
        shutil.rmtree(tmp, ignore_errors=True)


def file_summary(f, rows=(0, 3)):
    a, b = rows
    b = min(b, a + 3, len(f['x']))
    return {'id': f['id'], 'target': f['target'], 'n_rows': len(f['x']),
            'header': None if f['header'] is None else ''.join(chr(k) for k in f['header'])[:80],
            'coords': f['coords'], 'chosen': f['chosen'], 'coord_arg': f['coord_arg'],
            'rows': [{'x': b2f(f['x'][k]).hex(), 'y': b2f(f['y'][k]).hex(), 'variance': b2f(f['v'][k]).hex()}
                     for k in range(a, b)]}


def correspondence(ctx):
    rng = random.Random(ctx.seed)
    files = gen_files(rng, ctx.tier)
    refusals = gen_refusals(rng, ctx.tier)
    res = run_harness(ctx, files, refusals + [dict(c, id=len(refusals) + c['id']) for c in EXTRA_REFUSED])
    ctx.coverage['versions'] = res.get('versions')
    # ---------------- round trips
    terms, descs = [], []
    max_k, n_doubles, mutated = 0, 0, 0
    for f, r in zip(files, res['files']):
        has_cr = f['header'] is not None and 13 in f['header']
        if 'save_error' in r:
            ctx.violation(f'roundtrip:save-raises-{r["save_error"]}',
                          f'save_xye raised {r["save_error"]} ({r.get("msg")}) on representable data',
                          {'file': file_summary(f), 'full_case': f if len(f['x']) <= 50 else None})
            continue
        if not r.get('input_unchanged', True):
            mutated += 1
        if 'lv' in r and len(r['lv']) == len(f['v']):
            for a, b in zip(f['v'], r['lv']):
                if (b >> 52) & 2047 != 2047:
                    max_k = max(max_k, ulp_distance(a, b))
        ch = chunks_of(f, r)
        if ctx.tier == 'quick' and len(ch) > 40:
            # quick tier: the 1e4-row file is saved and loaded in full (row count checked in every chunk);
            # the per-row checks run on its first and last 10 chunks and 10 random ones (thorough: all)
            keep = set(range(10)) | set(range(len(ch) - 10, len(ch))) | set(rng.sample(range(10, len(ch) - 10), 10))
            ch = [c for k, c in enumerate(ch) if k in keep]
        n_doubles += 3 * sum(b - a for _, (a, b) in ch)
        for t, (a, b) in ch:
            terms.append(t)
            descs.append({'file': f, 'rows': (a, b), 'has_cr': has_cr, 'load_error': r.get('load_error'),
                          'n_loaded': len(r['lx']) if 'lx' in r else None})
    header = ('From Coq Require Import List String Ascii ZArith QArith.\n'
              'From Verif.C15 Require Import Model Check.\n'
              'Import ListNotations.\n')
    # pack chunks into groups of <= 400 rows; one group per shard entry, one entry per shard file
    groups, cur, w = [], [], 0
    for i, (t, d) in enumerate(zip(terms, descs)):
        wt = d['rows'][1] - d['rows'][0] + 8
        if cur and w + wt > 400:
            groups.append(cur)
            cur, w = [], 0
        cur.append(f'({i}%nat, {t})')
        w += wt
    if cur:
        groups.append(cur)
    gterms = ['[' + ';\n'.join(g) + ']' for g in groups]
    gfails, errors = ctx.coq_eval_shards(header, gterms, lambda k: 'Eval vm_compute in (report (map check_group cases)).\n',
                                         shard=1, prefix='rt')
    fails = {}
    for _, msg in gfails.items():
        for part in msg.split('|'):
            if '=' in part:
                i, why = part.split('=', 1)
                fails[int(i)] = why
    for name, e in errors:
        ctx.violation('corr-shard-error', f'correspondence shard {name} did not evaluate: {e[:300]}',
                      {'shard': name, 'error': e}, found_input=False)
    for i, why in sorted(fails.items()):
        d = descs[i]
        f = d['file']
        structural = why.startswith(('row-count', 'load-raises', 'header-line', 'tokens', 'token-syntax'))
        if d['has_cr'] and f['target'] in UNIVERSAL and structural:
            key = 'header:lone-carriage-return'
            what = (f'a header containing a carriage return is not inert when the file is read in text mode '
                    f'(target={f["target"]}): {why}; header={"".join(chr(k) for k in f["header"])!r}, '
                    f'{len(f["x"])} rows saved, loaded: {d["n_loaded"] if d["load_error"] is None else d["load_error"]}')
        else:
            key = 'roundtrip:' + why
            what = (f'XYE round trip differs from the property ({why}) for file case {f["id"]} '
                    f'(target={f["target"]}, rows {d["rows"][0]}..{d["rows"][1]} of {len(f["x"])})')
        ctx.violation(key, what, {'reason': why, 'file': file_summary(f, d['rows']),
                                  'full_case': f if len(f['x']) <= 50 else None})
    # ---------------- refusals
    rterms, rdescs = [], []
    nref = len(refusals)
    for c, r in zip(refusals, res['refusals'][:nref]):
        fa = refusal_facts(c)
        m = r['facts_measured']
        for k in ('has_variances', 'ndim', 'nmasks', 'ncoords'):
            if m[k] != fa[k]:
                raise RuntimeError(f'harness built a different data array than planned: {c} {m}')
        obs = 'Saved' if r['outcome'] == 'saved' else f'(Raised "{r["outcome"]}")'
        rterms.append(f'mkrcase (mkfacts {coq_bool(fa["has_variances"])} {fa["ndim"]} {fa["nmasks"]} {fa["ncoords"]} '
                      f'{coq_bool(fa["coord_given"])} {coq_bool(fa["dim_in_coords"])} {coq_bool(fa["chosen_is_edges"])}) {obs}')
        rdescs.append({'case': c, 'facts': fa, 'observed': r['outcome'], 'msg': r.get('msg'), 'label': refusal_label(fa)})
        if r['outcome'] != 'saved' and r.get('nchars'):
            ctx.violation('refusal:partial-output', 'save_xye raised after writing to the target', {'case': c, 'result': r})
    rheader = header + 'From Verif.C15 Require Import ProofsGuard.\nFrom Run Require Import GenXye Corr.\nOpen Scope string_scope.\n'
    rfails, rerrors = ctx.coq_eval_shards(rheader, rterms,
                                          lambda k: 'Eval vm_compute in (report (map check_refusal cases)).\n',
                                          shard=400, prefix='ref')
    for name, e in rerrors:
        ctx.violation('corr-shard-error', f'refusal shard {name} did not evaluate: {e[:300]}', {'shard': name, 'error': e},
                      found_input=False)
    for i, why in sorted(rfails.items()):
        d = rdescs[i]
        ctx.violation(f'refusal:{d["label"]}',
                      f'save_xye outcome differs for class {d["label"]}: {why}; case {d["case"]}', d)
    eterms = []
    for c, r in zip(EXTRA_REFUSED, res['refusals'][nref:]):
        eterms.append('Saved' if r['outcome'] == 'saved' else f'(Raised "{r["outcome"]}")')
    efails, eerrors = ctx.coq_eval_shards(rheader, eterms, lambda k: 'Eval vm_compute in (report (map check_refused cases)).\n',
                                          shard=400, prefix='extra')
    for name, e in eerrors:
        ctx.violation('corr-shard-error', f'shard {name} did not evaluate: {e[:300]}', {'shard': name}, found_input=False)
    for i, why in sorted(efails.items()):
        ctx.violation(f'refusal:{EXTRA_REFUSED[i]["label"]}', f'unrepresentable input was written: {EXTRA_REFUSED[i]}',
                      {'case': EXTRA_REFUSED[i], 'reason': why})
    if mutated:
        ctx.note(f'{mutated} files: save_xye modified its input (C09 covers this)')
    classes = {}
    for d in rdescs:
        classes[d['label'] + ' -> ' + d['observed']] = classes.get(d['label'] + ' -> ' + d['observed'], 0) + 1
    distinct = len({(x, y, v) for f in files for x, y, v in zip(f['x'], f['y'], f['v'])})
    ctx.coverage.update({
        'evaluations': n_doubles + len(rterms) + len(eterms),
        'distinct_nontrivial': distinct + len({json.dumps(d['facts'], sort_keys=True) for d in rdescs}),
        'rule': 'evaluations = printed doubles (3 per row; each parsed as an exact rational in Coq and checked against the '
                'printf contract, bit equality of the reload, variance bound) + refusal cases; distinct = distinct '
                '(x, y, variance) bit-pattern rows + distinct guard valuations. Doubles: 30% uniform over sign/exponent/'
                'mantissa, 12% subnormal, 18% powers of two +-2 ulp, 10% powers of ten +-1 ulp, printf ties (20-digit '
                'decimals ending in 5), +-max, +-0, min/max subnormal, 0.1+0.2, everyday magnitudes. Files: 1..1e4 rows, '
                'headers default/empty/multi-line/#/data-like/random ASCII (with CR), 1..5 coordinates (single / '
                'dimension-coordinate / coord=), targets str path, pathlib.Path, open file, StringIO.',
        'files': len(files), 'rows_checked_in_coq': n_doubles // 3, 'rows_saved_and_loaded': sum(len(f['x']) for f in files), 'chunks': len(terms),
        'row_counts': sorted({len(f['x']) for f in files}),
        'targets': {t: sum(1 for f in files if f['target'] == t) for t in ('path', 'pathlib', 'fileobj', 'stringio')},
        'headers_with_newline': sum(1 for f in files if f['header'] and 10 in f['header']),
        'headers_with_hash': sum(1 for f in files if f['header'] and 35 in f['header']),
        'headers_with_cr': sum(1 for f in files if f['header'] and 13 in f['header']),
        'n_coords': {str(k): sum(1 for f in files if len(f['coords']) == k) for k in range(1, 6)},
        'max_variance_ulp_distance_observed': max_k,
        'refusal_classes': classes,
        'disagreements': len(fails) + len(rfails) + len(efails),
        'samples': [file_summary(files[0]), file_summary(files[2]), file_summary(files[-1]),
                    rdescs[0] if rdescs else None, rdescs[-1] if rdescs else None],
    })


# ------------------------------------------------------------------ search / replay
def property_holds(f, r):
    """the property's own statement on one observation (Python, no model): returns None or the failure"""
    if 'save_error' in r:
        return f'save raised {r["save_error"]}'
    if 'load_error' in r:
        return f'load raised {r["load_error"]}'
    if len(r['lx']) != len(f['x']):
        return f'{len(f["x"])} rows saved, {len(r["lx"])} loaded'
    for k in range(len(f['x'])):
        if r['lx'][k] != f['x'][k]:
            return f'coordinate row {k}: saved {b2f(f["x"][k]).hex()} loaded {b2f(r["lx"][k]).hex()}'
        if r['ly'][k] != f['y'][k]:
            return f'value row {k}: saved {b2f(f["y"][k]).hex()} loaded {b2f(r["ly"][k]).hex()}'
        if ulp_distance(r['lv'][k], f['v'][k]) > 4:
            return f'variance row {k}: saved {b2f(f["v"][k]).hex()} loaded {b2f(r["lv"][k]).hex()}'
    return None


def search(ctx, broken):
    rng = random.Random(ctx.seed + 7)
    files = gen_files(rng, 'quick')[:40]
    fid = len(files)
    sp = special_doubles()
    for h in HEADER_POOL + CR_HEADERS:
        for tgt in ('path', 'stringio', 'fileobj'):
            files.append({'id': fid, 'target': tgt, 'header': [ord(c) for c in h], 'coords': ['d'], 'chosen': 'd',
                          'coord_arg': None, 'unit': None, 'coord_unit': None,
                          'x': sp[10:12], 'y': sp[12:14], 'v': [f2b(4.0), f2b(0.3)]})
            fid += 1
    refusals = gen_refusals(rng, 'thorough')
    res = run_harness(ctx, files, refusals)
    found = []
    for f, r in zip(files, res['files']):
        why = property_holds(f, r)
        if why:
            has_cr = f['header'] is not None and 13 in f['header']
            key = 'header:lone-carriage-return' if has_cr and f['target'] in UNIVERSAL else 'roundtrip:search'
            d = {'reason': why, 'file': file_summary(f), 'full_case': f if len(f['x']) <= 50 else None}
            ctx.violation(key, f'round trip fails on the implementation: {why} (target={f["target"]}, '
                               f'header={None if f["header"] is None else "".join(chr(k) for k in f["header"])[:60]!r})', d)
            found.append(d)
    for c, r in zip(refusals, res['refusals']):
        fa = refusal_facts(c)
        lab = refusal_label(fa)
        if (lab == 'representable') != (r['outcome'] == 'saved'):
            d = {'case': c, 'facts': fa, 'observed': r['outcome'], 'label': lab}
            ctx.violation(f'refusal:{lab}', f'class {lab}: save_xye outcome {r["outcome"]}; case {c}', d)
            found.append(d)
    return found


def replay(ctx, obj):
    rp = obj.get('replay', {})
    print(json.dumps({k: v for k, v in obj.items() if k != 'replay'}, indent=1))
    if rp.get('full_case'):
        f = rp['full_case']
        res = run_harness(ctx, [f], [])
        r = res['files'][0]
        text = ''.join(chr(k) for k in r.get('text', []))
        print('file text written by save_xye:')
        print(repr(text[:600]))
        print('required: load_xye returns', len(f['x']), 'rows, coordinate/value bit-identical, variance within a few ulp')
        print('observed:', property_holds(f, r) or 'property holds on this input now')
        return 0 if property_holds(f, r) is None else 1
    if 'case' in rp and 'has_variances' in rp.get('case', {}):
        res = run_harness(ctx, [], [rp['case']])
        r = res['refusals'][0]
        fa = refusal_facts(rp['case'])
        print('case', rp['case'])
        print('required:', 'saved' if refusal_label(fa) == 'representable' else 'refused (' + refusal_label(fa) + ')')
        print('observed:', r['outcome'], r.get('msg', ''))
        return 0
    print(json.dumps(rp, indent=1)[:3000])
    return 0
