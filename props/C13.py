"""C13 — SQW content is what was supplied: pixels, run metadata, histogram metadata."""
import json
import os
import random
import threading
import time

import sqwcorr as S
import vlib

ID = 'C13'
LEVEL = 'proof'
TRANSLATE = None
GEN_FILES = ['GenSqw.v', 'GenSqwUnits.v']
RUN_FILES = ['CheckC13.v', 'Tie.v', 'Properties.v']
COQ_TIMEOUT = 600
TRUSTED = [
    'coq/SQW/Model.v: hand-written executable model of the writer (see C12; validated byte for byte by C12 on every run)',
    'coq/SQW/Format.v + Content.v: independent decoder and the documented content view (class layouts, field names, '
    'documented units: momenta 1/angstrom, energies meV, angles rad, lattice parameters angstrom/deg); the format documentation is trusted',
    'unit conversion is not modelled: the harness converts every supplied quantity with scipp (oracle); Coq checks each '
    'converted value against supplied value x exact unit ratio in rational arithmetic (relative 1e-15), table Check.unit_info',
    'binary64 -> binary32 is modelled bit-exactly (Model.f64_to_f32, round to nearest even) and compared with numpy on every pixel',
    'scipp min/max of a row and the identity elements for empty rows (only rows in documented units are generated for N = 0)',
    'tools/harness/sqw_impl.py + lib/sqwcorr.py (exact serialisation; Uint63 literals only as transport in correspondence files)',
    'lib/sqwcorr.py:unit_facts (ast extraction of the unit string literals of _models.py / _sqw.py, fail-closed)',
    'coq-run/C13/CheckC13.v: the per-case checker run by the shards = Check.check_c13 with an identity shortcut in the conversion '
    'check (same unit, identical finite bit patterns => no rational arithmetic); transport of long lists: identical literals are '
    'let-bound once, lists of binary32-exact values travel as binary32 patterns and are widened in Coq (f32w); for the two > 1 MiB '
    'pixel blocks the reader\'s copy of the pixel values is not transported (its shape, metadata and errors are; the file bytes are decoded in Coq)',
]
ASSUMPTIONS = [
    'KNOWN FINDINGS excluded from the reader-unit theorem: the two alatt fields (sample, projection) are labelled 1/angstrom by the reader (C13_reader_unit_dimension_except_known_alatt is the full statement minus exactly these; C13_alatt_unit_refuted proves the defect from the regenerated tables); the reader raises on a 2-D en (no theorem depends on it)',
    'strings are ASCII; values are finite and stay finite in binary32 after conversion; integer rows are below 2^53',
    'pixel rows are float64, int64, or float32 already in the documented unit (float32 rows needing conversion are converted by scipp in single precision: outside "rounded once")',
    'integers stored as binary64 (nfiles, npix, run ids) are below 2^53; at least one run',
    'SqwIXSource.frequency and IX_experiment u/v are written as bare numbers (no unit in the format): compared as numbers',
]
LEVEL_TEXT = ('Proof: decode(encode(o)) = o for every well-formed object tree; for all builder-call sequences, byte orders, pixel counts, '
              'chunk sizes and payloads fitting their fields, decoding the file written by the model with the independent decoder and '
              'the documented content view yields exactly the supplied content (pixels in order, each the once-rounded converted value; '
              'N and per-row min/max; one record per run with 1-based ids, meV, rad; one shared instrument/sample object with idx all 1; '
              'dnd metadata; zero histogram). Reader unit labels are tied to the writer units from the regenerated source tables. '
              'On every run the real files are decoded in Coq and compared with the supplied values (conversions checked in exact '
              'rationals) and with what the package reader returns.')
LEVEL_NOTE = ('Trusted: Coq kernel (theorems axiom-free); hand model + independent decoder/content view; scipp as conversion oracle '
              'checked to 1e-15 against exact ratios; harness serialisation; ast extraction of unit literals.')
TECHNIQUE = 'Coq proof (round trip by induction on IR trees, per-class content views) + vm_compute correspondence on real files incl. the package reader'


def pre_build(ctx):
    facts = S.source_facts(vlib.REPO)
    with open(os.path.join(ctx.build, 'GenSqw.v'), 'w') as f:
        f.write(S.gen_sqw_v(facts))
    uf = S.unit_facts(vlib.REPO)
    with open(os.path.join(ctx.build, 'GenSqwUnits.v'), 'w') as f:
        f.write(S.gen_units_v(uf))
    ctx.coverage['source_facts'] = {'loop_stop_src': facts['loop_stop_src'], 'units': uf}


def gen_cases(rng, tier):
    cases = []
    bos = ['native', 'little', 'big']
    n_rand = 140 if tier == 'quick' else 1200
    ns = [0, 1, 2, 3, 7, 8, 9, 10, 11, 20, 63, 64, 65, 200, 1000]
    for i in range(n_rand):
        n = rng.choice(ns)
        kinds = [k for k in S.KINDS if rng.random() < 0.7]
        if 'pix' not in kinds and rng.random() < 0.7:
            kinds.append('pix')
        rng.shuffle(kinds)
        calls = []
        for k in kinds:
            if k == 'pix':
                calls.append(S.gen_pix_call(rng, n, n_runs=rng.choice([1, 1, 2, 3, 5, 20]), convert=rng.random() < 0.8,
                                            f32_signal=rng.random() < 0.15, en2d=(i % 10 == 9),
                                            run_ids=rng.choice(['seq', 'sparse'])))
            else:
                calls.append(S.gen_call(rng, k))
        chunk = rng.choice(S.chunk_grid(max(n, 1)) + [None])
        tags = ['random'] + (['en2d'] if i % 10 == 9 else [])
        # every third file: the supplied data array carries masks / coordinates that are not rows
        for cl in calls:
            if cl['kind'] == 'pix' and i % 3 == 1:
                S.add_pix_extras(rng, cl, mode='random' if i % 2 else ('extreme', rng.choice(S.ROW_ORDER), rng.choice(['min', 'max', 'both'])))
                tags.append('pix-extras')
        cases.append(S.mk_case(rng, calls, byteorder=bos[i % 3], sink='file' if i % 4 == 0 else 'bytesio', chunk=chunk, tags=tags))
    # boundary values for the binary32 rounding and the units, all rows
    for n, chunk in ((64, 7), (257, 64), (3000, None)) + (((20000, 8192), (100000, None)) if tier == 'thorough' else ()):
        cases.append(S.mk_case(rng, [S.gen_pix_call(rng, n, n_runs=2, convert=True), S.gen_samp_call(rng), S.gen_inst_call(rng),
                                     S.gen_dnd_call(rng)], chunk=chunk, tags=['values']))
    # masks flagging exactly the pixels that hold the minimum / maximum of each of the nine rows (signal, variance, every
    # coordinate row), converted and unconverted units, N = 1 (everything masked) .. 200; extra coordinates only
    k = 0
    for row in S.ROW_ORDER:
        for which in ('min', 'max'):
            k += 1
            if tier == 'quick' and row in ('irun', 'idet', 'ien') and which == 'min' and k % 2:
                continue
            n = rng.choice([1, 2, 3, 9, 10, 65, 200])
            pc = S.gen_pix_call(rng, n, n_runs=1, convert=rng.random() < 0.5, f32_signal=rng.random() < 0.1)
            S.add_pix_extras(rng, pc, mode=('extreme', row, which))
            cases.append(S.mk_case(rng, [pc], sink='bytesio' if k % 3 else 'file', chunk=rng.choice([None, 1, n, 8]),
                                   tags=['masked-extreme', f'masked-extreme:{row}:{which}']))
    for n in (0, 5):
        pc = S.add_pix_extras(rng, S.gen_pix_call(rng, n, n_runs=1), mode='random')
        cases.append(S.mk_case(rng, [pc, S.gen_dnd_call(rng)], tags=['pix-extras', 'masked-random']))
    cases.append(S.mk_case(rng, [S.add_pix_extras(rng, S.gen_pix_call(rng, 7, n_runs=2), mode='coords')], tags=['pix-extras', 'extra-coords']))
    # one array write above 1 MiB per sink (a single chunk of > 29127 pixels x 9 float32): block-wise copying paths
    for sink in ('bytesio', 'file'):
        n = rng.randrange(29200, 30000)
        c = S.mk_case(rng, [S.gen_pix_call(rng, n, convert=False, n_runs=1, row_dtypes='f32-exact')], sink=sink,
                      chunk=rng.choice([n, n + 1, 65536, 100000]), tags=['values', 'single-write-above-1MiB'])
        c['reader_pixels'] = False      # the reader's copy of the 270000 values is not transported (its shape and errors are)
        cases.append(c)
    # empty strings / long strings
    for L in (0, 1, 255, 256, 70000):
        pc = S.gen_pix_call(rng, 5, n_runs=2)
        pc['experiments'][0]['filename'] = S.ascii_string(rng, L)
        pc['experiments'][0]['filepath'] = S.ascii_string(rng, L)
        samp = S.gen_samp_call(rng)
        samp['name'] = S.ascii_string(rng, L)
        inst = S.gen_inst_call(rng)
        inst['src_name'] = S.ascii_string(rng, L)
        dnd = S.gen_dnd_call(rng)
        dnd['proj']['title'] = S.ascii_string(rng, L)
        dnd['axes']['label'] = [S.ascii_string(rng, min(L, 300)) for _ in range(4)]
        cases.append(S.mk_case(rng, [pc, samp, inst, dnd], title=S.ascii_string(rng, L), tags=['strings']))
    for i, c in enumerate(cases):
        c['id'] = i
    return cases


def correspondence(ctx):
    rng = random.Random(ctx.seed)
    cases = gen_cases(rng, ctx.tier)
    t0 = time.time()
    results = S.run_harness(ctx, cases, batch=60)
    t_impl = time.time() - t0
    small, small_idx, big, big_idx = [], [], [], []
    values = 0
    for c, r in zip(cases, results):
        if 'error' in r:
            ctx.violation('create-raises:' + r['error']['type'],
                          f'SqwBuilder raised {r["error"]["type"]}: {r["error"]["msg"]} on {S.describe(c)}',
                          {'case': c, 'error': r['error']})
            continue
        term = S.case_term(c, r, share=True)
        values += sum(9 * cl['npix'] for cl in c['calls'] if cl['kind'] == 'pix')
        if r['size'] > 40000:
            big.append(term)
            big_idx.append(c['id'])
        else:
            small.append(term)
            small_idx.append(c['id'])
    footer = lambda k: 'Eval vm_compute in (report (map check_c13f cases)).\n'  # noqa: E731
    header = S.HEADER + 'From Run Require Import CheckC13.\n'
    fails, errors = {}, []
    # the large files (one Coq process each, the > 1 MiB ones take longest) are evaluated alongside the small shards
    big_out = {}

    def eval_big():
        big_out['r'] = ctx.coq_eval_shards(header, big, footer, shard=1, prefix='bigcases')
    th = threading.Thread(target=eval_big) if big else None
    if th:
        th.start()
    if small:
        f1, e1 = ctx.coq_eval_shards(header, small, footer, shard=12, prefix='cases')
        fails.update({small_idx[i]: why for i, why in f1.items()})
        errors += e1
    if th:
        th.join()
        if 'r' not in big_out:
            errors.append(('bigcases', 'evaluation thread died'))
        else:
            f2, e2 = big_out['r']
            fails.update({big_idx[i]: why for i, why in f2.items()})
            errors += e2
    for name, e in errors:
        ctx.violation('corr-shard-error', f'correspondence shard {name} did not evaluate: {e[:300]}',
                      {'shard': name, 'error': e}, found_input=False)
    by_key = {}
    for cid, why in fails.items():
        for part in why.split('+'):
            key = refine_key(S.norm_reason(part), part, results[cid])
            if key not in by_key or S.case_size(cases[cid]) < S.case_size(cases[by_key[key][0]]):
                by_key[key] = (cid, why)
    for key, (cid, why) in sorted(by_key.items()):
        c, r = cases[cid], results[cid]
        detail = observed_detail(key, c, r)
        ctx.violation(key, f'SQW file written for {S.describe(c)} fails [{why}]: {detail}',
                      {'case': c, 'reason': why, 'detail': detail, 'reader_errors': r.get('reader', {}).get('errors')})
    seen = set()
    for c, r in zip(cases, results):
        if 'error' in r:
            continue
        seen.add((tuple(cl['kind'] for cl in c['calls']), c['byteorder'], c['sink'], S.case_size(c), c['chunk'], r['size']))
    ctx.coverage.update({
        'evaluations': len(cases),
        'distinct_nontrivial': len({s for s in seen if s[0]}),
        'rule': 'random subsets/orders of the five builder calls with random finite values (60% plain, 40% boundary: zeros, '
                'float32-exact, float32 rounding ties, float32 subnormal range, near float32 max, underflow to 0), input units '
                '1/angstrom|1/nm|1/um|1/pm|1/m, meV|eV|ueV|keV, count|kcount|Mcount, rad|deg|mrad, angstrom|nm|pm|um; int64/float64/'
                'float32 rows; N in {0..1000,3000}; chunk grid; 1..20 runs direct/indirect (1-d and 2-d en); strings 0/1/255/256/70000; '
                'both byte orders; BytesIO and files; the supplied pixel data array carries 1..3 boolean masks (random density incl. none / all '
                'set; one mask flagging exactly the pixels that hold the min / max of each of the nine rows, N = 1..200) and 0..3 '
                'coordinates that are not rows (per pixel / scalar, float64 / float32 / int64, with and without variances) in every third '
                'random file and in dedicated files: pixels, npix and data_range must be those of ALL N supplied pixels; one pixel block '
                'written as a single array of > 1 MiB (29200..30000 pixels, chunk >= N) per sink. Each file is decoded in Coq (independent decoder + content view) and compared '
                'with the supplied content; conversions checked against exact rationals; reader output compared too. '
                'non-trivial = at least one builder call; distinct = distinct (call kinds, byte order, sink, N, chunk, file size)',
        'samples': [S.describe(cases[i]) for i in (0, 9, 50, len(cases) - 1) if i < len(cases)],
        'disagreements': len(fails),
        'per_tag': {t: sum(1 for c in cases if t in c['tags']) for t in ('random', 'en2d', 'values', 'strings', 'pix-extras',
                                                                        'masked-extreme', 'single-write-above-1MiB')},
        'masked_extreme_rows': sorted({t.split(':', 1)[1] for c in cases for t in c['tags'] if t.startswith('masked-extreme:')}),
        'files_with_masks': sum(1 for c in cases if any(cl.get('masks') for cl in c['calls'])),
        'files_with_extra_coords': sum(1 for c in cases if any(cl.get('extra_coords') for cl in c['calls'])),
        'largest_single_array_write_bytes': max([36 * min(cl['npix'], c['chunk'] or 8192) for c in cases for cl in c['calls']
                                                 if cl['kind'] == 'pix'] or [0]),
        'pixel_values_compared': values,
        'impl_seconds': round(t_impl, 1),
    })


KNOWN_ALATT_LABEL = '1/angstrom'


def refine_key(key, part, r):
    """the recorded known findings are: lattice parameters (written in angstrom) come back labelled exactly 1/angstrom.
    Any OTHER wrong label on those fields is a different violation and gets its own key."""
    if key.startswith('reader-unit-dimension:') and key.endswith('alatt'):
        path = part.split(':', 1)[1]
        o = r.get('reader', {}).get('view', {}).get(path)
        if o is not None and o.get('unit') != KNOWN_ALATT_LABEL:
            return key + ':labelled-' + str(o.get('unit'))
    return key


def observed_detail(key, c, r):
    view = r.get('reader', {}).get('view', {})
    m = key.split(':')[1] if key.count(':') >= 1 else key
    out = {}
    for path, o in view.items():
        if S.norm_reason(path) == m or path == m:
            out[path] = {'unit': o.get('unit'), 'n_values': len(o.get('vals', [])) if 'vals' in o else None, 'v': o.get('v')}
            break
    for cl in c['calls']:
        if cl['kind'] == 'samp' and 'samp' in m:
            out['supplied'] = {'alatt': cl['alatt'], 'angdeg': cl['angdeg']}
        if cl['kind'] == 'dnd' and 'dnd.pr' in m:
            out['supplied'] = {'alatt': cl['proj']['alatt']}
    out['file_size'] = r.get('size')
    return out


def pixel_statement_problems(c, r):
    """the pixel part of the property statement on one written file whose rows were supplied in the documented units
    (no conversion involved): the reader returns N pixels, pixel i holds the supplied values of pixel i rounded once to
    binary32, the pixel metadata hold N and the min / max of each row over ALL N supplied pixels.  [(key, text)]"""
    import struct
    pcs = [cl for cl in c['calls'] if cl['kind'] == 'pix']
    if not pcs or pcs[-1]['npix'] == 0:
        return []
    pc = pcs[-1]
    if any(pc['rows'][k].get('unit') != S.ROW_TARGET[k] for k in ('u1', 'u2', 'u3', 'u4', 'signal')):
        return []
    n = pc['npix']
    view = r.get('reader', {}).get('view', {})
    errs = r.get('reader', {}).get('errors', {})
    out = []
    rows = [[float(v) for v in pc['rows'][k]['values']] for k in S.ROW_ORDER]
    if 'pix/metadata' in errs or 'pixmeta.npix' not in view:
        out.append(('reader-error:pix/metadata', f'pixel metadata not readable: {errs.get("pix/metadata")}'))
    else:
        if view['pixmeta.npix']['v'] != n:
            out.append(('reader-int:pixmeta.npix', f'{n} pixels supplied, pixel metadata say npix = {view["pixmeta.npix"]["v"]}'))
        want = [S.bits64(f(row)) for row in rows for f in (min, max)]
        got = view['pixmeta.range']['vals']
        if got != want:
            bad = [(S.ROW_ORDER[i // 2], 'min' if i % 2 == 0 else 'max', struct.unpack('>d', struct.pack('>Q', g))[0],
                    struct.unpack('>d', struct.pack('>Q', w))[0]) for i, (g, w) in enumerate(zip(got, want)) if g != w][:3]
            out.append(('reader-value:pixmeta.range', f'data_range of the pixel metadata is not the min / max over all {n} supplied pixels: '
                                                     f'(row, which, in the file, supplied) {bad}; {len(got)} numbers'))
    if 'pix/data_wrap' in errs or 'pix.shape' not in view:
        out.append(('reader-error:pix/data_wrap', f'{n} pixels supplied (chunk {c["chunk"]}), file has {r["size"]} bytes; reader: '
                                                  f'{errs.get("pix/data_wrap")}'))
    elif view['pix.shape']['vals'][0] != n:
        out.append(('reader-value:pix.shape', f'{n} pixels supplied (chunk {c["chunk"]}), the reader returns shape {view["pix.shape"]["vals"]}'))
    elif 'pix.f32' in view:
        want = [struct.unpack('>I', struct.pack('>f', rows[k][i]))[0] for i in range(n) for k in range(9)]
        got = view['pix.f32']['vals']
        if got != want:
            i = next((j for j, (g, w) in enumerate(zip(got, want)) if g != w), min(len(got), len(want)))
            out.append(('reader-f32:pix.f32', f'pixel {i // 9} row {S.ROW_ORDER[i % 9]} differs from the supplied value rounded to '
                                              f'binary32 ({len(got)} values returned, {len(want)} supplied)'))
    return out


def search(ctx, broken):
    """an obligation broke: evaluate the property's own statement on the implementation — write a file, read it back with the
    package, compare supplied and returned quantities (dimension by unit string class, pixel count)"""
    rng = random.Random(ctx.seed + 13)
    cases = [S.mk_case(rng, [S.gen_samp_call(rng), S.gen_pix_call(rng, 3, n_runs=2, convert=False)], sink='bytesio', tags=['search']),
             S.mk_case(rng, [S.gen_dnd_call(rng)], sink='bytesio', tags=['search'])]
    for n, chunk in ((20, 1), (20, 3), (100, 10), (10000, None)):
        cases.append(S.mk_case(rng, [S.gen_pix_call(rng, n, n_runs=1, convert=False)], sink='bytesio', chunk=chunk, tags=['search']))
    # the supplied data array carries masks (flagging the pixels with the extreme value of each row) / extra coordinates
    for row in S.ROW_ORDER:
        for which in ('min', 'max'):
            pc = S.add_pix_extras(rng, S.gen_pix_call(rng, rng.choice([2, 5, 40]), n_runs=1, convert=False), mode=('extreme', row, which))
            cases.append(S.mk_case(rng, [pc], sink='bytesio', chunk=rng.choice([None, 1, 3]), tags=['search', 'masked-extreme']))
    cases.append(S.mk_case(rng, [S.add_pix_extras(rng, S.gen_pix_call(rng, 6, n_runs=1, convert=False), mode='random')], tags=['search', 'pix-extras']))
    # one array write above 1 MiB (a chunk of > 29127 pixels), BytesIO and file; more of them when the low-level writer changed
    names = ' '.join(broken or [])
    for sink in ('bytesio', 'file') * (2 if '_low_level_io' in names or '_build' in names else 1):
        n = rng.randrange(29200, 30000)
        cases.append(S.mk_case(rng, [S.gen_pix_call(rng, n, n_runs=1, convert=False, row_dtypes='f32-exact')], sink=sink,
                               chunk=rng.choice([n, n + 1, 65536]), tags=['search', 'single-write-above-1MiB']))
    for i, c in enumerate(cases):
        c['id'] = i
    results = S.run_harness(ctx, cases)
    found = []
    for c, r in sorted(zip(cases, results), key=lambda cr: S.case_size(cr[0])):
        if 'error' in r:
            continue
        for key, text in pixel_statement_problems(c, r):
            ctx.violation(key, f'{text} for {S.describe(c)}', {'case': c, 'file_size': r['size'], 'problem': text})
            found.append(c)
    inverse = {'1/angstrom', '1/nm', '1/um', '1/pm', '1/m'}
    for c, r in zip(cases, results):
        if 'error' in r:
            continue
        view = r.get('reader', {}).get('view', {})
        for path, supplied_unit in (('samp.0.alatt', next((cl['alatt']['unit'] for cl in c['calls'] if cl['kind'] == 'samp'), None)),
                                    ('dnd.pr.alatt', next((cl['proj']['alatt']['unit'] for cl in c['calls'] if cl['kind'] == 'dnd'), None))):
            if supplied_unit is None or path not in view:
                continue
            if (view[path]['unit'] in inverse) != (supplied_unit in inverse) or view[path]['unit'] not in inverse | {'angstrom', 'nm', 'pm', 'um', 'm'}:
                key = 'reader-unit-dimension:' + S.norm_reason(path)
                if view[path]['unit'] != KNOWN_ALATT_LABEL:
                    key += ':labelled-' + str(view[path]['unit'])
                ctx.violation(key, f'lattice parameters supplied in {supplied_unit} are returned by the reader labelled '
                                   f'{view[path]["unit"]} ({path}) for {S.describe(c)}', {'case': c, 'path': path, 'reader_unit': view[path]['unit']})
                found.append(c)
        npix = sum(cl['npix'] for cl in c['calls'] if cl['kind'] == 'pix')
        errs = r.get('reader', {}).get('errors', {})
        if 'pix/data_wrap' in errs or ('pix.shape' in view and view['pix.shape']['vals'][0] != npix):
            ctx.violation('reader-error:pix/data_wrap', f'{npix} pixels supplied (chunk {c["chunk"]}); file has {r["size"]} bytes; reader: '
                                                        f'{errs.get("pix/data_wrap") or view["pix.shape"]}', {'case': c, 'file_size': r['size']})
            found.append(c)
    return found


def replay(ctx, obj):
    rep = obj['replay']
    case = rep.get('case')
    if case is None:
        print(json.dumps(obj, indent=1)[:3000])
        return 0
    case = dict(case)
    case['id'] = 0
    r = ctx.run_impl('sqw_impl.py', {'cases': [{k: v for k, v in case.items() if k != 'tags'}]})['cases'][0]
    print('case:', json.dumps(S.describe(case)))
    if 'error' in r:
        print('SqwBuilder raised', r['error'])
        return 1
    view = r['reader'].get('view', {})
    print('file size', r['size'], 'reader errors', r['reader'].get('errors'))
    bad = 0
    for cl in case['calls']:
        if cl['kind'] == 'samp':
            o = view.get('samp.0.alatt')
            print('sample lattice spacing supplied', cl['alatt'], '-> reader returns unit', o and o['unit'])
            bad += int(bool(o) and o['unit'] != 'angstrom')
        if cl['kind'] == 'dnd':
            o = view.get('dnd.pr.alatt')
            print('projection lattice spacing supplied', cl['proj']['alatt'], '-> reader returns unit', o and o['unit'])
            bad += int(bool(o) and o['unit'] != 'angstrom')
        if cl['kind'] == 'pix':
            sh = view.get('pix.shape')
            print('pixels supplied', cl['npix'], '-> reader returns shape', sh and sh['vals'])
            bad += int(not sh or sh['vals'][0] != cl['npix'])
    for key, text in pixel_statement_problems(case, r):
        print('pixel content:', key, '::', text)
        bad += 1
    print('required: same numbers, strings, shapes; unit of the same dimension as supplied; all N supplied pixels in order; '
          'npix = N and data_range = per-row min / max over all N supplied pixels (masked or not)')
    return 1 if bad or r['reader'].get('errors') else 0
