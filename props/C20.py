"""C20 — bundled nuclear data are returned verbatim; attenuation follows the 1/v law.

Every run:
  pre_build      tools/csv2coq.py turns /repo's CURRENT three CSV files into Run.GenTables
                 (raw lines for the model of the scanning code + rows split at commas for the spec);
  TRANSLATE      tools/py2coq.py regenerates reference_wavelength and Material.attenuation_coefficient;
  coq-run/C20    Tie.v (finite facts by vm_compute on the regenerated tables, lifted through the
                 unbounded lemmas of coq/C20/Proofs.v; attenuation law on the regenerated term over R),
                 Fast.v (lookups with the file scan guarded by a membership test, PROVED equal to the
                 model for every string; what the correspondence evaluates),
                 Properties.v (the property theorems + Print Assumptions), Corr.v (comparison functions);
  correspondence EXHAUSTIVE: every row of the three tables and near-miss names derived from every
                 real name (tools/harness/c20_names.py: what may stand before / after / inside a valid
                 name) go through the real Atom.for_isotope / ScatteringParams.for_isotope; the
                 observations are compared with the model INSIDE Coq; attenuation on random
                 densities / wavelengths (float and INTEGER dtypes, m ... fm) / units against the
                 regenerated function evaluated over Q and against the closed 1/v law (Corr.check_law).
  A changed return type of the package never ends the run: the name is reported (unrepresentable-result)
  or, if a whole part fails, the part becomes a broken obligation and search() runs.
"""
import concurrent.futures
import json
import os
import random
import re
import sys
import time

import importlib.util

import kcorr
import vlib
from kcorr import hexf, loguniform, operand

# the near-miss generator is shared with the search harness (tools/harness/c20_search.py)
_spec = importlib.util.spec_from_file_location('c20_names', os.path.join(vlib.VERIF, 'tools', 'harness', 'c20_names.py'))
c20_names = importlib.util.module_from_spec(_spec)
_spec.loader.exec_module(c20_names)

ID = 'C20'
LEVEL = 'proof'
TRANSLATE = {'modules': [
    {'py': 'src/scippneutron/atoms/__init__.py', 'coq': 'GenAtoms', 'functions': ['reference_wavelength']},
    {'py': 'src/scippneutron/absorption/material.py', 'coq': 'GenMaterial',
     'imports': {'reference_wavelength': 'GenAtoms'},
     'functions': ['Material.attenuation_coefficient'], 'requires': ['Verif.C20.SemExt']},
]}
GEN_FILES = ['GenTables.v']
# order: the table obligations, the guarded (fast) lookups proved equal to the model, the comparison functions (so that the correspondence can run even if a later
# proof breaks), the regression pin, the attenuation proof, the property theorems
RUN_FILES = ['Tie.v', 'Fast.v', 'Corr.v', 'Pin.v', 'TieAtt.v', 'Properties.v']
COQ_TIMEOUT = 900
TRUSTED = [
    'tools/csv2coq.py (CSV lines -> Coq string literals; fail-closed outside printable ASCII; its row split is '
    'cross-checked against the Coq model of str.split by Tie.rows_are_split_lines)',
    'tools/py2coq.py (syntactic translator, fail-closed) for reference_wavelength / Material.attenuation_coefficient',
    'coq/C20/Model.v: HAND model of _find_line_with_isotope, _assemble_scalar, _parse_line, _load_atomic_weight, '
    '_load_atomic_mass, _parse_isotope_name, Atom.for_isotope, ScatteringParams.for_isotope (str.split / rstrip / == on '
    'ASCII, readline, re.match of (?:\\d+)?([a-zA-Z]+)); tied to the code by the exhaustive correspondence',
    'coq/C20/Dec.v: decimal literal -> exact rational and round-to-nearest-even binary64 (model of float(); correspondence only)',
    'coq/C20/SemExt.v: dataclass instances as attribute records (py_attr on VDict); coq/Sem/Val.v model of scipp '
    'unit algebra, .to(unit=), dtype promotion',
    'coq/C20/Spec.v periodic_table (independent knowledge used for "z of the right element")',
    'coq/C20/RefTables.v + tools/corpus/C20/*.csv: pinned snapshot of the tables (regression pin, not part of the property)',
    'tools/harness/c20_names.py (generator of near-miss names; input generation only), '
    'tools/harness/c20_lookup.py, c20_atten.py, kernels_impl.py (exact serialisation of observations); scipp itself '
    "resolves the unit names 'fm', 'barn', 'Da' the observations are compared with",
    'functools.lru_cache is not modelled (repeated queries are exercised by the correspondence)',
]
ASSUMPTIONS = [
    'Python float() is a correctly rounded strtod; float**2 (libm pow) is within 1 ulp of the exact square',
    'query names are arbitrary strings in the theorems (byte strings in Coq); the regex model is stated for ASCII '
    '(non-ASCII digits/letters are only exercised by the correspondence, where they must be rejected)',
    'attenuation theorem over exact reals; rounding is covered by the correspondence tolerance (1e-13 double, 2e-6 single)',
]

FIELDS = ['coherent_scattering_length_re', 'coherent_scattering_length_im',
          'incoherent_scattering_length_re', 'incoherent_scattering_length_im',
          'coherent_scattering_cross_section', 'incoherent_scattering_cross_section',
          'total_scattering_cross_section', 'absorption_cross_section']
TABLES = [('scat', 'scattering_parameters.csv', 0), ('weight', 'atomic_weights.csv', 2),
          ('mass', 'atomic_masses.csv', 2)]
SNAPSHOT = os.path.join(vlib.VERIF, 'tools', 'corpus', 'C20')


def atoms_dir():
    return os.path.join(vlib.REPO, 'src', 'scippneutron', 'atoms')


# ------------------------------------------------------------------ generation of Run.GenTables
def pre_build(ctx):
    out = os.path.join(ctx.build, 'GenTables.v')
    rc, txt = vlib.sh([sys.executable, os.path.join(vlib.VERIF, 'tools', 'csv2coq.py'), vlib.REPO, out], timeout=120)
    txt = vlib.clean_out(txt)
    m = re.search(r'^CSV2COQ (.*)$', txt, re.M)
    if rc != 0 or not m:
        raise RuntimeError('csv2coq failed: ' + txt[-400:])
    ctx.coverage['tables'] = json.loads(m.group(1))
    ctx.obligations.append(('csv2coq:GenTables', 'discharged', ''))


def read_names():
    """first field of every data line of the three CURRENT files (input generation only)"""
    out = {}
    for t, fn, skip in TABLES:
        with open(os.path.join(atoms_dir(), fn), encoding='utf-8', errors='replace') as f:
            lines = f.read().split('\n')
        if lines and lines[-1] == '':
            lines = lines[:-1]
        out[t] = [l.split(',') for l in lines[skip:]]
    return out


# ------------------------------------------------------------------ near-miss names
def near_misses(n):
    """(kind, name) variants of a real name generated in every tier: prefix, suffix, case, blanks, leading zero,
    comma (tools/harness/c20_names.py documents all classes)"""
    return c20_names.fixed_variants(n)


FULLWIDTH = {c: chr(ord(c) - 0x21 + 0xFF01) for c in map(chr, range(0x21, 0x7F))}


def unicode_variants(n):
    out = [('unicode', ''.join(FULLWIDTH.get(c, c) for c in n)),      # fullwidth letters/digits
           ('unicode', '١' + n),                                   # ARABIC-INDIC DIGIT ONE (matches \d)
           ('unicode', n + ' ')]                                   # no-break space
    return out


def build_queries(rng, tabs, tier):
    """ordered list of (name, kind, origin); every real name, near misses of EVERY real name"""
    real = []
    for t in ('scat', 'weight', 'mass'):
        for r in tabs[t]:
            real.append((r[0], t))
    seen = {}
    order = []

    def add(name, kind, origin):
        if name not in seen:
            seen[name] = (kind, origin)
            order.append(name)
    for n, t in real:
        add(n, 'exact', t)
    for n, t in real:
        nm = near_misses(n)
        # what may surround a valid name (c20_names.CLASSES): digit / blank / punctuation / non-letter tail after it,
        # blank / punctuation / digit before it, mass number and symbol swapped or separated, a non-letter inside
        # the symbol.  Per class: the `always` members + (quick: 1 seeded; thorough: all / 1 for isotope-mass names)
        # members of its pool
        if t == 'mass':
            cls = c20_names.near_misses(n, rng, 1)[len(nm):]
            if tier == 'quick':
                # quick tier: 5 of the ~15 fixed variants + 3 class variants (seeded choice) for each of the 3557
                # isotope-mass names; all fixed + always + 2 per class for the 371 + 118 scattering / element names
                nm = rng.sample(nm, 5) + rng.sample(cls, min(3, len(cls)))
            else:
                nm = nm + cls
        else:
            nm = c20_names.near_misses(n, rng, 2 if tier == 'quick' else None)
        for kind, v in nm:
            add(v, kind, n)
    uni_src = [n for n, _ in real]
    rng.shuffle(uni_src)
    for n in uni_src[:150 if tier == 'quick' else 1500]:
        for kind, v in unicode_variants(n):
            add(v, kind, n)
    for extra in ['', ' ', ',', '1', '12', '#', 'Element', 'Isotope', 'isotope', 'Z', 'D', 'T', 'n', 'H,1',
                  '# Numbers extracted using tools/atomic_weights.ipynb from https://www.ciaaw.org/atomic-masses.htm']:
        add(extra, 'special', '')
    rng.shuffle(order)
    # repeated queries (lru_cache hits and evictions): a block of names asked again, some immediately
    rep = [n for n, _ in real]
    rng.shuffle(rep)
    repeats = rep[:300] + rep[:40] + order[:200]
    return order, repeats, seen


# ------------------------------------------------------------------ Coq terms
def cstr(s):
    if not isinstance(s, str):
        raise ValueError(f'not a string: {s!r}')
    b = s.encode('utf-8', errors='surrogatepass')
    if all(32 <= c <= 126 for c in b):
        return '"' + s.replace('"', '""') + '"'
    return '(bytes_str [' + ';'.join(str(c) for c in b) + ']%N)'


def q(pair):
    return f'(({int(pair[0])}) # {int(pair[1])})'


def obs_term(o, utab):
    """OBS -> Coq term, or raises ValueError if it cannot be represented (not a finite 0-d variable).
    `utab`: {(multiplier, dims, dtype) as Coq text: constant name}; the few distinct triples of a run are
    written once in the header (see Run.Corr.mkO)"""
    if o is None:
        return 'None'
    if not isinstance(o, dict) or 'not_a_variable' in o or o.get('ndim') != 0 or not isinstance(o.get('value'), list):
        raise ValueError(f'not a finite scalar variable: {o}')
    var = o['variance']
    if var is not None and not isinstance(var, list):
        raise ValueError(f'variance not finite: {o}')
    vt = 'None' if var is None else f'(Some {q(var)})'
    if not re.fullmatch(r'[A-Za-z0-9_]+', str(o['dtype'])):
        raise ValueError(f'unexpected dtype: {o}')
    u = f'({q(o["unit"]["mult"])}, {kcorr.dims_term(o["unit"]["dims"])}, "{o["dtype"]}")'
    name = utab.setdefault(u, f'uo{len(utab)}')
    return f'(Some (mkO {q(o["value"])} {vt} {name}))'


def err_class(r):
    """exception class name of an {'err': ...} observation (a Python identifier, checked)"""
    c = r.get('err') if isinstance(r, dict) else None
    if not isinstance(c, str) or not re.fullmatch(r'[A-Za-z_][A-Za-z0-9_.]*', c):
        raise ValueError(f'neither a result nor an exception: {r!r}')
    return c


def case_term(name, res, is_ascii, utab):
    """one Coq term `L name ascii <scat obs> <atom obs> <elem obs>`; ValueError when an observation cannot be
    written down as data (the caller reports the name)"""
    a = 'true' if is_ascii else 'false'
    r = res.get('scat')
    if not isinstance(r, dict) or 'malformed' in r:
        raise ValueError(f'ScatteringParams.for_isotope returned something unreadable: {r!r}')
    if 'ok' in r:
        fs = r['ok']['fields']
        st = f'(SOk {cstr(r["ok"]["isotope"])} [' + '; '.join(obs_term(f, utab) for f in fs) + '])'
    else:
        c = err_class(r)
        st = 'sVE' if c == 'ValueError' else f'(SErr "{c}")'
    r = res.get('atom')
    if not isinstance(r, dict) or 'malformed' in r:
        raise ValueError(f'Atom.for_isotope returned something unreadable: {r!r}')
    if 'ok' in r:
        z = r['ok']['z']
        if not isinstance(z, int) or isinstance(z, bool):
            raise ValueError(f'z is not an int: {z!r}')
        at = (f'(AOk {cstr(r["ok"]["isotope"])} ({z})%Z {obs_term(r["ok"]["weight"], utab)} '
              f'{obs_term(r["ok"]["mass"], utab)})')
    else:
        c = err_class(r)
        at = {'ValueError': 'aVE', 'TypeError': 'aTE'}.get(c, f'(AErr "{c}")')
    e = res.get('elem', {'unavailable': True})
    if not isinstance(e, dict) or 'group' not in e or not (e['group'] is None or isinstance(e['group'], str)):
        # the private helper is missing, raised something else, or no longer returns the element symbol as a
        # string (its interface changed): no direct comparison; Atom.for_isotope is compared in any case
        et = 'ESkip'
    else:
        et = 'eN' if e['group'] is None else f'(EGroup (Some {cstr(e["group"])}))'
    return f'(L {cstr(name)} {a} {st} {at} {et})'


def run_lookups(ctx, names, apis=('scat', 'atom', 'elem')):
    """the real implementation on all names, in order, split over a few processes"""
    nproc = min(8, vlib.NCPU, max(1, len(names) // 2000))
    size = (len(names) + nproc - 1) // nproc
    chunks = [names[i:i + size] for i in range(0, len(names), size)]
    with concurrent.futures.ThreadPoolExecutor(max_workers=nproc) as ex:
        parts = list(ex.map(lambda c: ctx.run_impl('c20_lookup.py', {'names': c, 'apis': list(apis)}), chunks))
    results = [r for p in parts for r in p['results']]
    return results, parts[0]['units'], parts[0].get('scipp')


LOOKUP_HEADER = ('From Coq Require Import QArith ZArith NArith String List.\n'
                 'From Verif.Sem Require Import Field Val QInst Corr.\n'
                 'From Verif.C20 Require Import Dec Model Spec Proofs.\n'
                 'From Run Require Import Corr.\n'
                 'Import ListNotations.\nOpen Scope string_scope.\n')


def units_header(units, utab):
    items = [f'("{u}", ({q(i["mult"])}, {kcorr.dims_term(i["dims"])}))' for u, i in units.items()]
    consts = ''.join(f'Definition {n} : Q * dims * string := {u}.\n' for u, n in utab.items())
    return LOOKUP_HEADER + 'Definition UT : unit_table := [' + '; '.join(items) + '].\n' + consts


def describe_impl(r):
    try:
        return describe_impl_(r)
    except Exception:       # an observation of unexpected shape: show it as it is
        return r


def describe_impl_(r):
    if r is None:
        return None
    if 'err' in r:
        return 'raises ' + str(r['err']) + ': ' + str(r.get('text', ''))
    if 'group' in r:
        return {'element symbol': r['group']}
    if 'ok' not in r:
        return r
    o = r['ok']

    def show(x):
        if x is None:
            return None
        if 'value' not in x:
            return x
        val = kcorr.fmt(x['value']) if isinstance(x['value'], list) else x['value']
        var = kcorr.fmt(x['variance']) if isinstance(x['variance'], list) else x['variance']
        return {'value': val, 'variance': var, 'unit': x['unit']['name'], 'dtype': x['dtype']}
    if 'fields' in o:
        return {'isotope': o['isotope'], **{f: show(v) for f, v in zip(FIELDS, o['fields'])}}
    return {'isotope': o['isotope'], 'z': o['z'], 'atomic_weight': show(o['weight']), 'atomic_mass': show(o['mass'])}


def lookup_correspondence(ctx, rng):
    tabs = read_names()
    order, repeats, meta = build_queries(rng, tabs, ctx.tier)
    names = order + repeats
    t0 = time.time()
    results, units, scipp_version = run_lookups(ctx, names)
    print(f'[C20] implementation answered {len(names)} names x 3 apis in {time.time() - t0:.1f}s')
    terms, descs = [], []
    n_type_error = 0
    counts = {}
    elem_unavailable = False
    elem_other = None
    utab = {}
    for i, (name, res) in enumerate(zip(names, results)):
        kind, origin = meta[name]
        is_ascii = all(ord(c) < 128 for c in name)
        try:
            t = case_term(name, res, is_ascii, utab)
        except Exception as ex:      # whatever the package returned: report the name, go on with the others
            ctx.violation(f'lookup:{kind}:unrepresentable-result',
                          f'lookup of {name!r} returned something that cannot be read as the documented result '
                          f'(a string name, an int z, finite scalar quantities or None): {type(ex).__name__}: {ex}',
                          {'name': name, 'kind': kind, 'derived_from': origin, 'impl': res})
            continue
        terms.append(t)
        descs.append({'name': name, 'kind': kind, 'derived_from': origin, 'repeat': i >= len(order),
                      'impl': {api: describe_impl(res.get(api)) for api in ('scat', 'atom', 'elem')}})
        e = res.get('elem', {})
        if 'unavailable' in e:
            elem_unavailable = True
        elif 'other' in e and elem_other is None:
            elem_other = (name, e['other'])
        counts[kind] = counts.get(kind, 0) + 1
        if res.get('atom', {}).get('err') == 'TypeError':
            n_type_error += 1
    if elem_other:
        elem_unavailable = True
        ctx.note(f'_parse_isotope_name no longer returns the element symbol as a string (e.g. {elem_other[1]} for '
                 f'{elem_other[0]!r}): the direct comparison of this private helper was skipped; Atom.for_isotope is '
                 'compared for every name')
    fails, errors = ctx.coq_eval_shards(units_header(units, utab), terms,
                                        lambda k: 'Eval vm_compute in (report (map (check_lookup UT) cases)).\n',
                                        shard=1000, prefix='lookup', timeout=1500)
    print(f'[C20] Coq compared {3 * len(terms)} lookup observations in {time.time() - t0:.1f}s (incl. implementation)')
    for nm, e in errors:
        ctx.violation('corr-shard-error', f'correspondence shard {nm} did not evaluate: {e[:300]}',
                      {'shard': nm, 'error': e}, found_input=False)
    for i, why in sorted(fails.items()):
        d = descs[i]
        api, _, why = why.partition('|')
        cls = re.sub(r'field\d+-', 'field-', why).split(':')[0]
        key = f'{api}:{d["kind"]}:{cls}'
        fld = re.match(r'field(\d+)-', why)
        extra = f' (field {FIELDS[int(fld.group(1))]})' if fld and int(fld.group(1)) < len(FIELDS) else ''
        api_name = {'scat': 'ScatteringParams.for_isotope', 'atom': 'Atom.for_isotope',
                    'elem': '_parse_isotope_name'}.get(api, api)
        ctx.violation(key, f'{api_name}({d["name"]!r}) [{d["kind"]}'
                      + (f' of {d["derived_from"]!r}' if d['derived_from'] and d['kind'] != 'exact' else '')
                      + f'] disagrees with the table model: {why}{extra}; implementation: {d["impl"].get(api)}',
                      {'api': api, 'name': d['name'], 'kind': d['kind'], 'derived_from': d['derived_from'],
                       'reason': why, 'impl': d['impl'].get(api),
                       'required': 'the fields of the table row whose first field is exactly the name '
                                   '(value == float(field), variance == float(std)**2, unit, None where blank); '
                                   'rejection (an exception) for any other name'})
    if elem_unavailable and not elem_other:
        ctx.note('_parse_isotope_name is not available in this tree; its direct comparison was skipped')
    n_api = 2 if elem_unavailable else 3
    distinct = n_api * len({d['name'] for d in descs if not d['repeat']})
    n_rows = {t: len(tabs[t]) for t in tabs}
    samples = [d for d in descs if d['kind'] == 'exact'][:2]
    for k in ('prefix', 'comma', 'unicode') + c20_names.CLASSES:
        samples += [d for d in descs if d['kind'] == k][:1]
    return {
        'evaluations': n_api * len(terms), 'distinct': distinct, 'rows': n_rows, 'samples': samples,
        'names_per_kind': dict(sorted(counts.items())),
        'disagreements': len(fails), 'type_error_rejections': n_type_error,
        'distinct_names': len(order), 'repeated_queries': len(repeats), 'scipp_version': scipp_version,
        'units': {u: {'name': i['name'], 'multiplier': kcorr.fmt(i['mult']), 'dims': i['dims']} for u, i in units.items()},
    }


# ------------------------------------------------------------------ attenuation
INVVOL = [('1/angstrom^3', 1e30), ('1/m^3', 1.0), ('1/cm^3', 1e6), ('1/nm^3', 1e27)]
AREA = [('barn', 1e-28), ('fm^2', 1e-30), ('m^2', 1.0), ('angstrom^2', 1e-20), ('cm^2', 1e-4), ('mm^2', 1e-6)]
ORDER = ['n', 'ss', 'sa', 'wl']
# wavelength units: "in any units" — those of kcorr (m, mm, km, angstrom, nm, cm) and the finer / odd ones
WL_UNITS = kcorr.UNITS['length'] + [('pm', 1e-12), ('fm', 1e-15), ('um', 1e-6)]
WL_FINE = [('angstrom', 1e-10), ('nm', 1e-9), ('pm', 1e-12), ('fm', 1e-15)]


def wavelength_operand(rng, n, dim, dtype):
    """thermal / cold neutron wavelengths (0.2 .. 30 angstrom) in any unit of length.  Integer dtypes: whole
    numbers of a unit fine enough to hold them (angstrom, nm, pm, fm; rarely 1..3 um), NOT multiples of an
    angstrom in general (150 pm, 17982 fm, ...)"""
    si = [loguniform(rng, 2e-11, 3e-9) for _ in range(n)]
    if dtype.startswith('int'):
        if rng.random() < 0.06:
            return {'values': [rng.randint(1, 3) for _ in si], 'unit': 'um', 'dtype': dtype, 'dim': dim}
        name, mult = rng.choice(WL_FINE + [('pm', 1e-12), ('fm', 1e-15)])
        return {'values': [max(1, int(round(v / mult))) for v in si], 'unit': name, 'dtype': dtype, 'dim': dim}
    name, mult = rng.choice(WL_UNITS)
    return {'values': [hexf(v / mult) for v in si], 'unit': name, 'dtype': dtype, 'dim': dim}


def gen_atten_groups(rng, n_groups, tabs):
    both = [r[0] for r in tabs['scat'] if len(r) > 15 and r[13] and r[15]]
    groups = []
    for gi in range(n_groups):
        mode = rng.choice(['scalar', 'scalar', '1d'])
        single = rng.random() < 0.2
        flavour = rng.random()
        isotope = rng.choice(both) if (flavour < 0.3 and both) else None
        no_sa = (0.3 <= flavour < 0.36)

        def dt(first=False):
            if single:
                return 'float32' if first else rng.choice(['float32', 'float64'])
            return rng.choice(['float64', 'float64', 'float64', 'int64'])
        # dtype of the wavelength: float64 / float32 / int64 / int32 (about a third of the groups integer)
        wl_dtype = 'float32' if single else rng.choice(['float64', 'float64', 'float64', 'int64', 'int64', 'int32',
                                                          'float32'])
        dim, n = (None, 1) if mode == 'scalar' else ('x', 5)
        ops = {
            'n': operand(rng, None, [loguniform(rng, 1e26, 1e30)], dtype=dt(), dim=None, unit=rng.choice(INVVOL)),
            'ss': operand(rng, None, [loguniform(rng, 1e-30, 1e-25)], dtype=dt(), dim=None, unit=rng.choice(AREA)),
            'sa': operand(rng, None, [loguniform(rng, 1e-31, 1e-24)], dtype=dt(), dim=None, unit=rng.choice(AREA)),
            'wl': wavelength_operand(rng, n, dim, wl_dtype),
        }
        if no_sa:
            ops['sa'] = None
        groups.append({'id': gi, 'operands': ops, 'isotope': isotope, 'single': single,
                       'kname': 'attenuation_no_sigma_a' if no_sa else 'attenuation'})
    return groups


def atten_correspondence(ctx, rng, n_groups):
    tabs = read_names()
    groups = gen_atten_groups(rng, n_groups, tabs)
    res = ctx.run_impl('c20_atten.py', {'groups': [{k: g[k] for k in ('id', 'operands', 'isotope')} for g in groups]})
    terms, descs = [], []
    mutated = 0
    for g, r in zip(groups, res['groups']):
        if 'build_error' in r:
            ctx.note(f'attenuation group {g["id"]} could not be built by the harness: {r["build_error"]}')
            continue
        if not r.get('inputs_unchanged', True):
            mutated += 1
        order = ORDER
        if r['operands'].get('sa') is None:
            r['operands']['sa'] = r['operands']['ss']       # placeholder slot, ignored by the model
        any32 = any(o['dtype'] == 'float32' for o in r['operands'].values())
        tol = '(1 # 10000000000000)' if not any32 else '(2 # 1000000)'
        for t, d in kcorr.element_cases(g['kname'], order, g, r, tol):
            d['isotope'] = g['isotope']
            d['wavelength_is_array'] = bool(r['operands']['wl']['dims'])
            d['wavelength_class'] = r['operands']['wl']['dtype'] + ' ' + r['operands']['wl']['unit']['name']
            terms.append(t)
            descs.append(d)
    header = ('From Coq Require Import QArith ZArith String List.\n'
              'From Verif.Sem Require Import Field Val QInst Corr.\nFrom Run Require Import Corr.\n'
              'Import ListNotations.\nOpen Scope string_scope.\n')
    fails, errors = ctx.coq_eval_shards(header, terms,
                                        lambda k: 'Eval vm_compute in (report (map check_both cases)).\n',
                                        prefix='atten')
    for nm, e in errors:
        ctx.violation('corr-shard-error', f'correspondence shard {nm} did not evaluate: {e[:300]}',
                      {'shard': nm, 'error': e}, found_input=False)
    for i, why in sorted(fails.items()):
        d = descs[i]
        if why == 'impl-raises-VariancesError' and d.get('isotope') and d.get('wavelength_is_array'):
            # scipp refuses to broadcast the uncertainty of a bundled cross-section over a wavelength ARRAY
            ctx.violation('attenuation:bundled-uncertainty-x-wavelength-array',
                          f'Material.attenuation_coefficient raises VariancesError for a wavelength array when the bundled '
                          f'cross-sections of the nuclide carry an uncertainty (here {d["isotope"]!r}; 119 of the 339 rows with '
                          f'both cross-sections do); scalar wavelengths work: {d}', {'case': d, 'reason': why})
            continue
        if why.startswith('law-'):
            # the law itself (Run.Corr.check_law): the regenerated code agrees with the implementation but not with
            # n (sigma_s + sigma_a lambda / 1.7982 angstrom)
            wl = d['operands']['wl']
            ctx.violation(f'{d["kernel"]}:{why.split(":")[0]}:wavelength-{wl["dtype"]}',
                          f'Material.attenuation_coefficient({wl["value"]} {wl["unit"]}, {wl["dtype"]}) returned '
                          f'{d["impl"]} which is not n*(sigma_s + sigma_a*lambda/1.7982 angstrom) in 1/length ({why}); '
                          f'operands: {d["operands"]}',
                          {'case': d, 'reason': why,
                           'required': 'n*(sigma_s + sigma_a*lambda/(1.7982 angstrom)) in inverse length, to 1e-13 '
                                       '(2e-6 with a float32 operand); integer operands are the integers they are'})
            continue
        ctx.violation(f'{d["kernel"]}:{why.split(":")[0]}',
                      f'Material.attenuation_coefficient differs from n*(sigma_s + sigma_a*lambda/1.7982 angstrom) '
                      f'({why}) on {d}', {'case': d, 'reason': why})
    if mutated:
        ctx.note(f'{mutated} attenuation groups had an operand modified by the call (C09 covers this)')
    nontrivial = len({repr(d['operands']) for d in descs if not isinstance(d['impl'], str)})
    rw = res.get('reference_wavelength')
    classes = {}
    for d in descs:
        classes[d['wavelength_class']] = classes.get(d['wavelength_class'], 0) + 1
    int_fine = [d for d in descs if d['wavelength_class'].startswith('int') and not isinstance(d['impl'], str)
                and d['operands']['wl']['unit'] in ('pm', 'fm')]
    return {'evaluations': len(terms), 'distinct_nontrivial': nontrivial, 'disagreements': len(fails),
            'samples': descs[:2] + int_fine[:1], 'reference_wavelength': kcorr.describe(rw, 0) if rw else None,
            'wavelength_dtype_unit_classes': dict(sorted(classes.items())),
            'integer_wavelengths_in_pm_or_fm': len(int_fine),
            'comparisons': 'each case twice inside Coq: against the regenerated function over Q (check) and against '
                           'the closed law n(sigma_s + sigma_a lambda/1.7982 A) over Q (check_law)'}


def correspondence(ctx):
    rng = random.Random(ctx.seed)
    if not os.path.exists(os.path.join(ctx.build, 'Corr.vo')):
        # the model of this run did not compile (obligation already reported as broken): nothing to compare
        # with inside Coq; search() evaluates the property statement on the implementation instead
        ctx.note('Run.Corr is not available (an earlier run file failed); the Coq-side comparison is skipped')
        ctx.coverage.update({'evaluations': 0, 'distinct_nontrivial': 0, 'exhaustive': False,
                             'rule': 'correspondence skipped: the run files did not compile', 'samples': []})
        return
    # neither part may end the run: a crash (an observation of a shape nobody foresaw) becomes a broken
    # obligation, so that the driver runs search() on the implementation
    empty = {'evaluations': 0, 'distinct': 0, 'distinct_nontrivial': 0, 'samples': [], 'disagreements': 0,
             'type_error_rejections': 0, 'scipp_version': None}
    try:
        lk = lookup_correspondence(ctx, rng)
    except Exception as ex:
        import traceback
        traceback.print_exc()
        lk = dict(empty, crashed=f'{type(ex).__name__}: {ex}')
        ctx.obligations.append(('correspondence:lookup', 'broken', f'the lookup correspondence crashed: {type(ex).__name__}: {ex}'[:500]))
        ctx.broken.append('correspondence:lookup')
    try:
        at = atten_correspondence(ctx, rng, 200 if ctx.tier == 'quick' else 3000)
    except Exception as ex:
        import traceback
        traceback.print_exc()
        at = dict(empty, crashed=f'{type(ex).__name__}: {ex}')
        ctx.obligations.append(('correspondence:attenuation', 'broken', f'the attenuation correspondence crashed: {type(ex).__name__}: {ex}'[:500]))
        ctx.broken.append('correspondence:attenuation')
    if lk['type_error_rejections']:
        ctx.note(f'{lk["type_error_rejections"]} near-miss names without an element symbol were rejected by '
                 'Atom.for_isotope with TypeError (None[1]) rather than ValueError — a rejection; recorded, not flagged')
    ctx.coverage.update({
        'evaluations': lk['evaluations'] + at['evaluations'],
        'distinct_nontrivial': lk['distinct'] + at['distinct_nontrivial'],
        'exhaustive': True,
        'rule': 'lookups: EVERY row of the three tables (first-column names of the current CSV files) and, for EVERY real '
                'name, near misses: the fixed ones (prefix, drop-first, letter / digit suffix, case flips, leading/trailing '
                'blank/newline/tab, leading zero, trailing comma, comma+field) and the classes of what may surround a valid '
                'name (tools/harness/c20_names.py: digit(s) / blank kinds / punctuation and control characters / a tail '
                'starting with a non-letter AFTER the name — "H2", "He3", "H\\t", "C+", "He-3", "U,1" —, blank / punctuation / '
                'digit BEFORE it, mass number and symbol swapped or separated — "He3", "He-3", "3-He" —, a non-letter inside '
                'the symbol — "H e"); quick tier: all fixed + the always-members + 2 seeded pool members of every class for '
                'the scattering/element names, a seeded 5 fixed + 3 class variants per isotope-mass name; thorough: whole '
                'pools for scattering/element names, fixed + always + 1 per class for isotope-mass names; a seeded sample '
                'with non-ASCII look-alikes; through Atom.for_isotope, ScatteringParams.for_isotope and '
                '_parse_isotope_name, in shuffled order, plus repeated queries (lru_cache); '
                'distinct = distinct (api, name) pairs, all non-trivial (a table name returning data or a near miss that '
                'must be rejected). attenuation: random densities/cross-sections/wavelengths over 3-5 decades in '
                '4x6x6x9 units (wavelength: m, mm, km, cm, um, nm, angstrom, pm, fm), density/cross-sections '
                'float64/float32/int64, wavelength float64/float32/int64/int32 (integers: whole numbers of angstrom, nm, '
                'pm, fm, um — not multiples of an angstrom in general), scalar and 1-d wavelengths, 30% bundled nuclides, '
                '6% blank absorption (None -> TypeError); every case compared in Coq with the regenerated function AND with '
                'the closed law; non-trivial = the implementation returned a finite value.',
        'samples': lk['samples'] + at['samples'],
        'lookup': {k: v for k, v in lk.items() if k != 'samples'},
        'attenuation': {k: v for k, v in at.items() if k != 'samples'},
        'disagreements': lk['disagreements'] + at['disagreements'],
        'scipp_version': lk['scipp_version'],
    })


# ------------------------------------------------------------------ search / replay
def search(ctx, broken):
    """an obligation broke (changed table, changed constant, untranslatable edit, ...): evaluate the
    PROPERTY STATEMENT itself on the implementation (tools/harness/c20_search.py; no Coq model
    involved): every row verbatim, near misses rejected, z = position in the periodic table, the
    closed attenuation formula, and the diff of the tables against the pinned snapshot."""
    base = {'snapshot': SNAPSHOT, 'seed': ctx.seed, 'broken': [str(b) for b in broken]}
    # the near-miss sweep (every class of tools/harness/c20_names.py for every name: ~170 000 names x 2 entry
    # points) is split over several processes; rows / attenuation / snapshot run in one more
    nchunk = max(1, min(8, vlib.NCPU - 1))
    jobs = [dict(base, steps=['rows', 'attenuation', 'snapshot_differences'])]
    jobs += [dict(base, steps=['near_misses'], chunk=[i, nchunk]) for i in range(nchunk)]

    def run(job):
        try:
            return ctx.run_impl('c20_search.py', job)
        except Exception as ex:     # one part of the search failing must not hide what the others found
            return {'failures': [{'key': 'search:process', 'what': f'search process {job.get("steps")} failed: {ex}',
                                  'replay': None}], 'checked': {}}
    with concurrent.futures.ThreadPoolExecutor(max_workers=len(jobs)) as ex:
        parts = list(ex.map(run, jobs))
    res = {'failures': [f for p in parts for f in p['failures']], 'checked': {}}
    for p in parts:
        for k, v in (p.get('checked') or {}).items():
            old = res['checked'].get(k)
            res['checked'][k] = v if old is None else (old + v if isinstance(old, int) and isinstance(v, int) else f'{old}; {v}')
    found = []
    for f in res['failures']:
        if f['key'].startswith('search:'):       # a search step itself crashed: not a failing input
            ctx.note(f['what'])
            continue
        ctx.violation(f['key'], f['what'], f['replay'])
        found.append(f)
    ctx.coverage['search'] = {'checked': res.get('checked'), 'failures': len(res['failures'])}
    if not found:
        # nothing fails on the implementation: report the broken obligations themselves (the driver does the same,
        # but only when no other violation -- e.g. a known finding -- was recorded in this run)
        ctx.violation('broken-obligation:' + broken[0],
                      'proof obligations no longer check and the search found no failing input: ' + ', '.join(broken[:8]),
                      {'broken': list(broken), 'details': [o for o in ctx.obligations if o[1] != 'discharged'][:10],
                       'search_checked': res.get('checked')}, found_input=False)
    return found


def replay(ctx, obj):
    rp = obj.get('replay', {})
    print(json.dumps(obj, indent=1, default=str))
    names = []
    if isinstance(rp, dict):
        for k in ('name', 'reference_name', 'current_name'):
            if isinstance(rp.get(k), str):
                names.append(rp[k])
    if names:
        res = ctx.run_impl('c20_lookup.py', {'names': names})
        for n, r in zip(names, res['results']):
            print(f'--- observed now for {n!r}:')
            for api in ('scat', 'atom', 'elem'):
                print(f'    {api}: {describe_impl(r.get(api))}')
        print('--- required:', rp.get('required', 'see "what" above'))
        return 0
    case = rp.get('case') if isinstance(rp, dict) else None
    if case and ('operands' in case or 'wavelength' in case):
        print('re-run: Material(ScatteringParams(total_scattering_cross_section=ss, absorption_cross_section=sa), n)'
              '.attenuation_coefficient(wl) with the operands above (values, unit and dtype as listed); required: '
              'n*(ss + sa*wl/(1.7982 angstrom)) in inverse length')
    return 0


LEVEL_TEXT = ('Proof: on the tables regenerated from the CSV files of this tree, first columns are duplicate-free; for every row '
              'the model of ScatteringParams.for_isotope / Atom.for_isotope returns exactly that row\'s fields (decimal strings '
              'verbatim, unit of the column, None where blank, z = position of the element in the periodic table, mass only for '
              'isotope rows, weight only where the table has one); for ALL strings a successful lookup is answered from the row '
              'whose first field is literally the query and every other string is rejected (induction over arbitrary tables); '
              'in particular every string not of the shape (optional mass number)(letters) — a blank, newline, sign, comma '
              'or digit after / before / inside a valid name — is rejected by both entry points (C20_malformed_name_rejected). '
              'The regenerated Material.attenuation_coefficient equals n(sigma_s + sigma_a lambda/1.7982 A) in 1/length for '
              'arbitrary units (over R). The lookup model is a hand model tied to the code by an EXHAUSTIVE correspondence '
              '(all 371+118+3557 rows, near misses of every name incl. the classes of tools/harness/c20_names.py) compared inside '
              'Coq; every attenuation observation is compared inside Coq with the regenerated function over Q and, independently, '
              'with the closed law (Run.Corr.check_law), for float64/float32/int64/int32 wavelengths in m ... fm.')
LEVEL_NOTE = ('Trusted: Coq kernel; csv2coq/py2coq generators; hand model of the string primitives and of float(); Sem/Val.v model of '
              'scipp units; std-lib real-number axioms for the attenuation theorem only (lookup theorems are axiom-free). '
              'A pinned snapshot of the tables (tools/corpus/C20) is compared on every run: an intended data update must refresh it.')
TECHNIQUE = ('Coq: vm_compute over regenerated finite tables lifted by forallb/NoDup decision + induction for the unbounded '
             'direction; cbv+field on the regenerated attenuation term; exhaustive vm_compute correspondence against the implementation')
