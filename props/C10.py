"""C10 - disk-chopper open/close times are exactly the openings of the rotating disk.

Static Coq (coq/C10): Spec.v (rotating disk, is_open, disjointness on the circle), Model.v (hand model of
DiskChopper / Chopper.from_disk_chopper over exact rationals, angles in turns; the validation and the cascade
expansion in two variants: as found / repaired), Proofs*.v, Oracle.v (decision procedures proved equivalent
to the Spec predicates), Check.v (what is evaluated per observed case).
Per run: coq-run/C10/Tie.v (tie A: time formula, edge selection, sense of rotation proved on the terms
regenerated from disk_chopper.py), Properties.v, and the correspondence below (tie B + simulation of the
disk on the implementation's own output, inside Coq)."""
import json
import math
import random
from fractions import Fraction

ID = 'C10'
LEVEL = 'proof'
TRANSLATE = {
    'modules': [
        {'py': 'src/scippneutron/chopper/disk_chopper.py', 'coq': 'GenDisk',
         'requires': ['Verif.C10.SemExt'],
         'functions': ['DiskChopper.angular_frequency', 'DiskChopper.is_clockwise',
                       'DiskChopper.time_offset_angle_at_beam', 'DiskChopper.time_offset_open',
                       'DiskChopper.time_offset_close']},
    ],
    'methods': {
        '_apply_angle_repetitions': ['m_apply_angle_repetitions', [], [['angle', '!'], ['n_repetitions', '!']]],
        'time_offset_angle_at_beam': ['m_time_offset_angle_at_beam', [], [['angle', '!'], ['n_repetitions', '(VInt O (1))']]],
        '_source_phase_factor': ['m_source_phase_factor', ['pulse_frequency'], []],
        'to': ['m_to10', [], [['unit', None], ['dtype', None], ['copy', 'T']]],
    },
}
RUN_FILES = ['Tie.v', 'Properties.v']
TRUSTED = [
    'coq/C10/Model.v: hand-written model of _apply_angle_repetitions/flatten order, _source_phase_factor, '
    '_is_int_or_inverse_int, _check_edges/_check_edge_overlap and Chopper.from_disk_chopper (tie B: executed against the '
    'implementation on every run, compared inside Coq)',
    'tools/py2coq.py + coq/C10/SemExt.v (self.<field> lookup, .to(dtype="float64"), sc.constants.pi, one repetition element) '
    'for the formulas proved on regenerated terms (tie A)',
    'angles are converted to turns by the check (deg/360, rad/(2 pi) with pi to 63 digits) and rounded to the 2^-64 turn grid '
    '(5e-20 turn; monotone, commutes with whole turns)',
    'tools/harness/c10_impl.py (exact serialisation of binary64 times)',
    'scipp unit conversion, broadcasting, flatten, sort (modelled; exercised by the correspondence)',
]
ASSUMPTIONS = [
    'theorems are over exact rationals (angles in turns, so every time is rational); floating-point rounding is covered by the '
    'correspondence tolerance 1e-12 relative + 1e-13*(angle magnitude in turns)/|f| absolute',
    'frequency f <> 0 (f = 0 passes the ratio check and yields infinite times: outside the property, noted)',
    'open < close needs begin < end; _check_edges also accepts begin == end (zero-width slit, open == close): noted, not a violation',
    'the simulation samples 1e-9 rotation inside/outside every reported edge; generated slit widths and gaps are >= 2e-6 turn',
]
LEVEL_TEXT = ('Proof (Coq, axiom-free over Q): for every f <> 0, beam position, phase, slit list and repetition count the modelled '
              'open/close lists satisfy open<close, open throughout, closed just outside (given circle-disjoint slits), duration = '
              'width/|f|, every (slit, rotation) of rotations -1..n-1 exactly once and none missing; ratio check accepted iff quotient '
              'or inverse within 1e-8 of an integer; repaired validation accepts only circle-disjoint slits; repaired cascade expansion '
              'inherits all of it.  The tree as found is refuted on validation across TDC and on the cascade expansion (witnesses proved, '
              'replayed on the implementation).  Model tied to the code by regenerated-term proofs of the time formula and by a '
              'correspondence run whose comparisons and disk simulation are executed by Coq.')
LEVEL_NOTE = ('Trusted: Coq kernel; hand model of the repetition/flatten/validation/cascade logic (validated per run against the '
              'implementation); py2coq + SemExt for the formula tie; float rounding by tolerance, not by theorem.')
TECHNIQUE = ('Coq proofs over Q on a hand model + proofs on regenerated terms for the time formula + vm_compute correspondence with '
             'verified decision procedures of the specification run on the implementation output')

PI_Q = Fraction(3141592653589793238462643383279502884197169399375105820974944592, 10 ** 63)
FUNIT = {'Hz': Fraction(1), 'kHz': Fraction(1000), '1/min': Fraction(1, 60)}
TUNIT = {'s': Fraction(1), 'ms': Fraction(1, 1000), 'min': Fraction(60), 'us': Fraction(1, 10 ** 6)}
RATIOS = [Fraction(1, 4), Fraction(1, 3), Fraction(1, 2), Fraction(1), Fraction(2), Fraction(3), Fraction(4), Fraction(8)]
DELTAS = [0.0, 1e-9, 0.9e-8, 1.1e-8, 1e-6]
KEYMAP = {
    'validation-accepts-wrap-overlap': 'validation:tdc-wrap-overlap',
    'cascade-opening-reported-twice': 'cascade:duplicate-openings-across-pulses',
    'cascade-closed-inside-reported-interval': 'cascade:phantom-openings-subharmonic',
    'ratio-int-pulse-frequency-rounded': 'ratio:int-pulse-frequency-unit-conversion',
}


def hx(x):
    return float(x).hex()


def fl(h):
    return float.fromhex(h) if isinstance(h, str) else float(h)


def turns(x, unit):
    """an angle in turns on the 2^-64 turn grid (5e-20 turn): deg/360, rad/(2 pi) with pi to 63 digits, rounded to
    nearest.  The rounding is monotone and commutes with whole turns, so equal / touching / one-turn-apart edges stay so."""
    fr = Fraction(fl(x))
    t = fr / 360 if unit == 'deg' else fr / (2 * PI_Q)
    return Fraction(round(t * 2 ** 64), 2 ** 64)


def qs(fr):
    fr = Fraction(fr)
    n, d = fr.numerator, fr.denominator
    return f'(({n}) # {d})' if n < 0 else f'({n} # {d})'


# ------------------------------------------------------------------------------------------- generators
def base_slits(rng, n, tight=False):
    """n disjoint slits inside a window of less than one turn starting at x0 (turns)"""
    gap = 2e-6 if tight else 1e-3
    while True:
        pts = sorted(rng.uniform(0.0, 0.97) for _ in range(2 * n))
        if all(b - a >= gap for a, b in zip(pts, pts[1:])):
            break
    if tight and n >= 2:     # one very narrow gap and one very narrow slit
        pts[2] = pts[1] + 2e-6
        pts[3] = max(pts[3], pts[2] + 2e-6)
        pts = sorted(pts)
    x0 = rng.choice([0.0, 0.0, rng.uniform(0.0, 1.0), rng.uniform(-1.0, 2.0)])
    return [(x0 + pts[2 * i], x0 + pts[2 * i + 1]) for i in range(n)]


def gen_slits(rng, mode, n):
    sl = base_slits(rng, n, tight=(mode == 'tight'))
    if mode == 'tdc_span':
        # the last slit crosses top-dead-centre of the window start: shift so that b < 1 < e
        b, e = sl[-1]
        off = 1.0 - (b + e) / 2 + math.floor(b)
        sl = [(x + off - math.floor(b), y + off - math.floor(b)) for x, y in sl]
    elif mode == 'shifted_turns':
        sl = [(b + k, e + k) for (b, e), k in ((s, rng.choice([-2, -1, 0, 1, 2])) for s in sl)]
    elif mode == 'wrap_overlap':
        if n >= 2 and rng.random() < 0.5:
            # two slits that overlap as numbers, one of them moved by a whole turn
            b, e = sl[0]
            sl[1] = ((b + e) / 2 + 1, sl[1][1] + 1) if sl[1][1] > (b + e) / 2 else ((b + e) / 2 + 1, e + 1 + 1e-3)
            sl = sl[:2]
        else:
            # the last slit reaches round to the first one
            sl[-1] = (sl[-1][0], sl[0][0] + 1 + rng.choice([1e-6, 1e-3, 0.02]))
    elif mode == 'touching' and n >= 2:
        i = rng.randrange(n - 1)
        sl[i + 1] = (sl[i][1], sl[i + 1][1])
    elif mode == 'overlap_linear' and n >= 2:
        i = rng.randrange(n - 1)
        sl[i + 1] = ((sl[i][0] + sl[i][1]) / 2, sl[i + 1][1])
    elif mode == 'begin_gt_end':
        i = rng.randrange(n)
        sl[i] = (sl[i][1], sl[i][0])
    elif mode == 'zero_width':
        i = rng.randrange(n)
        sl[i] = (sl[i][0], sl[i][0])
    rng.shuffle(sl)
    return sl


MODES = (['normal'] * 9 + ['tight'] * 2 + ['tdc_span'] * 3 + ['shifted_turns'] * 2 + ['wrap_overlap'] * 2 +
         ['touching', 'overlap_linear', 'begin_gt_end', 'zero_width', 'touching_wrap'])


def gen_case(rng, i):
    mode = rng.choice(MODES)
    n = rng.randint(1, 6)
    aunit = rng.choice(['deg', 'deg', 'rad'])
    int_slits = False
    if mode == 'touching_wrap':
        # exact in floating point: integer degrees, last end == first begin + 360
        aunit, int_slits = 'deg', rng.random() < 0.5
        cuts = sorted(rng.sample(range(0, 340), 2 * n))
        sl = [(cuts[2 * k], cuts[2 * k + 1]) for k in range(n)]
        sl[-1] = (sl[-1][0], sl[0][0] + 360)
        rng.shuffle(sl)
        begin, end = [float(b) for b, _ in sl], [float(e) for _, e in sl]
    elif aunit == 'deg' and rng.random() < 0.15 and mode in ('normal', 'tdc_span', 'touching', 'overlap_linear'):
        int_slits = True
        cuts = sorted(rng.sample(range(0, 350), 2 * n))
        sl = [(cuts[2 * k], cuts[2 * k + 1]) for k in range(n)]
        if mode == 'tdc_span':
            sl[-1] = (sl[-1][0], 360 + max(0, sl[0][0] - rng.randint(1, 5)))
            if sl[-1][1] <= sl[-1][0]:
                sl[-1] = (sl[-1][0], sl[-1][0] + 1)
        if mode == 'touching' and n >= 2:
            sl[1] = (sl[0][1], sl[1][1])
        if mode == 'overlap_linear' and n >= 2:
            sl[1] = (sl[0][1] - 1, sl[1][1]) if sl[0][1] - 1 >= sl[0][0] else (sl[0][0], sl[1][1])
        rng.shuffle(sl)
        begin, end = [float(b) for b, _ in sl], [float(e) for _, e in sl]
    else:
        sl = gen_slits(rng, mode, n)
        k = 360.0 if aunit == 'deg' else 2 * math.pi
        begin, end = [b * k for b, _ in sl], [e * k for _, e in sl]
        if mode == 'touching':
            # Two slits that share an edge EXACTLY: the implementation decides by comparing (begin % turn) + (end - begin)
            # of one slit with begin % turn of the next, which is exact only when that arithmetic is; with arbitrary
            # floats the decision at exact contact is a matter of rounding (measure-zero input, not demanded).  Put the
            # edges on a dyadic grid inside the first turn so that every step is exact and contact stays contact.
            m = min(b for b, _ in sl)
            g = 64.0 if aunit == 'deg' else 1024.0
            snap = lambda t: math.floor((t - m) * k * g + 0.5) / g      # noqa: E731
            begin, end = [snap(b) for b, _ in sl], [snap(e) for _, e in sl]
            # keep begin < end after snapping (slits are at least 1e-3 turns wide, gaps likewise or exactly zero)
            end = [e if e > b else b + 1.0 / g for b, e in zip(begin, end)]
    fpunit = rng.choice(['Hz'] * 6 + ['kHz', '1/min'])
    fp_hz = rng.choice([14.0, 14.0, 10.0, 60.0, 25.0, 50.0 / 3])
    funit = rng.choice(['Hz'] * 4 + ['kHz', '1/min'])
    ratio = rng.choice(RATIOS)
    delta = rng.choice([0.0] * 7 + DELTAS[1:] + [1e-9])
    sign = rng.choice([1, -1])
    dsign = rng.choice([1, -1])
    f_hz = sign * fp_hz * float(ratio) * (1 + dsign * delta)
    bpunit, phunit = rng.choice(['deg', 'rad']), rng.choice(['deg', 'rad'])
    bp_t = rng.choice([0.0, rng.uniform(0, 1), rng.uniform(-3, 3)])
    ph_t = rng.choice([0.0, rng.uniform(0, 1), rng.uniform(-3, 3)])
    c = {'id': i, 'mode': mode, 'ratio': str(ratio), 'delta': dsign * delta, 'fdtype': 'float64', 'fpdtype': 'float64',
            'f': hx(f_hz / float(FUNIT[funit])), 'funit': funit,
            'fp': hx(fp_hz / float(FUNIT[fpunit])), 'fpunit': fpunit,
            'bp': hx(bp_t * (360.0 if bpunit == 'deg' else 2 * math.pi)), 'bpunit': bpunit,
            'ph': hx(ph_t * (360.0 if phunit == 'deg' else 2 * math.pi)), 'phunit': phunit,
            'begin': [hx(x) for x in begin], 'end': [hx(x) for x in end], 'aunit': aunit, 'int_slits': int_slits,
            'npulses': rng.randint(1, 4)}
    if rng.random() < 0.3 and mode in ('normal', 'tight', 'tdc_span', 'shifted_turns'):
        c = int_frequencies(rng, c)
    # a single slit may be given as 0-d variables (another code path of the repetition logic)
    c['layout'] = 'scalar' if (len(begin) == 1 and i % 2 == 0) else 'array'
    return c


INT_F = {'Hz': [5, 7, 14, 28, 56, 10, 25, 60, 112, 15, 21], 'kHz': [1, 2, 4, 7, 8], '1/min': [840, 600, 420, 1500, 3000, 850]}
INT_P_MISMATCH = [  # (f, funit, fp, fpunit): integer pulse frequency whose unit conversion is / is not exact
    (1, 'kHz', 125, 'Hz'), (1, 'kHz', 250, 'Hz'), (2, 'kHz', 1600, 'Hz'), (2, 'kHz', 500, 'Hz'), (2, 'kHz', 2000, 'Hz'),
    (7, 'kHz', 1400, 'Hz'), (4, 'kHz', 1500, 'Hz'), (3, 'kHz', 2500, 'Hz'), (8, 'kHz', 1000, 'Hz'), (1, 'kHz', 4000, 'Hz'),
    (14, 'Hz', 850, '1/min'), (14, 'Hz', 840, '1/min'), (7, 'Hz', 870, '1/min'), (28, 'Hz', 420, '1/min'),
    (15, 'Hz', 900, '1/min'), (14, 'Hz', 1650, '1/min'), (840, '1/min', 14, 'Hz'), (840, '1/min', 7, 'Hz'),
    (420, '1/min', 14, 'Hz'), (2000, 'Hz', 1, 'kHz'), (500, 'Hz', 1, 'kHz'), (14, 'Hz', 1, 'kHz'),
]


def int_frequencies(rng, c):
    """overwrite the frequencies of case c with a scenario in which frequency and / or pulse frequency are stored
    with an integer dtype (int64 / int32); accept and reject sides of the ratio test both occur"""
    idt = lambda: rng.choice(['int64', 'int64', 'int32'])  # noqa: E731
    kind = rng.choice(['int_f_float_p', 'int_f_float_p', 'both_int_same_unit', 'int_p_mismatch', 'int_p_mismatch', 'float_f_int_p'])
    sign = rng.choice([1, -1])
    if kind == 'int_f_float_p':
        funit = rng.choice(['Hz', 'Hz', 'kHz', '1/min'])
        F = rng.choice(INT_F[funit])
        ratio = rng.choice(RATIOS)
        delta = rng.choice([0.0] * 4 + DELTAS[1:]) * rng.choice([1, -1])
        fpunit = rng.choice(['Hz', 'Hz', 'kHz', '1/min'])
        if rng.random() < 0.3:      # a pulse frequency that is simply not commensurate (7.5 Hz, 14.005 Hz, ...)
            fp_hz = float(F * FUNIT[funit]) * rng.choice([7.5 / 14, 14.005 / 14, 1.5, 0.4, 2.5 / 6])
            ratio, delta = 'incommensurate', None
        else:
            fp_hz = float(F * FUNIT[funit]) / (float(ratio) * (1 + delta))
        c.update({'f': hx(sign * F), 'funit': funit, 'fdtype': idt(), 'fp': hx(fp_hz / float(FUNIT[fpunit])), 'fpunit': fpunit,
                  'fpdtype': 'float64', 'ratio': str(ratio), 'delta': delta})
    elif kind == 'both_int_same_unit':
        unit = rng.choice(['Hz', 'Hz', '1/min', 'kHz'])
        P = rng.choice({'Hz': [14, 10, 25, 7, 60], '1/min': [840, 600], 'kHz': [1, 2]}[unit])
        F = rng.choice([P, 2 * P, 3 * P, 4 * P, 8 * P, P + 1, 2 * P + 1, 3 * P // 2 if P % 2 == 0 else 3 * P]
                       + ([P // 2] if P % 2 == 0 else []) + ([P // 3] if P % 3 == 0 else []) + ([P // 4] if P % 4 == 0 else []))
        c.update({'f': hx(sign * F), 'funit': unit, 'fdtype': idt(), 'fp': hx(P), 'fpunit': unit, 'fpdtype': idt(),
                  'ratio': str(Fraction(F, P)), 'delta': 0.0})
    elif kind == 'int_p_mismatch':
        F, funit, P, fpunit = rng.choice(INT_P_MISMATCH)
        fdt = rng.choice(['int64', 'int32', 'float64'])
        c.update({'f': hx(sign * F), 'funit': funit, 'fdtype': fdt, 'fp': hx(P), 'fpunit': fpunit, 'fpdtype': idt(),
                  'ratio': str(Fraction(F) * FUNIT[funit] / (Fraction(P) * FUNIT[fpunit])), 'delta': 0.0})
    else:
        unit = rng.choice(['Hz', '1/min'])
        P = rng.choice({'Hz': [14, 10, 25, 60], '1/min': [840, 600]}[unit])
        ratio = rng.choice(RATIOS)
        delta = rng.choice([0.0] * 4 + DELTAS[1:]) * rng.choice([1, -1])
        c.update({'f': hx(sign * P * float(ratio) * (1 + delta)), 'funit': unit, 'fdtype': 'float64', 'fp': hx(P), 'fpunit': unit,
                  'fpdtype': idt(), 'ratio': str(ratio), 'delta': delta})
    c['mode'] = c['mode'] + '+' + kind
    return c


def witness(i, f, begin, end, npulses, mode, fp=14.0, funit='Hz', fpunit='Hz', fdtype='float64', fpdtype='float64'):
    return {'id': i, 'mode': mode, 'ratio': str(Fraction(f) * FUNIT[funit] / (Fraction(fp) * FUNIT[fpunit])), 'delta': 0.0,
            'f': hx(f), 'funit': funit, 'fdtype': fdtype, 'fp': hx(fp), 'fpunit': fpunit, 'fpdtype': fpdtype, 'bp': hx(0.0), 'bpunit': 'deg', 'ph': hx(0.0), 'phunit': 'deg',
            'begin': [hx(x) for x in begin], 'end': [hx(x) for x in end], 'aunit': 'deg', 'int_slits': False,
            'npulses': npulses}


def corpus():
    """the pre-findings (DESIGN.md section 6, F2 / F3) and their neighbours, run first"""
    return [
        witness(0, 14.0, [10.0, 300.0], [50.0, 380.0], 1, 'F2-witness'),
        witness(1, 14.0, [10.0], [50.0], 3, 'F3-witness'),
        witness(2, 7.0, [10.0], [50.0], 2, 'F3-subharmonic-witness'),
        witness(3, -14.0, [10.0, 300.0], [50.0, 380.0], 1, 'F2-witness'),
        witness(4, -28.0, [10.0, 100.0], [50.0, 120.0], 2, 'F3-witness'),
        witness(5, 14.0, [60.0, 340.0], [120.0, 382.0], 1, 'tdc_span'),
        witness(6, 14.0, [340.0], [700.0], 1, 'full-circle'),
        witness(7, 14.0, [340.0], [699.0], 1, 'tdc_span'),
        witness(8, 14.0, [], [], 2, 'no-slits'),
        # integer-dtype frequencies
        witness(9, 14.0, [10.0], [50.0], 1, 'int-pulse-witness', fp=850, fpunit='1/min', fpdtype='int64'),
        witness(10, 1, [10.0], [50.0], 1, 'int-pulse-witness', fp=125, funit='kHz', fdtype='int64', fpdtype='int64'),
        witness(11, 7, [10.0], [50.0], 1, 'int-pulse-witness', fp=1400, funit='kHz', fdtype='int64', fpdtype='int32'),
        witness(12, 14, [10.0], [50.0], 1, 'int-frequency', fp=7.5, fdtype='int64'),
        witness(13, 14, [10.0], [50.0], 1, 'int-frequency', fp=14.005, fdtype='int64'),
        witness(14, 5, [10.0], [50.0], 1, 'int-frequency', fp=2.5, fdtype='int64'),
        witness(15, 1, [10.0], [50.0], 1, 'int-frequency', fp=125.0, funit='kHz', fdtype='int32'),
        witness(16, 840, [10.0], [50.0], 2, 'int-frequency', fp=14.0, funit='1/min', fdtype='int64'),
        witness(17, -14, [10.0], [50.0], 1, 'int-frequency', fp=7, fdtype='int32', fpdtype='int32'),
    ]


def human(c):
    def fq(v, u, dt):
        return f"{int(fl(v))} {u} ({dt})" if dt.startswith('int') else f"{fl(v)!r} {u}"
    return {'mode': c['mode'], 'frequency': fq(c['f'], c['funit'], c.get('fdtype', 'float64')),
            'pulse_frequency': fq(c['fp'], c['fpunit'], c.get('fpdtype', 'float64')),
            'ratio': c['ratio'], 'delta': c['delta'],
            'beam_position': f"{fl(c['bp'])!r} {c['bpunit']}", 'phase': f"{fl(c['ph'])!r} {c['phunit']}",
            'slit_begin': [fl(x) for x in c['begin']], 'slit_end': [fl(x) for x in c['end']], 'slit_unit': c['aunit'],
            'int_slits': c['int_slits'], 'npulses': c['npulses']}


SNIPPET = ('import scipp as sc; from scippneutron.chopper import DiskChopper; from scippneutron.tof.chopper_cascade import Chopper\n'
           "ch = DiskChopper(axle_position=sc.vector([0,0,2.],unit='m'), frequency=sc.scalar({f},unit='{funit}',dtype='{fdtype}'), "
           "beam_position=sc.scalar({bp!r},unit='{bpunit}'), phase=sc.scalar({ph!r},unit='{phunit}'), "
           "slit_begin=sc.array(dims=['slit'],values={b!r},unit='{aunit}'), slit_end=sc.array(dims=['slit'],values={e!r},unit='{aunit}'))\n"
           "fp = sc.scalar({fp},unit='{fpunit}',dtype='{fpdtype}')\n"
           'print(ch.time_offset_open(pulse_frequency=fp).values, ch.time_offset_close(pulse_frequency=fp).values)\n'
           'c = Chopper.from_disk_chopper(ch, fp, {p}); print(c.time_open.values, c.time_close.values)')


def snippet(c):
    def num(v, dt):
        return repr(int(fl(v))) if dt.startswith('int') else repr(fl(v))
    return SNIPPET.format(f=num(c['f'], c.get('fdtype', 'float64')), fdtype=c.get('fdtype', 'float64'),
                          fpdtype=c.get('fpdtype', 'float64'), funit=c['funit'], bp=fl(c['bp']), bpunit=c['bpunit'], ph=fl(c['ph']),
                          phunit=c['phunit'], b=[fl(x) for x in c['begin']], e=[fl(x) for x in c['end']],
                          aunit=c['aunit'], fp=num(c['fp'], c.get('fpdtype', 'float64')), fpunit=c['fpunit'], p=c['npulses'])


# ------------------------------------------------------------------------------------------- Coq terms
def exact_inputs(c):
    f = Fraction(fl(c['f'])) * FUNIT[c['funit']]
    fp = Fraction(fl(c['fp'])) * FUNIT[c['fpunit']]
    bp, ph = turns(c['bp'], c['bpunit']), turns(c['ph'], c['phunit'])
    if c['int_slits']:
        sl = [(turns(float(int(fl(b))), 'deg'), turns(float(int(fl(e))), 'deg')) for b, e in zip(c['begin'], c['end'])]
    else:
        sl = [(turns(b, c['aunit']), turns(e, c['aunit'])) for b, e in zip(c['begin'], c['end'])]
    return f, fp, bp, ph, sl


def tlist(vals, unit):
    k = TUNIT[unit]
    out = []
    for v in vals:
        if isinstance(v, str):
            return None
        out.append(Fraction(int(v[0]), int(v[1])) * k)
    return out


def qlist(l):
    return '[' + '; '.join(qs(x) for x in l) + ']'


def case_term(c, r, notes):
    """-> Coq term of type ccase, or None when the case cannot be expressed (recorded in notes)"""
    f, fp, bp, ph, sl = exact_inputs(c)
    if f == 0:
        return None
    acc = r['construct'] == 'ok'
    amax = max([abs(x) for s in sl for x in s] + [0])
    times = 'None'
    casc = 'None'
    n_guess = 1
    terr = False
    if acc:
        t = r.get('times', {})
        if 'error' in t:
            terr = t['error'] != 'ValueError'
        else:
            o, cl, du = tlist(t['open'], t['unit']), tlist(t['close'], t['close_unit']), tlist(t['duration'], t['duration_unit'])
            if o is None or cl is None or du is None:
                notes.append(('non-finite-times', c, t))
                return None
            times = f'(Some ({qlist(o)}, {qlist(cl)}, {qlist(du)}))'
            n_guess = max(1, len(o) // max(1, len(sl)))
            k = r.get('cascade', {})
            if 'error' in k:
                notes.append(('cascade-raises-' + k['error'], c, k))
            else:
                co, cc = tlist(k['open'], k['unit']), tlist(k['close'], k['close_unit'])
                if co is None or cc is None:
                    notes.append(('non-finite-cascade', c, k))
                else:
                    casc = f'(Some ({qlist(co)}, {qlist(cc)}))'
    M = 2 + abs(bp) + abs(ph) + amax + n_guess * c['npulses']
    M = Fraction(math.ceil(M))
    slits = '[' + '; '.join(f'mkslit {qs(b)} {qs(e)}' for b, e in sl) + ']'
    pint = c.get('fpdtype', 'float64').startswith('int')
    return (f'(mkcase {qs(f)} {qs(fp)} {qs(bp + ph)} {qs(M)} {slits} {c["npulses"]}%nat '
            f'{"true" if acc else "false"} {times} {casc} {qs(Fraction(fl(c["f"])))} {qs(Fraction(fl(c["fp"])))} '
            f'{qs(FUNIT[c["fpunit"]] / FUNIT[c["funit"]])} {"true" if pint else "false"} {"true" if terr else "false"})')


def detect_variants(cases, results):
    """which variant of the validation / cascade expansion the tree implements (from the two canonical witnesses)"""
    vfix = results[0]['construct'] != 'ok'
    k = results[1].get('cascade', {})
    cfix = 'open' in k and len(k['open']) == 4        # f = f_pulse, 3 pulses, 1 slit: rotations -1..2
    return vfix, cfix


def run_cases(ctx, cases):
    res = ctx.run_impl('c10_impl.py', {'cases': cases})
    return res


def correspondence(ctx):
    rng = random.Random(ctx.seed)
    n_rand = 380 if ctx.tier == "quick" else 6000
    cases = corpus()
    cases += [gen_case(rng, len(cases) + i) for i in range(n_rand)]
    res = run_cases(ctx, cases)
    results = res['cases']
    vfix, cfix = detect_variants(cases, results)
    notes = []
    terms, idx = [], []
    for c, r in zip(cases, results):
        t = case_term(c, r, notes)
        if t is not None:
            terms.append(t)
            idx.append(c['id'])
    header = ('From Coq Require Import QArith ZArith String List.\n'
              'From Verif.Sem Require Import Corr.\nFrom Verif.C10 Require Import Spec Model Oracle Check.\n'
              'Import ListNotations.\nOpen Scope Q_scope.\n')
    vb, cb = ('true' if vfix else 'false'), ('true' if cfix else 'false')
    fails, errors = ctx.coq_eval_shards(
        header, terms, lambda k: f'Eval vm_compute in (report (map (check {vb} {cb}) cases)).\n', shard=30)
    for name, e in errors:
        ctx.violation('corr-shard-error', f'correspondence shard {name} did not evaluate: {e[:300]}',
                      {'shard': name, 'error': e}, found_input=False)
    reason_count = {}
    for i, why in sorted(fails.items()):
        c, r = cases[idx[i]], results[idx[i]]
        for reason in [w for w in why.split(',') if w]:
            reason_count[reason] = reason_count.get(reason, 0) + 1
            key = KEYMAP.get(reason, reason)
            if reason.startswith('cascade-') and 'cascade-differs-from-model' not in reason and reason not in KEYMAP \
                    and any(w in KEYMAP for w in why.split(',')):
                continue     # consequence of a duplicate / phantom interval in the same case
            ctx.violation(key, explain(reason, c, r), {'case': c, 'readable': human(c), 'reason': reason, 'all_reasons': why,
                                                      'python': snippet(c), 'observed': summarize(r)})
    # refusals / non-finite results that could not be expressed as cases
    note_kinds = {}
    for kind, c, info in notes:
        note_kinds.setdefault(kind, []).append(c['id'])
    for kind, ids in note_kinds.items():
        if kind.startswith('cascade-raises-UnitError'):
            continue      # frequency not in Hz: offsets [s] + openings [ms|min] is refused by scipp (a refusal, not a wrong answer)
        c = cases[ids[0]]
        ctx.violation('unexpected:' + kind, f'{kind} on {human(c)}', {'case': c, 'python': snippet(c)})
    accepted = sum(1 for r in results if r['construct'] == 'ok')
    timed = sum(1 for r in results if 'open' in r.get('times', {}))
    n_iv = sum(len(r['times']['open']) for r in results if 'open' in r.get('times', {}))
    n_civ = sum(len(r['cascade']['open']) for r in results if 'open' in r.get('cascade', {}))
    distinct = len({json.dumps([c.get(k) for k in ('f', 'funit', 'fdtype', 'fp', 'fpunit', 'fpdtype', 'bp', 'ph', 'begin', 'end', 'aunit', 'npulses')])
                    for c, r in zip(cases, results) if 'open' in r.get('times', {}) and len(r['times']['open']) > 0})
    dt_count = {}
    for c in cases:
        k = c.get('fdtype', 'float64') + '/' + c.get('fpdtype', 'float64')
        dt_count[k] = dt_count.get(k, 0) + 1
    modes = {}
    for c in cases:
        modes[c['mode'].split('+')[0]] = modes.get(c['mode'].split('+')[0], 0) + 1
    ctx.coverage.update({
        'evaluations': len(terms),
        'distinct_nontrivial': distinct,
        'rule': 'cases = 18 corpus witnesses + random DiskChoppers: ratio in {1/4,1/3,1/2,1,2,3,4,8} x (1 +- {0,1e-9,0.9e-8,1.1e-8,1e-6}), '
                'either sign, Hz/kHz/1-per-min, float64 and (30% of the well-formed slit sets) int64/int32 frequency and/or pulse frequency with '
                'non-integer / unit-mismatched counterparts, 1..6 slits in deg/rad (float or int64) generated as disjoint/tight/TDC-spanning/whole-turn-shifted/'
                'wrap-overlapping/touching/overlapping/begin>end/zero-width sets in shuffled order, beam position and phase in [-3,3] turns (deg/rad), '
                '1..4 pulses; every case is checked in Coq (validation vs specification and model, times vs model at 1e-12, disk simulation on the '
                'reported intervals, cascade expansion); non-trivial = open/close times were returned for >= 1 slit; distinct = distinct inputs',
        'samples': [human(c) for c in (cases[0:3] + cases[9:11] + cases[18:20])],
        'frequency_dtypes': dt_count,
        'modes': modes,
        'constructed': accepted, 'with_times': timed, 'intervals_simulated': n_iv, 'cascade_intervals_simulated': n_civ,
        'variant_found': {'validation': 'repaired (wrap-aware)' if vfix else 'as found (plain numbers)',
                          'cascade': 'repaired (rotations over all pulses)' if cfix else 'as found (per-pulse copies)'},
        'disagreeing_cases': len(fails), 'reasons': reason_count,
        'refusals_and_notes': {k: len(v) for k, v in note_kinds.items()},
        'scipp_version': res.get('scipp'),
    })
    zero = [c['id'] for c, r in zip(cases, results) if c['mode'] == 'zero_width' and r['construct'] == 'ok']
    if zero:
        ctx.note(f'{len(zero)} zero-width slits (begin == end) were accepted by _check_edges: open == close for them '
                 '(the documentation requires begin < end; not counted as a violation)')


def summarize(r):
    def short(d):
        if not isinstance(d, dict):
            return d
        if 'error' in d:
            return d
        return {k: ([float(Fraction(int(v[0]), int(v[1]))) if not isinstance(v, str) else v for v in d[k]][:24])
                for k in ('open', 'close') if k in d} | {'unit': d.get('unit')}
    return {'construct': r['construct'], 'times': short(r.get('times')), 'cascade': short(r.get('cascade'))}


def explain(reason, c, r):
    h = human(c)
    base = (f"f={h['frequency']}, f_pulse={h['pulse_frequency']}, slits begin={h['slit_begin']} end={h['slit_end']} {h['slit_unit']}, "
            f"beam_position={h['beam_position']}, phase={h['phase']}, npulses={h['npulses']}")
    txt = {
        'validation-accepts-wrap-overlap': 'DiskChopper accepts slits that overlap on the disk across top-dead-centre (modulo one turn)',
        'validation-accepts-overlap': 'DiskChopper accepts overlapping slits',
        'validation-rejects-disjoint-slits': 'DiskChopper rejects slits that are disjoint on the disk',
        'validation-differs-from-model': 'validation decision differs from the model of _check_edges',
        'ratio-accepted-model-rejects': 'frequency ratio accepted although neither quotient nor inverse is within 1e-8 of an integer',
        'ratio-rejected-model-accepts': 'frequency ratio rejected although the quotient (or inverse) is within 1e-8 of an integer',
        'ratio-int-pulse-frequency-rounded': '_source_phase_factor converts an INTEGER-dtype pulse frequency to the chopper\'s frequency unit within the '
                                             'integer dtype (rounded to a whole number) before forming the ratio: out-of-phase choppers are accepted, '
                                             'in-phase ones rejected, the repetition count is wrong, or round(inf) raises OverflowError',
        'times-raise-unexpected-error': 'time_offset_open/close raised an exception other than the documented ValueError',
        'cascade-opening-reported-twice': 'Chopper.from_disk_chopper lists the same opening more than once '
                                          '(rotation -1 of pulse k+1 is rotation n-1 of pulse k)',
        'cascade-closed-inside-reported-interval': 'Chopper.from_disk_chopper lists an interval during which the disk is closed '
                                                   '(per-pulse copies shifted by a fraction of a rotation)',
    }.get(reason, reason.replace('-', ' '))
    return f'{txt}: {base}; observed {json.dumps(summarize(r))[:600]}'


# ------------------------------------------------------------------------------------------- search / replay
def py_in_slit(b, e, x):
    m = math.ceil(b - x)
    return x + m <= e


def py_is_open(f, B, sl, t):
    beta = B - f * t
    return any(py_in_slit(b, e, beta) for b, e in sl)


def py_disjoint(sl):
    for i, (b, e) in enumerate(sl):
        if e - b >= 1:
            return False
        for (b2, e2) in sl[i + 1:]:
            for m in range(math.floor(b2 - e), math.ceil(e2 - b) + 1):
                if not (e + m < b2 or e2 < b + m):
                    return False
    return True


def py_property(c, r):
    """the property statement evaluated directly (exact rationals, no Coq, no model): list of reasons"""
    f, fp, bp, ph, sl = exact_inputs(c)
    B = bp + ph
    out = []
    full_circle = len(sl) == 1 and sl[0][1] - sl[0][0] == 1      # the always-open single slit upstream tests construct
    valid = all(b <= e for b, e in sl) and (py_disjoint(sl) or full_circle)
    acc = r['construct'] == 'ok'
    if acc and not valid:
        out.append('validation-accepts-overlap')
    if not acc or not valid or full_circle or f == 0:
        return out
    # ratio test, from the physical frequencies (exact): accepted => quotient or inverse within 1e-8 of an integer
    t = r.get('times', {})
    if fp > 0:
        q = abs(f) / fp
        dist = min(abs(q - round(q)), abs(1 / q - round(1 / q)))
        if 'error' in t and t['error'] != 'ValueError':
            out.append('times-raise-unexpected-error')
        elif 'open' in t and dist > Fraction(105, 10 ** 10):
            out.append('ratio-accepted-model-rejects')
        elif 'error' in t and dist < Fraction(95, 10 ** 10):
            out.append('ratio-rejected-model-accepts')
        elif 'open' in t and len(sl) > 0 and q >= 1 and len(t['open']) != (round(q) + 1) * len(sl):
            out.append('repetitions-differ-from-frequency-ratio')
    proper = all(b < e for b, e in sl)
    eps = Fraction(1, 10 ** 9) / abs(f)
    for pre, key, uo, uc in (('', 'times', 'unit', 'close_unit'), ('cascade-', 'cascade', 'unit', 'close_unit')):
        t = r.get(key, {})
        if 'open' not in t:
            continue
        o, cl = tlist(t['open'], t[uo]), tlist(t['close'], t[uc])
        if o is None or cl is None or len(o) != len(cl):
            out.append(pre + 'shape')
            continue
        ivs = list(zip(o, cl))
        if proper:
            if any(not a < b for a, b in ivs):
                out.append(pre + 'open-not-before-close')
            if any(not (py_is_open(f, B, sl, (a + b) / 2) and py_is_open(f, B, sl, a + eps) and py_is_open(f, B, sl, b - eps))
                   for a, b in ivs):
                out.append(pre + 'closed-inside-reported-interval')
            if any(py_is_open(f, B, sl, a - eps) or py_is_open(f, B, sl, b + eps) for a, b in ivs):
                out.append(pre + 'open-just-outside-reported-interval')
            tol = Fraction(1, 10 ** 11) / abs(f)
            for (a, b), s in zip(ivs, sl * (len(ivs) // max(1, len(sl)))):
                if abs((b - a) - (s[1] - s[0]) / abs(f)) > tol:
                    out.append(pre + 'duration')
                    break
        srt = sorted(ivs)
        if any(a2 <= b1 for (a1, b1), (a2, b2) in zip(srt, srt[1:])):
            out.append(pre + 'opening-reported-twice')
    return out


def search(ctx, broken):
    """an obligation broke: evaluate the property statement itself (Python, exact rationals) on the implementation"""
    rng = random.Random(ctx.seed + 7)
    cases = corpus()
    cases += [gen_case(rng, len(cases) + i) for i in range(300)]
    results = run_cases(ctx, cases)['cases']
    found = []
    for c, r in zip(cases, results):
        for reason in py_property(c, r):
            key = KEYMAP.get(reason, reason)
            if reason == 'validation-accepts-overlap':
                key = 'validation:tdc-wrap-overlap'
            ctx.violation(key, explain(reason, c, r), {'case': c, 'readable': human(c), 'reason': reason,
                                                      'python': snippet(c), 'observed': summarize(r)})
            found.append(key)
    return found


def replay(ctx, obj):
    rp = obj['replay']
    c = rp.get('case')
    if c is None:
        print(json.dumps(obj, indent=1))
        return 0
    r = run_cases(ctx, [c])['cases'][0]
    print('input   :', json.dumps(human(c)))
    print('observed:', json.dumps(summarize(r)))
    reasons = py_property(c, r)
    print('property evaluated directly (exact rationals):', reasons or 'holds on this input')
    print('recorded reason:', rp.get('reason'))
    print('python:\n' + snippet(c))
    return 1 if reasons else 0
