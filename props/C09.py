"""C09 — computations never modify their arguments; results do not depend on call history.

Every run:
  pre_build      tools/alias2coq.py regenerates, from /repo's CURRENT source, the alias-language terms of
                 every analysed function (Run.GenAlias) and the facts (decorators, dataclass declarations,
                 properties) from which Run.GenHandles (the operation descriptors of half (b)) is written;
  coq-run/C09    Corr.v (comparison functions), TieAlias.v (no_arg_write_<f> for every analysed function:
                 all 2^sites aliasing configurations by vm_compute + Alias.check_sound), TieHandles.v
                 (descriptors computed from the alias analysis, per-family privacy), Properties.v;
  correspondence (1) every row of the aliasing classification against real scipp (numpy.shares_memory),
                 (2) ~150 public entry points x unit/dtype/layout variants with deep snapshots of all
                 arguments before/after and a repeated call, (3) every interleaving of <= 3 factory /
                 combinator / lookup calls with mutations of the returned objects; all compared INSIDE Coq.
"""
import json
import os
import random
import sys

import vlib

ID = 'C09'
LEVEL = 'proof'
TRANSLATE = None
GEN_FILES = ['GenAlias.v', 'GenHandles.v']
RUN_FILES = ['Corr.v', 'TieAlias.v', 'TieHandles.v', 'Properties.v']
COQ_TIMEOUT = 900

S = 'src/scippneutron/'
MODULES = [
    (S + '_utils/__init__.py', 'utils', 'scippneutron._utils'),
    (S + 'conversion/beamline.py', 'beamline', 'scippneutron.conversion.beamline'),
    (S + 'conversion/tof.py', 'tof', 'scippneutron.conversion.tof'),
    (S + 'peaks/model.py', 'model', 'scippneutron.peaks.model'),
    (S + 'peaks/_remove_peaks.py', 'remove_peaks', 'scippneutron.peaks._remove_peaks'),
    (S + 'peaks/_fit_peaks.py', 'fit_peaks', 'scippneutron.peaks._fit_peaks'),
    (S + 'peaks/_common.py', 'peaks_common', 'scippneutron.peaks._common'),
    (S + 'tof/chopper_cascade.py', 'cascade', 'scippneutron.tof.chopper_cascade'),
    (S + 'absorption/cylinder.py', 'cylinder', 'scippneutron.absorption.cylinder'),
    (S + 'absorption/types.py', 'abstypes', 'scippneutron.absorption.types'),
    (S + 'atoms/__init__.py', 'atoms', 'scippneutron.atoms'),
    (S + 'conversion/graph/__init__.py', 'graph', 'scippneutron.conversion.graph'),
    (S + 'conversion/graph/tof.py', 'gtof', 'scippneutron.conversion.graph.tof'),
    (S + 'conversion/graph/beamline.py', 'gbeamline', 'scippneutron.conversion.graph.beamline'),
    (S + 'core/conversions.py', 'conversions', 'scippneutron.core.conversions'),
    (S + 'io/cif.py', 'cif', 'scippneutron.io.cif'),
]
# parameters documented as modified in place (or consumed: only fresh temporaries are passed, which the
# theorems of the callers check through the interprocedural run)
ALLOWED = {'beamline._drop_due_to_gravity': ['distance'], 'fit_peaks._separate_from_neighbors_in_place': ['windows']}


def theorem_functions():
    """the (function key, theorem suffix) pairs of coq-run/C09/TieAlias.v, read from that file"""
    import re
    txt = open(os.path.join(vlib.VERIF, 'coq-run', 'C09', 'TieAlias.v')).read()
    return re.findall(r'Theorem no_arg_write_(\w+) : no_arg_write (F_\w+)\.', txt)


# ------------------------------------------------------------------ half (b): the operations
# name, function key, key set, kind.  kinds: dict (returns a graph dict), object:<class> (lookup returning an
# instance whose public variables are reached through properties / dataclass fields), model, builder:<fields>
OPS = [
    ('graph.tof.elastic', 'gtof.elastic', 'tofkey', 'dict'),
    ('graph.tof.kinematic', 'gtof.kinematic', 'tofkey1', 'dict'),
    ('graph.tof.elastic_dspacing', 'gtof.elastic_dspacing', 'tofkey', 'dict'),
    ('graph.tof.elastic_energy', 'gtof.elastic_energy', 'tofkey', 'dict'),
    ('graph.tof.elastic_Q', 'gtof.elastic_Q', 'tofkey', 'dict'),
    ('graph.tof.elastic_Q_vec', 'gtof.elastic_Q_vec', 'tofkey', 'dict'),
    ('graph.tof.elastic_hkl', 'gtof.elastic_hkl', 'tofkey', 'dict'),
    ('graph.tof.elastic_wavelength', 'gtof.elastic_wavelength', 'tofkey1', 'dict'),
    ('graph.tof.direct_inelastic', 'gtof.direct_inelastic', 'tofkey1', 'dict'),
    ('graph.tof.indirect_inelastic', 'gtof.indirect_inelastic', 'tofkey1', 'dict'),
    ('graph.beamline.beamline', 'gbeamline.beamline', 'bool', 'dict'),
    ('graph.beamline.two_theta', 'gbeamline.two_theta', 'none', 'dict'),
    ('graph.beamline.L1', 'gbeamline.L1', 'none', 'dict'),
    ('graph.beamline.L2', 'gbeamline.L2', 'none', 'dict'),
    ('graph.beamline.Ltotal', 'gbeamline.Ltotal', 'bool', 'dict'),
    ('graph.beamline.incident_beam', 'gbeamline.incident_beam', 'none', 'dict'),
    ('graph.beamline.scattered_beam', 'gbeamline.scattered_beam', 'none', 'dict'),
    ('conversion_graph', 'conversions.conversion_graph', 'bool', 'dict'),
    ('Model.with_prefix', 'model.Model.with_prefix', 'bool', 'model'),
    ('Model.__add__', 'model.Model.__add__', 'none', 'model'),
    ('CIF.copy', 'cif.CIF.copy', 'none', 'builder:_block,_content,_authors,_reducers'),
    ('CIF.with_reducers', 'cif.CIF.with_reducers', 'none', 'builder:_block,_content,_authors,_reducers'),
    ('CIF.with_authors', 'cif.CIF.with_authors', 'none', 'builder:_block,_content,_authors,_reducers'),
    ('CIF.with_beamline', 'cif.CIF.with_beamline', 'none', 'builder:_block,_content,_authors,_reducers'),
    ('Block.copy', 'cif.Block.copy', 'none', 'builder:_content'),
    ('Atom.for_isotope', 'atoms.Atom.for_isotope', 'iso', 'object:atoms.Atom'),
    ('ScatteringParams.for_isotope', 'atoms.ScatteringParams.for_isotope', 'iso', 'object:atoms.ScatteringParams'),
]
FAMILIES = [('graph_tof', 0, 10), ('graph_beamline', 10, 18), ('models', 18, 20), ('builders', 20, 25), ('atoms', 25, 27)]
NKEYS = {'tofkey': 2, 'tofkey1': 1, 'bool': 2, 'none': 1, 'iso': 3}


def alias_spec():
    roots = sorted({k for k, _, _, _ in [(o[1], 0, 0, 0) for o in OPS]})
    tf = theorem_functions()
    return {'repo': vlib.REPO,
            'modules': [{'py': p, 'key': k, 'dotted': d} for p, k, d in MODULES],
            'roots': [r for r in ROOTS] + roots + ['atoms.Atom.*props', 'atoms.ScatteringParams.*props'],
            'allowed': ALLOWED}


ROOTS = [
    'utils.as_float_type', 'beamline.L1', 'beamline.L2', 'beamline.straight_incident_beam', 'beamline.straight_scattered_beam',
    'beamline.total_beam_length', 'beamline.total_straight_beam_length_no_scatter', 'beamline.two_theta',
    'beamline.beam_aligned_unit_vectors', 'beamline._drop_due_to_gravity', 'beamline.scattering_angles_with_gravity',
    'beamline.scattering_angle_in_yz_plane',
    'tof.wavelength_from_tof', 'tof.dspacing_from_tof', 'tof.energy_from_tof', 'tof.energy_transfer_direct_from_tof',
    'tof.energy_transfer_indirect_from_tof', 'tof.energy_from_wavelength', 'tof.wavelength_from_energy', 'tof.Q_from_wavelength',
    'tof.wavelength_from_Q', 'tof.Q_elements_from_wavelength', 'tof.dspacing_from_wavelength', 'tof.dspacing_from_energy',
    'tof.Q_vec_from_Q_elements', 'tof.ub_matrix_from_u_and_b', 'tof.hkl_vec_from_Q_vec', 'tof.hkl_elements_from_hkl_vec',
    'tof.time_at_sample_from_tof',
    'model._gaussian', 'model._lorentzian', 'model._guess_from_peak', 'model.Model.__call__', 'model.Model.guess',
    'model.Model.with_prefix', 'model.Model.__add__', 'model.CompositeModel._call', 'model.PolynomialModel._call',
    'model.GaussianModel._call', 'model.LorentzianModel._call', 'model.PseudoVoigtModel._call', 'model.GaussianModel._guess',
    'model.LorentzianModel._guess', 'model.PseudoVoigtModel._guess', 'model.PolynomialModel._guess', 'model.CompositeModel._guess',
    'remove_peaks.remove_peaks', 'fit_peaks._fit_windows', 'fit_peaks._separate_from_neighbors_in_place',
    'fit_peaks.FitResult.eval_peak',
    'cascade.propagate_times', 'cascade._chop', 'cascade.Subframe.propagate_by', 'cascade.Frame.chop', 'cascade.Frame.propagate_to',
    'cylinder.Cylinder.beam_intersection', 'cylinder.Cylinder.quadrature',
    'cif.CIF.with_reduced_powder_data', 'cif.CIF.with_powder_calibration', 'cif.CIF._assemble_authors',
]


# ------------------------------------------------------------------ generation (every run)
def coq_ident(key):
    return 'F_' + ''.join(c if c.isalnum() else '_' for c in key)


def pre_build(ctx):
    spec = alias_spec()
    sp = os.path.join(ctx.build, 'alias_spec.json')
    json.dump(spec, open(sp, 'w'))
    rc, out = vlib.sh([sys.executable, os.path.join(vlib.VERIF, 'tools', 'alias2coq.py'), sp, ctx.build], timeout=120)
    out = vlib.clean_out(out)
    rp = os.path.join(ctx.build, 'alias_report.json')
    if rc != 0 or not os.path.exists(rp):
        raise RuntimeError('alias2coq failed: ' + out[-600:])
    rep = json.load(open(rp))
    ctx.alias_report = rep
    needed = {f for _, f in theorem_functions()} | {coq_ident(o[1]) for o in OPS}
    have = {v['coq'] for v in rep['functions'].values()}
    for f in sorted(needed):
        name = f'alias2coq:{f}'
        if f in have:
            dep = [k for k, v in rep['functions'].items() if v['coq'] == f and k in rep.get('depends_on_failed', {})]
            if dep:
                ctx.obligations.append((name, 'broken', f'calls {rep["depends_on_failed"][dep[0]]}: '
                                        f'{rep["failed"].get(rep["depends_on_failed"][dep[0]])}'))
                ctx.broken.append(name)
            else:
                ctx.obligations.append((name, 'discharged', ''))
        else:
            why = [v for k, v in rep['failed'].items() if coq_ident(k) == f]
            ctx.obligations.append((name, 'broken', why[0] if why else 'function not found in the current source'))
            ctx.broken.append(name)
    # every call site of a function with an in-place/consumed parameter must be inside an analysed function
    for k in ALLOWED:
        callers = [c for c, v in rep['functions'].items() if k in v['callees']]
        unanalysed = scan_callers(k, rep)
        name = f'callers-analysed:{k}'
        if unanalysed:
            ctx.obligations.append((name, 'broken', 'called from functions that are not analysed: ' + ', '.join(unanalysed)))
            ctx.broken.append(name)
        else:
            ctx.obligations.append((name, 'discharged', f'{len(callers)} analysed callers'))
    write_gen_handles(ctx, rep)
    ctx.coverage['alias_generation'] = {'functions': len(rep['functions']), 'maybe_alias_sites': len(rep['sites']),
                                        'untranslatable': rep['failed']}


def scan_callers(key, rep):
    """functions of key's module that mention the function's name but were not translated"""
    import ast
    modkey, fname = key.split('.')[0], key.split('.')[-1]
    path = [p for p, k, d in MODULES if k == modkey][0]
    tree = ast.parse(open(os.path.join(vlib.REPO, path)).read())
    bad = []

    def visit(node, qual):
        for ch in ast.iter_child_nodes(node):
            if isinstance(ch, ast.FunctionDef):
                q = f'{qual}.{ch.name}' if qual else ch.name
                uses = any(isinstance(n, ast.Name) and n.id == fname for n in ast.walk(ch))
                if uses and ch.name != fname and f'{modkey}.{q}' not in rep['functions']:
                    bad.append(f'{modkey}.{q}')
            elif isinstance(ch, ast.ClassDef):
                visit(ch, f'{qual}.{ch.name}' if qual else ch.name)
    visit(tree, '')
    return bad


def is_cached(decos):
    return any(d.split('(')[0].split('.')[-1] in ('lru_cache', 'cache') for d in decos)


def op_descriptor(rep, op):
    """Coq text of the opdesc of one operation + python-side facts"""
    name, fkey, keys, kind = op
    f = rep['functions'][fkey]
    F = f['coq']
    cached = is_cached(f['decorators'])
    gl = [rep['globals'][g] for g in f['globals_closure'] if g in rep['globals']]
    src = min(gl) if gl else 900 + OPS.index(op)
    top_shared = f'(orb {str(cached).lower()} (negb (ret_top_fresh PROG LOOPSITES {F})))'
    facts = {'cached': cached, 'src': src}
    if kind == 'dict' or kind == 'model':
        return f'mkop "{name}" {src} {top_shared} true []', facts
    if kind.startswith('builder:'):
        accs = []
        for fld in kind.split(':')[1].split(','):
            fid = rep['names'].get(fld)
            if fid is None:
                raise RuntimeError(f'attribute {fld} does not occur in the analysed source')
            accs.append(f'("{fld}", negb (ret_field_fresh PROG LOOPSITES {F} {fid}))')
        return f'mkop "{name}" {src} {top_shared} true [{"; ".join(accs)}]', facts
    cls = rep['classes'][kind.split(':')[1]]
    frozen = bool(cls['dataclass']) and cls['dataclass'].get('frozen') == 'True'
    facts['frozen'] = frozen
    deep = f'(ret_deep_fresh PROG LOOPSITES {F})'
    accs = []
    for p in cls['properties']:
        if p.startswith('_'):
            continue
        pk = f'{kind.split(":")[1]}.{p}'
        if pk not in rep['functions']:
            raise RuntimeError(f'property {pk} was not translated')
        accs.append((p, f'(andb (negb (ret_top_fresh PROG LOOPSITES {rep["functions"][pk]["coq"]})) (orb {top_shared} (negb {deep})))'))
    for fname, ann, _ in cls['fields']:
        if fname.startswith('_') or 'Variable' not in ann:
            continue
        accs.append((fname, f'(orb {top_shared} (negb {deep}))'))       # handed out as stored
    facts['paths'] = [a for a, _ in accs]
    acc_txt = '; '.join(f'("{a}", {e})' for a, e in accs)
    return f'mkop "{name}" {src} {top_shared} {str(not frozen).lower()} [{acc_txt}]', facts


def write_gen_handles(ctx, rep):
    lines = ['(* GENERATED by props/C09.py (pre_build) from alias_report.json of this run - do not edit *)',
             'From Coq Require Import List String Bool NArith.', 'From Verif.C09 Require Import Alias Handles.',
             'From Run Require Import GenAlias.', 'Import ListNotations.', 'Open Scope string_scope.', 'Open Scope N_scope.', '']
    facts = {}
    descs = []
    for op in OPS:
        d, fc = op_descriptor(rep, op)
        facts[op[0]] = fc
        descs.append(d)
    for fam, a, b in FAMILIES:
        lines.append(f'Definition OPS_{fam} : list opdesc := [\n  ' + ';\n  '.join(descs[a:b]) + '].')
    lines.append('Definition OPS : list opdesc := (' + ' ++ '.join(f'OPS_{f}' for f, _, _ in FAMILIES) + ')%list.')
    open(os.path.join(ctx.build, 'GenHandles.v'), 'w').write('\n'.join(lines) + '\n')
    ctx.op_facts = facts
