"""C09 — computations never modify their arguments; results do not depend on call history.

Every run:
  pre_build      tools/alias2coq.py regenerates, from /repo's CURRENT source, the alias-language terms of
                 every analysed function (Run.GenAlias) and the facts (decorators, dataclass declarations,
                 properties) from which Run.GenHandles (the operation descriptors of half (b)) is written;
  coq-run/C09    Corr.v (comparison functions), TieAlias.v (no_arg_write_<f> for every analysed function:
                 all 2^sites aliasing configurations by vm_compute + Alias.check_sound), TieHandles.v
                 (descriptors computed from the alias analysis, per-family privacy), Properties.v;
  correspondence (1) every row of the aliasing classification against real scipp (numpy.shares_memory),
                 (2) ~150 public entry points x unit/dtype/layout variants with deep snapshots of all
                 arguments before/after and a repeated call, (3) every interleaving of <= 3 factory /
                 combinator / lookup calls with mutations of the returned objects; all compared INSIDE Coq.
"""
import json
import os
import random
import sys

import vlib

ID = 'C09'
LEVEL = 'proof'
TRANSLATE = None
GEN_FILES = ['GenAlias.v', 'GenHandles.v']
RUN_FILES = ['Corr.v', 'TieAlias.v', 'TieHandles.v', 'Properties.v', 'PropertiesState.v']
COQ_TIMEOUT = 900

S = 'src/scippneutron/'
MODULES = [
    (S + '_utils/__init__.py', 'utils', 'scippneutron._utils'),
    (S + 'conversion/beamline.py', 'beamline', 'scippneutron.conversion.beamline'),
    (S + 'conversion/tof.py', 'tof', 'scippneutron.conversion.tof'),
    (S + 'peaks/model.py', 'model', 'scippneutron.peaks.model'),
    (S + 'peaks/_remove_peaks.py', 'remove_peaks', 'scippneutron.peaks._remove_peaks'),
    (S + 'peaks/_fit_peaks.py', 'fit_peaks', 'scippneutron.peaks._fit_peaks'),
    (S + 'peaks/_common.py', 'peaks_common', 'scippneutron.peaks._common'),
    (S + 'tof/chopper_cascade.py', 'cascade', 'scippneutron.tof.chopper_cascade'),
    (S + 'absorption/cylinder.py', 'cylinder', 'scippneutron.absorption.cylinder'),
    (S + 'absorption/types.py', 'abstypes', 'scippneutron.absorption.types'),
    (S + 'atoms/__init__.py', 'atoms', 'scippneutron.atoms'),
    (S + 'conversion/graph/__init__.py', 'graph', 'scippneutron.conversion.graph'),
    (S + 'conversion/graph/tof.py', 'gtof', 'scippneutron.conversion.graph.tof'),
    (S + 'conversion/graph/beamline.py', 'gbeamline', 'scippneutron.conversion.graph.beamline'),
    (S + 'core/conversions.py', 'conversions', 'scippneutron.core.conversions'),
    (S + 'io/cif.py', 'cif', 'scippneutron.io.cif'),
    (S + 'chopper/disk_chopper.py', 'diskchopper', 'scippneutron.chopper.disk_chopper'),
    (S + 'chopper/filtering.py', 'filtering', 'scippneutron.chopper.filtering'),
    (S + 'chopper/nexus_chopper.py', 'nexuschopper', 'scippneutron.chopper.nexus_chopper'),
]
# the exercise tie (lib/covtie.py) watches the anchored files of the property and the chopper modules (public entry
# points of the property's "chopper" family; pinned in tools/corpus/stmt_pins/C09.json)
COV_FILES = [
    S + 'conversion/beamline.py', S + 'conversion/tof.py', S + 'peaks/model.py', S + 'peaks/_remove_peaks.py',
    S + 'tof/chopper_cascade.py', S + 'absorption/cylinder.py', S + 'atoms/__init__.py', S + 'conversion/graph/tof.py',
    S + 'conversion/graph/beamline.py', S + 'io/cif.py',
    S + 'chopper/disk_chopper.py', S + 'chopper/filtering.py', S + 'chopper/nexus_chopper.py',
]
# parameters documented as modified in place (or consumed: only fresh temporaries are passed, which the
# theorems of the callers check through the interprocedural run)
ALLOWED = {'beamline._drop_due_to_gravity': ['distance'], 'fit_peaks._separate_from_neighbors_in_place': ['windows'],
           # Block.add appends to the block it is called on (its documented effect); the chunk / loop / mapping and the comment
           # it is handed are ordinary arguments
           'cif.Block.add': ['self']}


def theorem_functions():
    """the (function key, theorem suffix) pairs of coq-run/C09/TieAlias.v, read from that file"""
    import re
    out = []
    for fn in ('TieAlias.v', 'PropertiesState.v'):
        txt = open(os.path.join(vlib.VERIF, 'coq-run', 'C09', fn)).read()
        out += re.findall(r'Theorem (?:no_arg_write_|C09_)(\w+) : no_arg_write (F_\w+)\.', txt)
    return out


# ------------------------------------------------------------------ half (b): the operations
# name, function key, key set, kind.  kinds: dict (returns a graph dict), object:<class> (lookup returning an
# instance whose public variables are reached through properties / dataclass fields), model, builder:<fields>
OPS = [
    ('graph.tof.elastic', 'gtof.elastic', 'tofkey', 'dict'),
    ('graph.tof.kinematic', 'gtof.kinematic', 'tofkey1', 'dict'),
    ('graph.tof.elastic_dspacing', 'gtof.elastic_dspacing', 'tofkey', 'dict'),
    ('graph.tof.elastic_energy', 'gtof.elastic_energy', 'tofkey', 'dict'),
    ('graph.tof.elastic_Q', 'gtof.elastic_Q', 'tofkey', 'dict'),
    ('graph.tof.elastic_Q_vec', 'gtof.elastic_Q_vec', 'tofkey', 'dict'),
    ('graph.tof.elastic_hkl', 'gtof.elastic_hkl', 'tofkey', 'dict'),
    ('graph.tof.elastic_wavelength', 'gtof.elastic_wavelength', 'tofkey1', 'dict'),
    ('graph.tof.direct_inelastic', 'gtof.direct_inelastic', 'tofkey1', 'dict'),
    ('graph.tof.indirect_inelastic', 'gtof.indirect_inelastic', 'tofkey1', 'dict'),
    ('graph.beamline.beamline', 'gbeamline.beamline', 'bool', 'dict'),
    ('graph.beamline.two_theta', 'gbeamline.two_theta', 'none', 'dict'),
    ('graph.beamline.L1', 'gbeamline.L1', 'none', 'dict'),
    ('graph.beamline.L2', 'gbeamline.L2', 'none', 'dict'),
    ('graph.beamline.Ltotal', 'gbeamline.Ltotal', 'bool', 'dict'),
    ('graph.beamline.incident_beam', 'gbeamline.incident_beam', 'none', 'dict'),
    ('graph.beamline.scattered_beam', 'gbeamline.scattered_beam', 'none', 'dict'),
    ('conversion_graph', 'conversions.conversion_graph', 'bool', 'dict'),
    ('Model.with_prefix', 'model.Model.with_prefix', 'bool', 'model'),
    ('Model.__add__', 'model.Model.__add__', 'none', 'model'),
    ('CIF.copy', 'cif.CIF.copy', 'none', 'builder:_block,_content,_authors,_reducers'),
    ('CIF.with_reducers', 'cif.CIF.with_reducers', 'none', 'builder:_block,_content,_authors,_reducers'),
    ('CIF.with_authors', 'cif.CIF.with_authors', 'none', 'builder:_block,_content,_authors,_reducers'),
    ('CIF.with_beamline', 'cif.CIF.with_beamline', 'none', 'builder:_block,_content,_authors,_reducers'),
    ('Block.copy', 'cif.Block.copy', 'none', 'builder:_content'),
    ('Atom.for_isotope', 'atoms.Atom.for_isotope', 'iso', 'object:atoms.Atom'),
    ('ScatteringParams.for_isotope', 'atoms.ScatteringParams.for_isotope', 'iso', 'object:atoms.ScatteringParams'),
]
FAMILIES = [('graph_tof', 0, 10), ('graph_beamline', 10, 18), ('models', 18, 20), ('builders', 20, 25), ('atoms', 25, 27)]
NKEYS = {'tofkey': 2, 'tofkey1': 1, 'bool': 2, 'none': 1, 'iso': 3}


def alias_spec():
    roots = sorted({k for k, _, _, _ in [(o[1], 0, 0, 0) for o in OPS]})
    tf = theorem_functions()
    return {'repo': vlib.REPO,
            'modules': [{'py': p, 'key': k, 'dotted': d} for p, k, d in MODULES],
            'roots': [r for r in ROOTS] + roots + ['atoms.Atom.*props', 'atoms.ScatteringParams.*props'],
            'allowed': ALLOWED}


ROOTS = [
    'utils.as_float_type', 'beamline.L1', 'beamline.L2', 'beamline.straight_incident_beam', 'beamline.straight_scattered_beam',
    'beamline.total_beam_length', 'beamline.total_straight_beam_length_no_scatter', 'beamline.two_theta',
    'beamline.beam_aligned_unit_vectors', 'beamline._drop_due_to_gravity', 'beamline.scattering_angles_with_gravity',
    'beamline.scattering_angle_in_yz_plane',
    'tof.wavelength_from_tof', 'tof.dspacing_from_tof', 'tof.energy_from_tof', 'tof.energy_transfer_direct_from_tof',
    'tof.energy_transfer_indirect_from_tof', 'tof.energy_from_wavelength', 'tof.wavelength_from_energy', 'tof.Q_from_wavelength',
    'tof.wavelength_from_Q', 'tof.Q_elements_from_wavelength', 'tof.dspacing_from_wavelength', 'tof.dspacing_from_energy',
    'tof.Q_vec_from_Q_elements', 'tof.ub_matrix_from_u_and_b', 'tof.hkl_vec_from_Q_vec', 'tof.hkl_elements_from_hkl_vec',
    'tof.time_at_sample_from_tof',
    'model._gaussian', 'model._lorentzian', 'model._guess_from_peak', 'model.Model.__call__', 'model.Model.guess',
    'model.Model.with_prefix', 'model.Model.__add__', 'model.CompositeModel._call', 'model.PolynomialModel._call',
    'model.GaussianModel._call', 'model.LorentzianModel._call', 'model.PseudoVoigtModel._call', 'model.GaussianModel._guess',
    'model.LorentzianModel._guess', 'model.PseudoVoigtModel._guess', 'model.PolynomialModel._guess', 'model.CompositeModel._guess',
    'remove_peaks.remove_peaks', 'fit_peaks._fit_windows', 'fit_peaks._separate_from_neighbors_in_place',
    'fit_peaks.FitResult.eval_peak',
    'cascade.propagate_times', 'cascade._chop', 'cascade.Subframe.propagate_by', 'cascade.Frame.chop', 'cascade.Frame.propagate_to',
    'cylinder.Cylinder.beam_intersection', 'cylinder.Cylinder.quadrature',
    'cif.CIF.with_reduced_powder_data', 'cif.CIF.with_powder_calibration', 'cif.CIF._assemble_authors',
    # the low-level CIF interface: Block.add with ready-made chunks / loops, the constructor calls
    'cif.Block.add', 'cif.Block.<new>', 'cif.Loop.<new>', 'cif.Chunk.<new>',
    'model.GaussianModel.fwhm', 'model.LorentzianModel.fwhm', 'model.PseudoVoigtModel.fwhm',
    # chopper family: '<new>' is the constructor call DiskChopper(...) (a fresh instance initialised by the dataclass
    # __init__ and __post_init__, i.e. the validation of the caller's slit edges)
    'diskchopper.DiskChopper.<new>', 'diskchopper.DiskChopper.from_nexus', 'diskchopper.DiskChopper.time_offset_open',
    'diskchopper.DiskChopper.time_offset_close', 'diskchopper.DiskChopper.open_duration',
    'diskchopper.DiskChopper.time_offset_angle_at_beam', 'diskchopper.DiskChopper.__eq__', 'diskchopper.DiskChopper.*props',
    'filtering.find_plateaus', 'filtering.collapse_plateaus', 'filtering.filter_in_phase',
    'nexuschopper.extract_chopper_from_nexus', 'cascade.Chopper.from_disk_chopper',
]


# source path prefix (under src/scippneutron/) -> the sections of tools/harness/c09_impl.py:builders whose entry points
# reach it (used by search() to focus on the family of a broken obligation)
SECTIONS_OF = [
    ('chopper/', ['disk chopper and filtering']),
    ('tof/chopper_cascade.py', ['chopper cascade', 'disk chopper and filtering']),
    ('conversion/beamline.py', ['kernels', 'graphs / conversions']), ('conversion/tof.py', ['kernels', 'graphs / conversions']),
    ('_utils/', ['kernels', 'graphs / conversions']),
    ('conversion/graph/', ['graphs / conversions']), ('core/conversions.py', ['graphs / conversions']),
    ('peaks/', ['peaks']), ('absorption/', ['absorption / atoms']), ('atoms/', ['absorption / atoms']), ('io/', ['io']),
]


# ------------------------------------------------------------------ generation (every run)
def coq_ident(key):
    return 'F_' + ''.join(c if c.isalnum() else '_' for c in key)


def pre_build(ctx):
    spec = alias_spec()
    sp = os.path.join(ctx.build, 'alias_spec.json')
    json.dump(spec, open(sp, 'w'))
    rc, out = vlib.sh([sys.executable, os.path.join(vlib.VERIF, 'tools', 'alias2coq.py'), sp, ctx.build], timeout=120)
    out = vlib.clean_out(out)
    rp = os.path.join(ctx.build, 'alias_report.json')
    if rc != 0 or not os.path.exists(rp):
        raise RuntimeError('alias2coq failed: ' + out[-600:])
    rep = json.load(open(rp))
    ctx.alias_report = rep
    needed = {f for _, f in theorem_functions()} | {coq_ident(o[1]) for o in OPS}
    have = {v['coq'] for v in rep['functions'].values()}
    for f in sorted(needed):
        name = f'alias2coq:{f}'
        if f in have:
            dep = [k for k, v in rep['functions'].items() if v['coq'] == f and k in rep.get('depends_on_failed', {})]
            if dep:
                ctx.obligations.append((name, 'broken', f'calls {rep["depends_on_failed"][dep[0]]}: '
                                        f'{rep["failed"].get(rep["depends_on_failed"][dep[0]])}'))
                ctx.broken.append(name)
            else:
                ctx.obligations.append((name, 'discharged', ''))
        else:
            why = [v for k, v in rep['failed'].items() if coq_ident(k) == f]
            ctx.obligations.append((name, 'broken', why[0] if why else 'function not found in the current source'))
            ctx.broken.append(name)
    # every call site of a function with an in-place/consumed parameter must be inside an analysed function
    for k in ALLOWED:
        callers = [c for c, v in rep['functions'].items() if k in v['callees']]
        unanalysed = scan_callers(k, rep)
        name = f'callers-analysed:{k}'
        if unanalysed:
            ctx.obligations.append((name, 'broken', 'called from functions that are not analysed: ' + ', '.join(unanalysed)))
            ctx.broken.append(name)
        else:
            ctx.obligations.append((name, 'discharged', f'{len(callers)} analysed callers'))
    write_gen_handles(ctx, rep)
    ctx.coverage['alias_generation'] = {'functions': len(rep['functions']), 'maybe_alias_sites': len(rep['sites']),
                                        'untranslatable': rep['failed']}


def scan_callers(key, rep):
    """functions of key's module that mention the function's name but were not translated"""
    import ast
    modkey, fname = key.split('.')[0], key.split('.')[-1]
    path = [p for p, k, d in MODULES if k == modkey][0]
    tree = ast.parse(open(os.path.join(vlib.REPO, path)).read())
    bad = []

    def visit(node, qual):
        for ch in ast.iter_child_nodes(node):
            if isinstance(ch, ast.FunctionDef):
                q = f'{qual}.{ch.name}' if qual else ch.name
                uses = any(isinstance(n, ast.Name) and n.id == fname for n in ast.walk(ch))
                if uses and ch.name != fname and f'{modkey}.{q}' not in rep['functions']:
                    bad.append(f'{modkey}.{q}')
            elif isinstance(ch, ast.ClassDef):
                visit(ch, f'{qual}.{ch.name}' if qual else ch.name)
    visit(tree, '')
    return bad


def is_cached(decos):
    return any(d.split('(')[0].split('.')[-1] in ('lru_cache', 'cache') for d in decos)


def op_descriptor(rep, op):
    """Coq text of the opdesc of one operation + python-side facts"""
    name, fkey, keys, kind = op
    f = rep['functions'][fkey]
    F = f['coq']
    cached = is_cached(f['decorators'])
    gl = [rep['globals'][g] for g in f['globals_closure'] if g in rep['globals']]
    src = min(gl) if gl else 900 + OPS.index(op)
    top_shared = f'(orb {str(cached).lower()} (negb (ret_top_fresh PROG LOOPSITES {F})))'
    facts = {'cached': cached, 'src': src}
    if kind == 'dict' or kind == 'model':
        return f'mkop "{name}" {src} {top_shared} true []', facts
    if kind.startswith('builder:'):
        accs = []
        for fld in kind.split(':')[1].split(','):
            fid = rep['names'].get(fld)
            if fid is None:
                raise RuntimeError(f'attribute {fld} does not occur in the analysed source')
            accs.append(f'("{fld}", negb (ret_field_fresh PROG LOOPSITES {F} {fid}))')
        return f'mkop "{name}" {src} {top_shared} true [{"; ".join(accs)}]', facts
    cls = rep['classes'][kind.split(':')[1]]
    frozen = bool(cls['dataclass']) and cls['dataclass'].get('frozen') == 'True'
    facts['frozen'] = frozen
    deep = f'(ret_deep_fresh PROG LOOPSITES {F})'
    accs = []
    for p in cls['properties']:
        if p.startswith('_'):
            continue
        pk = f'{kind.split(":")[1]}.{p}'
        if pk not in rep['functions']:
            raise RuntimeError(f'property {pk} was not translated')
        accs.append((p, f'(andb (negb (ret_top_fresh PROG LOOPSITES {rep["functions"][pk]["coq"]})) (orb {top_shared} (negb {deep})))'))
    for fname, ann, _ in cls['fields']:
        if fname.startswith('_') or 'Variable' not in ann:
            continue
        accs.append((fname, f'(orb {top_shared} (negb {deep}))'))       # handed out as stored
    facts['paths'] = [a for a, _ in accs]
    acc_txt = '; '.join(f'("{a}", {e})' for a, e in accs)
    return f'mkop "{name}" {src} {top_shared} {str(not frozen).lower()} [{acc_txt}]', facts


def write_gen_handles(ctx, rep):
    lines = ['(* GENERATED by props/C09.py (pre_build) from alias_report.json of this run - do not edit *)',
             'From Coq Require Import List String Bool NArith.', 'From Verif.C09 Require Import Alias Handles.',
             'From Run Require Import GenAlias.', 'Import ListNotations.', 'Open Scope string_scope.', 'Open Scope N_scope.', '']
    facts = {}
    descs = []
    for op in OPS:
        d, fc = op_descriptor(rep, op)
        facts[op[0]] = fc
        descs.append(d)
    for fam, a, b in FAMILIES:
        lines.append(f'Definition OPS_{fam} : list opdesc := [\n  ' + ';\n  '.join(descs[a:b]) + '].')
    lines.append('Definition OPS : list opdesc := (' + ' ++ '.join(f'OPS_{f}' for f, _, _ in FAMILIES) + ')%list.')
    open(os.path.join(ctx.build, 'GenHandles.v'), 'w').write('\n'.join(lines) + '\n')
    ctx.op_facts = facts
    json.dump(facts, open(os.path.join(ctx.build, 'op_facts.json'), 'w'), indent=1, sort_keys=True)


# ------------------------------------------------------------------ correspondence
VARIANTS = [{'dtype': 'float64', 'unit': 0}, {'dtype': 'float64', 'unit': 1}, {'dtype': 'float32', 'unit': 0},
            {'dtype': 'int64', 'unit': 0}]
PCLASS = {'fresh': 'PFresh', 'maybe': 'PMaybe', 'view': 'PView', 'shallow': 'PShallow', 'out': 'POut', 'fresh-scalar': 'PView'}


def combos(tier, seed):
    cs = []
    layouts = ['1d', 'scalar', '2d']
    for vi, v in enumerate(VARIANTS):
        for li, lay in enumerate(layouts):
            if tier == 'quick' and not (lay == '1d' or (vi == 0)):
                continue          # quick: every variant 1-d, the aligned variant also scalar and broadcast
            cs.append({'variant': v, 'layout': lay, 'seed': seed % 100000 + 17 * vi + li})
    if tier != 'quick':
        cs += [{'variant': v, 'layout': lay, 'seed': seed % 100000 + 1000 + k} for k in range(3) for v in VARIANTS for lay in layouts]
    return cs


def op_paths(facts, op):
    name, fkey, keys, kind = op
    if kind in ('dict', 'model'):
        return [None]
    if kind.startswith('builder:'):
        return [None] + kind.split(':')[1].split(',')
    return ([] if facts[name].get('frozen') else [None]) + list(facts[name].get('paths', []))


def gen_histories(rng, tier, facts):
    inst = []       # (op index, key)
    for i, op in enumerate(OPS):
        for k in range(NKEYS[op[2]]):
            inst.append((i, k))
    paths = {i: op_paths(facts, op) for i, op in enumerate(OPS)}

    def mut_all(h, i):
        return [['mut', h, p] for p in paths[i]]
    hs = []
    cap = 700 if tier == 'quick' else 10 ** 9
    for fam, a, b in FAMILIES:
        fi = [x for x in inst if a <= x[0] < b]
        triples = [(x, y, z) for x in fi for y in fi for z in fi]
        if len(triples) > cap:
            triples = rng.sample(triples, cap)
        for x, y, z in triples:       # A: call, mutate everything reachable, call, mutate, call
            hs.append([['call', *x]] + mut_all(0, x[0]) + [['call', *y]] + mut_all(1, y[0]) + [['call', *z]])
        for x in fi:                  # B: one path at a time; D: mutation of an older handle
            for p in paths[x[0]]:
                for y in fi:
                    hs.append([['call', *x], ['mut', 0, p], ['call', *y]])
            for y in fi[:4]:
                hs.append([['call', *x], ['call', *y]] + mut_all(0, x[0]) + [['call', *x]])
    for _ in range(300 if tier == 'quick' else 3000):     # C: across families
        x, y, z = rng.choice(inst), rng.choice(inst), rng.choice(inst)
        hs.append([['call', *x]] + mut_all(0, x[0]) + [['call', *y]] + mut_all(1, y[0]) + [['call', *z]])
    return hs


def hist_term(h):
    acts = []
    for a in h:
        if a[0] == 'call':
            acts.append(f'Call {a[1]} {a[2]}%N')
        else:
            p = 'None' if a[2] is None else f'(Some "{a[2]}")'
            acts.append(f'Mutate {a[1]} {p} 7%N')
    return '[' + '; '.join(acts) + ']'


def bl(b):
    return 'true' if b else 'false'


def opt(b):
    return 'None' if b is None or isinstance(b, str) else f'(Some {bl(b)})'


def correspondence(ctx):
    rng = random.Random(ctx.seed)
    facts = getattr(ctx, 'op_facts', None)
    if facts is None:
        # generation failed (reported as the broken obligation 'pre_build'); search() evaluates the property on the
        # implementation with the pinned handle paths instead
        ctx.note('correspondence skipped: the alias/handle generation of this run failed')
        ctx.coverage.update({'evaluations': 0, 'distinct_nontrivial': 0, 'rule': 'generation failed; see search'})
        return
    hists = gen_histories(rng, ctx.tier, facts)
    named = [[[a[0], OPS[a[1]][0], a[2]] if a[0] == 'call' else a for a in h] for h in hists]
    cmb = combos(ctx.tier, ctx.seed)
    res = ctx.run_impl('c09_impl.py', {'mode': 'all', 'combos': cmb, 'histories': named})
    terms, descs = [], []
    for r in res['rows']:
        terms.append(f'CRow "{r["name"]}" {PCLASS[r["cls"]]} {opt(r["when_true"])} {opt(r["when_false"])}')
        descs.append({'kind': 'row', **r})
        if isinstance(r['when_true'], str) or isinstance(r['when_false'], str):
            ctx.violation('alias-row-error:' + r['name'], f'aliasing row {r["name"]} could not be evaluated: {r}', r, found_input=False)
    skipped = []
    for c in res['calls']:
        if c['status'] in ('skip', 'harness-error'):
            skipped.append({k: c.get(k) for k in ('label', 'why', 'error', 'combo')})
            continue
        rep = c.get('repeat_equal')
        terms.append(f'CCall "{c["label"]}" {bl(not c.get("changed"))} {bl(rep is not False)}')
        descs.append({'kind': 'call', **c})
    for h, nh, r in zip(hists, named, res['histories']):
        if r['error']:
            ctx.violation('history-harness-error', f'history {nh} raised: {r["error"][-200:]}', {'history': nh, 'error': r['error']},
                          found_input=False)
            continue
        # mutations the implementation could not perform (attribute is None / undefined for that isotope) are
        # not part of the executed history
        ap = iter(r['applied'])
        keep = [a[0] == 'call' or next(ap) for a in h]
        h2 = [a for a, k_ in zip(h, keep) if k_]
        nh2 = [a for a, k_ in zip(nh, keep) if k_]
        terms.append(f'CHist {hist_term(h2)} [{"; ".join(bl(b) for b in r["flags"])}]')
        descs.append({'kind': 'history', 'history': nh2, 'observed_pristine': r['flags']})
    header = ('From Coq Require Import List String Bool NArith.\nFrom Verif.Sem Require Import Corr.\n'
              'From Verif.C09 Require Import Alias Handles.\nFrom Run Require Import GenAlias GenHandles Corr.\n'
              'Import ListNotations.\nOpen Scope string_scope.\n')
    fails, errors = ctx.coq_eval_shards(header, terms, lambda k: 'Eval vm_compute in (report (map (check_case OPSV) cases)).\n')
    for name, e in errors:
        ctx.violation('corr-shard-error', f'correspondence shard {name} did not evaluate: {e[:300]}', {'shard': name, 'error': e},
                      found_input=False)
    # shortest failing history first (one replay per failure class)
    per_entry = {}
    for i, why in sorted(fails.items(), key=lambda kv: (len(descs[kv[0]].get('history', [])), kv[0])):
        d = descs[i]
        if d['kind'] == 'call':
            # at most 4 replays per entry point (the value / sharing classes in [...] of one entry point fail together)
            base = d['label'].split('[')[0]
            per_entry.setdefault(base, set()).add(d['label'])
            if len(per_entry[base]) > 4:
                continue
        if d['kind'] == 'call' and d['label'].endswith('[aligned]'):
            d = dict(d, label=d['label'][:-len('[aligned]')], combo=dict(d['combo'], aligned=d.get('aligned')))
        if d['kind'] == 'row':
            ctx.violation(f'alias-row:{d["name"]}', f'aliasing classification row "{d["name"]}" ({d["cls"]}) disagrees with scipp '
                          f'{res.get("scipp")}: {why} (shares when condition holds: {d["when_true"]}, when it fails: {d["when_false"]})', d)
        elif d['kind'] == 'call':
            if why == 'argument-modified':
                ctx.violation(f'arg-modified:{d["label"]}', f'{d["label"]} modified an argument (first difference at {d["changed"]}) '
                              f'with {d["combo"]}', {'call': d['label'], 'combo': d['combo'], 'changed': d['changed']})
            else:
                ctx.violation(f'history:{d["label"]}', f'{d["label"]} returned a different result when called a second time with the '
                              f'same arguments ({d.get("repeat_diff")}), {d["combo"]}',
                              {'call': d['label'], 'combo': d['combo'], 'repeat_diff': d.get('repeat_diff')})
        else:
            calls = [a for a in d['history'] if a[0] == 'call']
            bad = [c[1] for c, f in zip(calls, d['observed_pristine']) if not f]
            if why == 'model-prediction-differs':
                ctx.violation('model-mismatch', 'the Handles model (descriptors of this run) predicts '
                              f'another outcome than the implementation shows for history {d["history"]}: observed pristine flags '
                              f'{d["observed_pristine"]}', d)
            else:
                ctx.violation(f'shared-result:{bad[0]}', f'{bad[0]} returns a result that depends on what callers did to earlier '
                              f'results: history {d["history"]} -> pristine flags {d["observed_pristine"]}', d)
    try:
        import re
        out = coq_query(ctx, 'From Run Require Import TieHandles.\nEval vm_compute in shared_ops.\n', 'shared_ops.v')
        ctx.coverage['model_shared_operations'] = re.findall(r'"([^"]+)"', out.split('= ')[-1]) if '= ' in out else out[-200:]
    except Exception as ex:      # noqa: BLE001
        ctx.coverage['model_shared_operations'] = f'not evaluated: {ex}'
    labels = sorted({d['label'] for d in descs if d['kind'] == 'call'})
    n_hist = sum(1 for d in descs if d['kind'] == 'history')
    distinct = len({json.dumps(d.get('history') or [d.get('label'), d.get('combo')] or d.get('name'), sort_keys=True, default=str)
                    for d in descs if d['kind'] != 'call' or d['status'] == 'ok'})
    ctx.coverage.update({
        'evaluations': len(terms),
        'distinct_nontrivial': distinct,
        'rule': 'rows: one per primitive of the aliasing table; calls: public entry points of conversion.tof/beamline, '
                'tof.chopper_cascade, peaks (model evaluation x degenerate parameter value classes), absorption, chopper (disk chopper construction / methods x slit-edge value classes, '
                'filtering, NeXus extraction), io (builder and the low-level Block / Loop / Chunk interface with shared ready-made items), atoms, graph factories x (dtype, unit, layout) variants '
                '(non-trivial = the call returned normally; a refusal still has its arguments checked); histories: ordered '
                'triples / pairs of factory-lookup instances with mutation of every returned handle through every path '
                f'({"sampled 700 triples per family" if ctx.tier == "quick" else "all triples"}); distinct = distinct (label, variant) / history',
        'samples': [descs[0], next(d for d in descs if d['kind'] == 'call'), next(d for d in descs if d['kind'] == 'history'), descs[-1]],
        'alias_rows': sum(1 for d in descs if d['kind'] == 'row'),
        'calls': sum(1 for d in descs if d['kind'] == 'call'),
        'calls_returning': sum(1 for d in descs if d['kind'] == 'call' and d['status'] == 'ok'),
        'entry_points': len(labels),
        'entry_point_list': labels,
        'not_exercised': skipped[:40],
        'histories': n_hist,
        'histories_exhaustive': ctx.tier != 'quick',
        'disagreements': len(fails),
        'scipp_version': res.get('scipp'),
        'conservative_rows': [d['name'] for d in descs if d['kind'] == 'row' and d['cls'] == 'maybe' and d['when_true'] is False],
        'variants': cmb,
        'input_classes': {
            'disk chopper slit edges': 'value classes inside-one-turn / across-tdc (negative begin) / beyond-one-turn (> 360 deg) / '
                                       'negative / single-wide-slit / random-turn-offsets (seeded slits shifted by k*360 deg, k in -2..2) x unit deg|rad '
                                       'x dtype float64 (internal dtype conversions are no-ops) | float32 | int64 x 1-d or 2-d edge arrays',
            'disk chopper entry points': 'DiskChopper(...) constructor (validation of the caller\'s edges), from_nexus with interleaved slit_edges '
                                         'and with slit_begin/slit_end, from_nexus on extract_chopper_from_nexus output, time_offset_open/close, '
                                         'open_duration, time_offset_angle_at_beam, __eq__, n_slits, angular_frequency, is_clockwise, make_svg, '
                                         '_repr_html_, tof.chopper_cascade.Chopper.from_disk_chopper; rotation sense and frequency ratio '
                                         '(1, 2, 1/2 of the pulse frequency) from the seed',
            'filtering': 'find_plateaus (float / int64 time coordinate, min_n_points int or index variable), collapse_plateaus, filter_in_phase',
            'filtering scalar-argument spellings': 'every scalar argument in every spelling of the same quantity, ACCEPTED AND REFUSED (the argument must be '
                                                   'unchanged in values, dtype, dims and UNIT after a refusal too): find_plateaus min_n_points = python int | numpy int | '
                                                   'python float | sc.index | int64 / int32 / float64 with unit=None | int64 / float64 / float32 dimensionless | counts | '
                                                   '1-element arrays, x n in {3, seeded 1..5}; atol = float64 / float32 / int64 Hz/s | mHz/s | Hz/ms | with variance | '
                                                   'dimensionless | unit=None | Hz | python float | 1-element array | seeded value; data with variances + mask + extra '
                                                   'coord, no plateau found; collapse_plateaus on those, unknown coord name, other plateau dim; filter_in_phase reference = '
                                                   'float64 / float32 / int64 Hz | kHz | 1/s | with variance | dimensionless | unit=None | python float | 0 Hz | seeded, '
                                                   'rtol = float64 / float32 / int64 dimensionless | unit=None | percent | python float | with variance | per element',
            'fit_peaks windows': 'explicit 2-d windows x edge VALUE classes relative to the data range and to each other: inside | edges outside the data | '
                                 'lower edge outside | overlapping | overlapping and outside | a window entirely beyond the data | reversed edges (refused) | '
                                 'infinite edges | seeded (estimate -/+ U(0.1, 2.0)) x dims (d, range) | (range, d) x estimates ascending | descending x window dtype '
                                 '= data dtype | float64 x window unit = coordinate unit | the other of angstrom / nm (refused) x data with a mask; scalar windows wider '
                                 'than the data, estimates outside the data, scalar window in another unit; optional arguments as caller-owned objects: '
                                 'FitParameters (seeded values; neighbor_separation_factor also as a Variable), FitRequirements, lists of Model objects / names '
                                 'for background and peak (all plain classes for the base variant, out-of-range + seeded + one class chosen by the seed for the '
                                 'other dtype / unit variants, seeded only for the layouts that do not exist for peaks)',
            'peak model parameters': 'GaussianModel / LorentzianModel / PseudoVoigtModel / CompositeModel (polynomial+gaussian, lorentzian+pseudo-voigt) '
                                     '.__call__ and .fwhm, FitResult.eval_model / eval_peak / remove_peaks x parameter VALUE classes: ordinary | '
                                     'scale = 0 | smallest normal float | negative | -0.0 | inf | amplitude 0 / negative | loc outside the x range | '
                                     'all zero | fraction 0 / 1 / > 1 | parameters with variances (0-d x) | scale = 0 with variances | signs and '
                                     'magnitudes from the seed; polynomial coefficients ordinary / all zero / negative (a write that stores the '
                                     'value already present for ordinary parameters only shows for the degenerate ones)',
            'cif low-level interface': 'Block.add(item, comment) x item kind (ready-made Loop | Chunk | dict | list of pairs) x item has its own comment '
                                       'or not x comment argument absent | ascii | non-ascii x sharing (unshared | item also in an earlier block built by '
                                       'the constructor / by add | target is a Block.copy of that block | item already in the target); watched besides the '
                                       'arguments: the earlier block, the text it writes, the text the item writes.  Loop.__setitem__ / Chunk.__setitem__ '
                                       '(new / existing key, refused length) with the mapping the object was built from and a sibling built from the same '
                                       'mapping watched; Loop / Chunk / Block constructors with ready-made items, comments, schemas; save_cif and Block.write '
                                       'on blocks sharing items; Block.schema; builder with_reduced_powder_data / with_powder_calibration with comment on a '
                                       'base that already holds data; history mutation of a Block.copy through add(existing item, comment=...)',
            'aligned variants': 'arguments (top-level, attributes of argument objects, items of dict / DataGroup arguments) converted to the unit / '
                                'dtype of every traced copy=False conversion of the argument OR OF A VIEW of it (numpy.shares_memory)',
        },
    })


# ------------------------------------------------------------------ search / replay
def coq_query(ctx, body, name='query.v'):
    """evaluate a small Coq script against this run's generated modules; returns the raw output"""
    txt = ('From Coq Require Import List String Bool NArith.\nFrom Verif.C09 Require Import Alias Handles.\n'
           'From Run Require Import GenAlias GenHandles.\nImport ListNotations.\nOpen Scope string_scope.\n' + body)
    open(os.path.join(ctx.build, name), 'w').write(txt)
    rc, out = ctx.coqc(name, timeout=600)
    return vlib.clean_out(out)


def search(ctx, broken):
    """an obligation broke.  (1) ask Coq for the violating aliasing configuration of the function(s) whose theorem
    broke and translate it back to source lines; (2) evaluate the PROPERTY on the implementation: all entry points x
    all (dtype, unit, layout) variants x several seeds with snapshots, and the histories for the operations the model
    now calls shared."""
    import re
    found = []
    rep = getattr(ctx, 'alias_report', None)
    tf = dict((suf, f) for suf, f in theorem_functions())
    names = set()
    really = {o[0] for o in ctx.obligations if o[1] == 'broken'}
    for b in broken:
        if b not in really:
            continue                  # 'unchecked' because an earlier lemma of the file failed
        m = re.search(r':(?:no_arg_write_|C09_)(\w+)$', b)
        if m and m.group(1) in tf:
            names.add(tf[m.group(1)])
    cfg_notes = []
    if rep and names:
        q = ''.join(f'Eval vm_compute in ("{f}", first_bad PROG LOOPSITES 8 {f}, '
                    f'match first_bad PROG LOOPSITES 8 {f} with Some c => (wr (run PROG LOOPSITES c 8 {f}), ok (run PROG LOOPSITES c 8 {f})) '
                    f'| None => ([], true) end).\n' for f in sorted(names))
        out = coq_query(ctx, q)
        for f in sorted(names):
            m = re.search(r'"' + f + r'",\s*(Some \[[^\]]*\]|None)', out.replace('\n', ' '))
            cfgtxt = m.group(1) if m else '?'
            sites = [int(x) for x in re.findall(r'\d+', cfgtxt)] if cfgtxt.startswith('Some') else []
            lines = [f'site {s_}: {rep["sites"][str(s_)]["function"]} line {rep["sites"][str(s_)]["line"]}: '
                     f'{rep["sites"][str(s_)]["text"]}' for s_ in sites if str(s_) in rep['sites']]
            cfg_notes.append({'function': f, 'violating_configuration': cfgtxt, 'aliasing_sites': lines})
        ctx.note('violating aliasing configurations: ' + json.dumps(cfg_notes)[:1500])
        ctx.coverage['violating_configurations'] = cfg_notes
    if any(v.found_input for v in ctx.violations):
        return [v.key for v in ctx.violations if v.found_input]
    if getattr(ctx, 'op_facts', None) is None:
        # the generation itself failed (a function left the analysable subset), so the correspondence did not run: evaluate
        # the history half of the PROPERTY directly on the implementation, with the handle paths pinned from the last
        # generation that succeeded (tools/corpus/C09/op_facts.json): every result must be pristine whatever the history
        try:
            facts = json.load(open(os.path.join(vlib.VERIF, 'tools', 'corpus', 'C09', 'op_facts.json')))
            rng = random.Random(ctx.seed)
            hists = gen_histories(rng, 'quick', facts)
            named = [[[a[0], OPS[a[1]][0], a[2]] if a[0] == 'call' else a for a in h] for h in hists]
            resh = ctx.run_impl('c09_impl.py', {'mode': 'histories', 'histories': named})
            for h, r in sorted(zip(named, resh['histories']), key=lambda hr: len(hr[0])):
                flags = r.get('flags')
                if isinstance(flags, list) and not all(flags):
                    calls = [a for a in h if a[0] == 'call']
                    bad = [c[1] for c, f in zip(calls, flags) if not f]
                    ctx.violation(f'shared-result:{bad[0]}', f'{bad[0]} returns a result that depends on what callers did to earlier '
                                  f'results: history {h} -> pristine flags {flags}', {'kind': 'history', 'history': h, 'observed_pristine': flags})
                    found.append(bad[0])
        except Exception as ex:      # noqa: BLE001
            ctx.note(f'history fallback could not run: {ex}')
    # (2a) focused sweep: the entry-point families of the harness that reach the files / functions whose obligation
    # broke (exercise:<file>:<function> of the exercise tie, alias theorems of functions of that file), with many more
    # seeds (slit-edge turn offsets, rotation sense, frequency ratio, value ranges depend on the seed) x every
    # (dtype, unit, layout) variant
    files = set()
    for b in broken:
        m = re.match(r'exercise:(src/scippneutron/[^:]+)', b)
        if m:
            files.add(m.group(1))
    for f in names:
        for path, key, _ in MODULES:
            if f.startswith('F_' + key + '_'):
                files.add(path)
    sections = sorted({sec for f in files for pref, secs in SECTIONS_OF for sec in secs if f.startswith(S + pref)})
    calls = []
    if sections:
        cmb = [{'variant': v, 'layout': lay, 'seed': ctx.seed % 100000 + 7000 + k} for k in range(8) for v in VARIANTS
               for lay in ('1d', 'scalar', '2d')]
        calls += ctx.run_impl('c09_impl.py', {'mode': 'calls', 'combos': cmb, 'sections': sections})['calls']
        ctx.coverage['search_focused'] = {'files': sorted(files), 'harness_sections': sections, 'combos': len(cmb), 'calls': len(calls)}
    if not any(c.get('changed') or c.get('repeat_equal') is False for c in calls):
        # (2b) wider sweep on the implementation: every entry point
        cmb = [{'variant': v, 'layout': lay, 'seed': ctx.seed % 100000 + 5000 + k} for k in range(3) for v in VARIANTS
               for lay in ('1d', 'scalar', '2d')]
        calls += ctx.run_impl('c09_impl.py', {'mode': 'calls', 'combos': cmb})['calls']
    res = {'calls': calls}
    seen = set()
    for c in res['calls']:
        if not (c.get('changed') or c.get('repeat_equal') is False) or c['label'] in seen:
            continue              # one replay per entry point and value / sharing class, at most 4 per entry point
        seen.add(c['label'])
        if sum(1 for l_ in seen if l_.split('[')[0] == c['label'].split('[')[0]) > 4:
            continue
        if c.get('changed'):
            ctx.violation(f'arg-modified:{c["label"]}', f'{c["label"]} modified an argument (first difference at {c["changed"]}) '
                          f'with {c["combo"]}', {'call': c['label'], 'combo': c['combo'], 'changed': c['changed']})
            found.append(c['label'])
        elif c.get('repeat_equal') is False:
            ctx.violation(f'history:{c["label"]}', f'{c["label"]} returned a different result when called a second time',
                          {'call': c['label'], 'combo': c['combo'], 'repeat_diff': c.get('repeat_diff')})
            found.append(c['label'])
    if not found and cfg_notes:
        ctx.violation('broken-alias-obligation:' + cfg_notes[0]['function'],
                      f'the alias analysis of the current source finds a configuration in which {cfg_notes[0]["function"]} '
                      f'writes an argument ({cfg_notes[0]}), but no call of the implementation showed a modified argument',
                      {'configurations': cfg_notes}, found_input=False)
    return found


def replay(ctx, obj):
    r = obj['replay']
    print(json.dumps({k: obj[k] for k in ('property', 'key', 'what')}, indent=1))
    if 'call' in r:
        res = ctx.run_impl('c09_impl.py', {'mode': 'calls', 'combos': [r['combo']], 'only': [r['call']]})
        for c in res['calls']:
            print('observed :', {k: c.get(k) for k in ('label', 'status', 'changed', 'repeat_equal', 'repeat_diff')})
        print('required : changed = None (no argument differs after the call) and repeat_equal = True')
        bad = any(c.get('changed') or c.get('repeat_equal') is False for c in res['calls'])
        return 1 if bad else 0
    if 'history' in r:
        res = ctx.run_impl('c09_impl.py', {'mode': 'histories', 'histories': [r['history']]})
        print('history  :', r['history'])
        print('observed : results equal to the pristine ones?', res['histories'][0]['flags'])
        print('required : all True')
        return 0 if all(res['histories'][0]['flags']) else 1
    print(json.dumps(r, indent=1)[:3000])
    return 0


TRUSTED = [
    'tools/alias2coq.py: syntactic translator Python ast -> Alias terms (fail-closed outside its subset); its classification tables '
    '(FRESH_FUNCS, MAYBE_FUNCS, SHALLOW_FUNCS, M_FRESH, M_MAYBE, M_MUT, SCALAR_ATTRS) are the MODEL of which scipp/numpy/Python '
    'primitive returns a new object / may return its argument / mutates its receiver; every scipp row is validated against the '
    'installed scipp by the harness (numpy.shares_memory), numpy/builtin rows by a representative call',
    'coq/C09/Alias.v: abstract interpreter (may-point-to sets over allocation sites, blobs for objects of unknown structure, '
    'strong updates only for objects allocated once in the root frame, joins at branches, loop fixpoints, call-depth Kleene '
    'iteration with an explicit closedness check); its soundness w.r.t. Python is not proved - it is the model',
    'method calls on objects of unknown class dispatch to every analysed class defining the method; calls through '
    'self._left/_right/peak/background dispatch to Model.__call__ (table CALLABLE_ATTRS)',
    'arithmetic (BinOp/UnaryOp/Compare) always allocates; Python scalars (.value of 0-d variables, len, float) are values without a buffer',
    'configuration bits: one per to/astype/to_unit(copy=False), as_float_type, sc.values, transpose/flatten/..., .fields.c call and one '
    'per (function, indexed expression) for subscripts; context-insensitive across call sites',
    'coq/C09/Handles.v: state machine of module tables / cache entries / stored variables; the descriptors come from decorators and '
    'dataclass declarations read by the translator plus Alias.ret_*_fresh of the regenerated bodies; functools.lru_cache is modelled as '
    '"returns the stored object" and is not verified',
    'constructor calls (root <new>): the new instance is an allocation site, so stores into ITS attributes (dataclass __init__, '
    'object.__setattr__ in __post_init__ of a frozen dataclass) are not argument writes; x.copy(deep=False) is a new object with the same data '
    'buffer and its own coords / masks dicts holding the same variables (validated by a harness row); enumeration classes defined '
    'conditionally at module level (try/except ImportError) are immutable values, calling one only reads its arguments; '
    'DiskChopper.make_svg (chopper/_svg.py uses nested function definitions) is outside the alias language: covered by the snapshot harness only',
    'stores x.value / x.values / x.variance / x.variances / x.unit = v (x not the self of an analysed class) write the storage x is a handle of '
    '(translated as SAug: seen through the original of a shallow copy and through views; validated by harness rows); '
    'cif: Block.add is analysed with self exempt (appending to the block is its documented effect), its callers CIF.save / _add_audit and the '
    'write methods (method dispatch over every class with .write makes the call tree too large), Loop.__setitem__ / Chunk.__setitem__ '
    '(the blob summary cannot separate the stored value from the container) are covered by the snapshot harness only',
    'tools/harness/c09_impl.py: deep snapshots (values, variances, unit, dtype, dims, coords, masks, container identity structure), '
    'argument generators, reset of lru caches / module tables between histories',
]
ASSUMPTIONS = [
    'scipp primitives write only through out=, op= and slice assignment (no primitive classified Fresh/MaybeAlias writes its inputs)',
    'DataArray op= writes the data buffer only (right-hand sides in the analysed code are variables, so no mask is or-ed in)',
    'the aliasing condition of every MaybeAlias primitive can be arbitrary: all 2^n configurations are enumerated, so no assumption '
    'on units/dtypes of the caller is made',
]
LEVEL_TEXT = (f'Proof: (a) for every analysed function ({len(theorem_functions())} functions regenerated from beamline.py, tof.py, model.py, _remove_peaks.py, '
              '_fit_peaks.py, chopper_cascade.py, cylinder.py, atoms, graph factories, cif.py, chopper/disk_chopper.py (the constructor call '
              'DiskChopper(...) with its edge validation included), chopper/filtering.py, chopper/nexus_chopper.py on this run) and for EVERY assignment of '
              '"returns its argument" to the MaybeAlias sites (finite enumeration by vm_compute, lifted by Alias.check_sound) the symbolic '
              'run writes no object reachable from a parameter and no module-level object; (b) for every history of factory / combinator '
              '/ lookup calls interleaved with mutations of returned objects (induction over the list) every result equals the pristine '
              'one, for the operation descriptors computed from the current source. The aliasing classification of scipp primitives is '
              'MODELLED and validated row by row against the installed scipp (numpy.shares_memory) on every run; the implementation is '
              'exercised with deep argument snapshots on ~150 public entry points x unit/dtype/layout variants and ~4000 histories, all '
              'compared inside Coq.')
LEVEL_NOTE = ('Trusted: Coq kernel (no axioms: Print Assumptions is closed); alias2coq translator and its classification tables; the abstract '
              'interpreter Alias.v as the semantics of "writes"; lru_cache modelled; harness snapshots. Theorems are about the generated '
              'terms, not about CPython.')
TECHNIQUE = ('Coq: abstract interpretation (alias / points-to) of regenerated syntax with exhaustive enumeration of aliasing '
             'configurations by vm_compute; inductive invariant over operation histories; correspondence of model rows, argument '
             'snapshots and histories evaluated in Coq')
