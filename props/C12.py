"""C12 — every SQW file written is a structurally complete, self-consistent container."""
import json
import os
import random
import re
import time

import sqwcorr as S
import vlib

ID = 'C12'
LEVEL = 'proof'
TRANSLATE = None
GEN_FILES = ['GenSqw.v']
RUN_FILES = ['Tie.v', 'Properties.v']
COQ_TIMEOUT = 600
TRUSTED = [
    'coq/SQW/Model.v: hand-written executable model of SqwBuilder.create/_serialize_*/_PixWrap/_DndPlaceholder, '
    '_ir/_models serialisation and _read_write.write_object_array; tied to the code by byte-for-byte comparison of whole '
    'files inside Coq on every run, and for the block-order tuple, the pixel row tables and the chunk-loop bound by '
    'definitions regenerated from _build.py (lib/sqwcorr.py:source_facts, ast based, fail-closed)',
    'coq/SQW/Format.v: the independent decoder (format as documented: header, block allocation table, typed object arrays, '
    'pixel and dnd bodies); the format documentation itself is trusted',
    'the BAT is modelled by its final content (positions computed arithmetically), not by the write-then-seek-and-patch '
    'mechanism; the real bytes are compared',
    'tools/harness/sqw_impl.py + lib/sqwcorr.py (exact serialisation of inputs / produced bytes; 7-byte words as primitive '
    'Uint63 literals in the correspondence files only, not in any theorem)',
    'unit conversion is not modelled: the model receives values converted by scipp (oracle), C13 checks them against exact rationals',
    'numpy tobytes()/tofile() and BytesIO vs real file: covered by running both sinks',
    'lib/sqwcorr.py:py_structure/decode_object_array (independent Python decoder of the typed object stream, written from the format '
    'description): evaluates the property statement in search()/replay, and keeps the package reader away from regular blocks that do '
    'not decode (the reader follows garbage shapes); not used for the Coq comparison',
]
ASSUMPTIONS = [
    'strings are ASCII (the writer stores the character count as byte length; non-ASCII text is outside the quantifier)',
    'every length fits the field it is written to: < 256 dimensions, < 2^32 for lengths/sizes, < 2^64 positions (explicit hypotheses)',
    '1..20 runs (an empty experiment list is outside the quantifier)',
    'creation dates are read from the produced bytes and given to the model',
]
LEVEL_TEXT = ('Proof: for all builder-call sequences (any subset, order, repetition), both byte orders, all pixel counts, all chunk '
              'sizes >= 1 and all payloads whose lengths fit their fields, the file laid out by the writer model is accepted by an '
              'independent format checker: horace-4.0 header, byte order recognised, table lists each present block once in a '
              'call-order independent order, extents start after the table, tile the file to EOF, every block decodes completely '
              '(pixel block length 12+36N by induction over the chunk loop). The model is compared byte for byte with the files the '
              'real SqwBuilder writes (BytesIO and real files) inside Coq on every run; block order tuple, pixel row tables and '
              'the chunk-loop bound are regenerated from the source and tied by lemmas.')
LEVEL_NOTE = ('Trusted: Coq kernel (all theorems axiom-free); hand model of the writer (validated by whole-file byte equality on '
              '~600 generated files per quick run); the format description in Format.v; harness serialisation. Unit conversion and '
              'float formatting are not part of C12.')
TECHNIQUE = 'Coq proof on a hand-written writer model + independent decoder; vm_compute correspondence on the real bytes; source facts regenerated per run'


def pre_build(ctx):
    facts = S.source_facts(vlib.REPO)
    with open(os.path.join(ctx.build, 'GenSqw.v'), 'w') as f:
        f.write(S.gen_sqw_v(facts))
    ctx.coverage['source_facts'] = {k: facts[k] for k in ('order', '_DEFAULT_PIX_ROWS', '_DEFAULT_PIX_ROW_UNITS',
                                                           'loop_stop_src', 'pix_size_src', 'sha256')}


# ------------------------------------------------------------------ cases
ALL_F32 = 'all-rows-float32'


def gen_cases(rng, tier):
    cases = []
    bos = ['native', 'little', 'big']
    sinks = ['bytesio', 'file', 'bytesio']
    # 1. every ordering of every subset of the five builder calls
    for i, seq in enumerate(S.all_sequences()):
        n = rng.choice([0, 1, 2, 3, 7, 9, 10])
        calls = [S.gen_call(rng, k, n=n) for k in seq]
        chunk = rng.choice([None, 1, 2, 4, 8, 9, 10, 11, 8192])
        cases.append(S.mk_case(rng, calls, byteorder=bos[i % 3], sink=sinks[(i // 3) % 3], chunk=chunk, tags=['sequence']))
    # 2. pixel count x chunk size
    ns = [0, 1, 2, 7, 8, 9, 10, 63, 64, 65, 1000]
    if tier == 'thorough':
        ns += [11, 17, 18, 19, 27, 28, 100, 4095, 4096]
    k = 0
    for n in ns:
        for chunk in S.chunk_grid(n):
            k += 1
            others = [S.gen_call(rng, kd) for kd in rng.sample(['inst', 'samp', 'dnd', 'det'], rng.randrange(0, 3))]
            calls = others + [S.gen_pix_call(rng, n, convert=(n != 0) and rng.random() < 0.5, n_runs=rng.randrange(1, 3))]
            rng.shuffle(calls)
            cases.append(S.mk_case(rng, calls, byteorder=bos[k % 3], sink=sinks[k % 3], chunk=chunk, tags=['grid']))
    # 3. larger pixel blocks, default and large chunks (whole file goes to Coq)
    big = [(3000, 1000), (3000, None), (10000, None), (9000, 8192)]
    if tier == 'thorough':
        big += [(100000, None), (100000, 100000), (20000, 3), (70000, 65536)]
    for n, chunk in big:
        cases.append(S.mk_case(rng, [S.gen_pix_call(rng, n, convert=False, n_runs=1)], sink=rng.choice(['bytesio', 'file']),
                               chunk=chunk, tags=['big']))
    # one array write above 1 MiB per sink (a single chunk of > 29127 pixels): block-wise copying paths
    for sink in ('bytesio', 'file'):
        n = rng.randrange(29500, 33000)
        cases.append(S.mk_case(rng, [S.gen_pix_call(rng, n, convert=False, n_runs=1)], sink=sink,
                               chunk=rng.choice([n, n + 1, 65536]), tags=['big', 'single-write-above-1MiB']))
    # 4. string lengths 0, 1, 255, 256, 70000 for title / run file names / paths / names
    for L in (0, 1, 255, 256, 70000):
        t = S.ascii_string(rng, L)
        pc = S.gen_pix_call(rng, 3, n_runs=2)
        pc['experiments'][0]['filename'] = S.ascii_string(rng, L)
        pc['experiments'][1]['filepath'] = S.ascii_string(rng, L)
        inst = S.gen_inst_call(rng)
        inst['name'] = S.ascii_string(rng, L)
        samp = S.gen_samp_call(rng)
        samp['name'] = S.ascii_string(rng, L)
        dnd = S.gen_dnd_call(rng)
        dnd['axes']['title'] = S.ascii_string(rng, L)
        cases.append(S.mk_case(rng, [pc, inst, samp, dnd], title=t, sink='bytesio', tags=['strings']))
        cases.append(S.mk_case(rng, [inst, dnd, pc], title=t, sink='file', tags=['strings']))
    # 5. 1..20 runs, direct and indirect
    runs = range(1, 21) if tier == 'thorough' else (1, 2, 3, 5, 8, 13, 20)
    for r in runs:
        calls = [S.gen_pix_call(rng, rng.choice([4, 12]), n_runs=r, run_ids=rng.choice(['seq', 'sparse'])),
                 S.gen_inst_call(rng), S.gen_samp_call(rng)]
        rng.shuffle(calls)
        cases.append(S.mk_case(rng, calls, tags=['runs']))
    # 6. repeated calls of the same kind (the last one counts), dnd shapes
    for _ in range(12 if tier == 'quick' else 60):
        kinds = [rng.choice(S.KINDS) for _ in range(rng.randrange(2, 8))]
        cases.append(S.mk_case(rng, [S.gen_call(rng, kd, n=rng.choice([0, 2, 11])) for kd in kinds], tags=['repeat']))
    for nb in ([1], [2, 3], [4, 1, 2], [1, 1, 1, 1], [7, 3, 2, 5]):
        cases.append(S.mk_case(rng, [S.gen_dnd_call(rng, nbins=nb)], tags=['dnd-shape']))
    # 7. dtype of the supplied numbers: every numeric field of the run records (efix scalar / per detector, en 1-d / 2-d in
    #    either dim order, the five angles), of the source frequency and of the histogram metadata (img_scales, img_range,
    #    offsets; int32 n_bins / dax) as float64 / float32 / int32 / int64, uniformly and mixed, in convertible units
    k = 0
    for dt in S.NUM_DTYPES + ['mixed']:
        for en2d in (False, True):
            for n_runs in ((1, 3, 20) if tier == 'quick' else (1, 2, 3, 5, 20)):
                k += 1
                pc = S.gen_pix_call(rng, rng.choice([2, 5]), n_runs=n_runs, convert=False, en2d=en2d, dtypes=dt)
                if n_runs >= 3:        # make sure both a scalar and a per-detector efix and both modes occur
                    pc['experiments'][0] = S.gen_experiment(rng, pc['experiments'][0]['run_id'], indirect=True, en2d=en2d, dtypes=dt)
                    pc['experiments'][1] = S.gen_experiment(rng, pc['experiments'][1]['run_id'], indirect=False, dtypes=dt)
                calls = [pc] + [S.gen_call(rng, kd, dtypes=dt) for kd in rng.sample(['inst', 'samp', 'dnd', 'det'], rng.randrange(0, 5))]
                rng.shuffle(calls)
                cases.append(S.mk_case(rng, calls, byteorder=bos[k % 3], sink=sinks[k % 3], chunk=rng.choice([None, 1, 3]),
                                       tags=['dtypes', 'dtype:' + dt]))
    for dt in S.NUM_DTYPES[1:]:
        cases.append(S.mk_case(rng, [S.gen_dnd_call(rng, dtypes=dt), S.gen_inst_call(rng, dtypes=dt)], tags=['dtypes', 'dtype:' + dt]))
    # 8. dtype of the pixel rows: float32 momenta / energies (documented unit), int32 / int64 / float32 index rows;
    #    all nine rows float32 (pixels taken over from an existing SQW file, which stores every row as float32)
    for n, chunk in ((1, None), (9, 2), (10, 9), (64, 8192), (65, 64), (1000, 1)):
        cases.append(S.mk_case(rng, [S.gen_pix_call(rng, n, convert=rng.random() < 0.5, row_dtypes='narrow'), S.gen_dnd_call(rng)],
                               chunk=chunk, tags=['row-dtypes']))
    for n, chunk in ((3, None), (20, 7)):
        cases.append(S.mk_case(rng, [S.gen_pix_call(rng, n, row_dtypes='all-f32', dtypes='float64')], chunk=chunk,
                               sink='bytesio' if n == 3 else 'file', tags=['row-dtypes', ALL_F32]))
    if tier == 'thorough':
        for seq in S.all_sequences():
            for bo in bos:
                calls = [S.gen_call(rng, k, n=rng.choice([0, 5, 20, 33])) for k in seq]
                cases.append(S.mk_case(rng, calls, byteorder=bo, chunk=rng.choice([1, 3, 9, 10, 32, None]), tags=['sequence']))
    for i, c in enumerate(cases):
        c['id'] = i
    return cases


def field_dtype_counts(cases):
    """measured: how many generated calls supplied each numeric field in each dtype"""
    out = {}
    for c in cases:
        for cl in c['calls']:
            for f, dts in S.field_dtypes(cl).items():
                f = re.sub(r'\.\d+$', '', f)
                for dt in (dts if isinstance(dts, list) else [dts]):
                    out.setdefault(f, {}).setdefault(dt, 0)
                    out[f][dt] += 1
    return out


def correspondence(ctx):
    rng = random.Random(ctx.seed)
    cases = gen_cases(rng, ctx.tier)
    t0 = time.time()
    results = S.run_harness(ctx, cases)
    t_impl = time.time() - t0
    small_terms, small_idx, big_terms, big_idx = [], [], [], []
    raised = 0
    for c, r in zip(cases, results):
        if 'error' in r:
            raised += 1
            ctx.violation('create-raises:' + r['error']['type'],
                          f'SqwBuilder raised {r["error"]["type"]}: {r["error"]["msg"]} on {S.describe(c)}',
                          {'case': c, 'error': r['error']})
            continue
        term = S.case_term(c, r, with_convs=False, with_reader_view=False)
        if r['size'] > 60000:
            big_terms.append(term)
            big_idx.append(c['id'])
        else:
            small_terms.append(term)
            small_idx.append(c['id'])
    footer = lambda k: 'Eval vm_compute in (report (map (check_c12 src_block_order src_loop_bound) cases)).\n'  # noqa: E731
    fails = {}
    errors = []
    if small_terms:
        f1, e1 = ctx.coq_eval_shards(S.HEADER, small_terms, footer, shard=40, prefix='cases')
        fails.update({small_idx[i]: why for i, why in f1.items()})
        errors += e1
    if big_terms:
        f2, e2 = ctx.coq_eval_shards(S.HEADER, big_terms, footer, shard=1, prefix='bigcases')
        fails.update({big_idx[i]: why for i, why in f2.items()})
        errors += e2
    for name, e in errors:
        ctx.violation('corr-shard-error', f'correspondence shard {name} did not evaluate: {e[:300]}',
                      {'shard': name, 'error': e}, found_input=False)
    by_key = {}
    for cid, why in fails.items():
        for part in why.split('+'):
            key = S.norm_reason(part)
            if ALL_F32 in cases[cid]['tags']:
                # a separate input class with its own keys: a failure here never stands for (or hides) one of another class
                key = ALL_F32 + ':' + key
            if key not in by_key or S.case_size(cases[cid]) < S.case_size(cases[by_key[key][0]]):
                by_key[key] = (cid, why)
    for key, (cid, why) in sorted(by_key.items()):
        c, r = cases[cid], results[cid]
        st = S.py_structure(bytes.fromhex(r['file_hex']))
        ctx.violation(key, f'SQW file written for {S.describe(c)} fails [{why}]: size {r["size"]} bytes; '
                           f'table {[(d["name"], d["position"], d["size"]) for d in st["descs"]]}; {st["problems"]}',
                      {'case': c, 'reason': why, 'file_size': r['size'], 'structure': st})
    seen = set()
    for c, r in zip(cases, results):
        if 'error' in r:
            continue
        seen.add((tuple(cl['kind'] for cl in c['calls']), c['byteorder'], c['sink'], S.case_size(c), c['chunk'],
                  len(c['title']), r['size']))
    nontrivial = {s for s in seen if s[0]}
    ctx.coverage.update({
        'evaluations': len(cases),
        'distinct_nontrivial': len(nontrivial),
        'rule': 'files written by the real SqwBuilder and compared byte for byte with the Coq writer model, then checked by the '
                'independent decoder, inside Coq: all 326 orderings x subsets of the 5 builder calls; pixel count {0,1,2,7,8,9,10,63,'
                '64,65,1000,3000,10000} x chunk {1,2,8,9,10,N-1,N,N+1,8192,default}; byte order native/little/big; BytesIO and real '
                'files; 1..20 runs; string lengths 0/1/255/256/70000; repeated calls; every numeric field of the run records (efix '
                'scalar/per detector, en 1-d/2-d, psi, omega, dpsi, gl, gs), the source frequency and the histogram metadata '
                '(img_scales, img_range, offsets, n_bins, dax) as float64/float32/int32/int64 (uniform per file and mixed per field, '
                '40% non-float64 in every other class too) in units convertible to the documented ones; pixel rows float32 / int32 / '
                'int64 / all nine float32; non-trivial = at least one builder call, '
                'distinct = distinct (call kinds, byte order, sink, N, chunk, title length, file size)',
        'samples': [S.describe(cases[i]) for i in (0, 17, 330, 400, len(cases) - 1) if i < len(cases)],
        'disagreements': len(fails),
        'create_raised': raised,
        'bytes_compared': sum(r.get('size', 0) for r in results),
        'impl_seconds': round(t_impl, 1),
        'per_tag': {t: sum(1 for c in cases if t in c['tags']) for t in ('sequence', 'grid', 'big', 'strings', 'runs', 'repeat', 'dnd-shape', 'dtypes', 'row-dtypes')},
        'field_dtypes': field_dtype_counts(cases),
    })


def search_cases(rng, broken):
    """inputs for the direct evaluation of the property statement: the pixel-count x chunk grid, every ordering of >= 4
    builder calls, and every dtype class of the supplied numbers (run records, source, histogram metadata, pixel rows);
    the classes that exercise a file named in a broken `exercise:` obligation come first and are drawn more often"""
    names = ' '.join(broken or [])
    models = '_models.py' in names or '_ir.py' in names or '_read_write.py' in names or not names
    cases = []
    for n in (1, 2, 9, 10, 11, 20, 100, 10000):
        for chunk in (1, 2, 3, 9, 10, None):
            cases.append(S.mk_case(rng, [S.gen_pix_call(rng, n, convert=False, n_runs=1)], sink='bytesio', chunk=chunk, tags=['search']))
    for seq in [s for s in S.all_sequences() if len(s) >= 4]:
        cases.append(S.mk_case(rng, [S.gen_call(rng, k, n=2) for k in seq], sink='bytesio', chunk=None, tags=['search-order']))
    for rep in range(3 if models else 1):
        for dt in S.NUM_DTYPES + ['mixed']:
            for en2d in (False, True):
                for n_runs in (1, 3, 20):
                    pc = S.gen_pix_call(rng, 3, n_runs=n_runs, convert=False, en2d=en2d, dtypes=dt)
                    if n_runs >= 3:
                        pc['experiments'][0] = S.gen_experiment(rng, pc['experiments'][0]['run_id'], indirect=True, en2d=en2d, dtypes=dt)
                        pc['experiments'][1] = S.gen_experiment(rng, pc['experiments'][1]['run_id'], indirect=False, dtypes=dt)
                    calls = [pc] + [S.gen_call(rng, kd, dtypes=dt) for kd in ('inst', 'samp', 'dnd', 'det') if rng.random() < 0.6]
                    rng.shuffle(calls)
                    cases.append(S.mk_case(rng, calls, chunk=rng.choice([None, 1, 2]), tags=['search-dtypes', 'dtype:' + dt]))
    for n, chunk in ((1, None), (9, 2), (20, 3), (64, 8192)):
        cases.append(S.mk_case(rng, [S.gen_pix_call(rng, n, convert=n % 2 == 0, row_dtypes='narrow')], chunk=chunk, tags=['search-rows']))
    for L in (0, 1, 256):
        pc = S.gen_pix_call(rng, 2, n_runs=2)
        pc['experiments'][0]['filename'] = S.ascii_string(rng, L)
        inst = S.gen_inst_call(rng)
        inst['name'] = S.ascii_string(rng, L)
        cases.append(S.mk_case(rng, [pc, inst, S.gen_samp_call(rng), S.gen_dnd_call(rng)], title=S.ascii_string(rng, L), tags=['search-strings']))
    for i, c in enumerate(cases):
        c['id'] = i
    return cases


def statement_problems(c, r):
    """the property statement on one produced file: [(key, text)] — header / re-opened byte order, table once, extents
    tile the file to EOF, every extent holds a block of the declared type that decodes completely within it"""
    st = S.py_structure(bytes.fromhex(r['file_hex']))
    out = []
    for p in st['problems']:
        if 'last extent ends' in p:
            key = 'format:extent:last-extent-ends-beyond-end-of-file'
        elif p.startswith('block '):
            key = 'format:block:object-does-not-decode-within-extent'
        else:
            key = 'structure:' + p.split(' ')[0]
        out.append((key, p))
    want = c['byteorder'] if c['byteorder'] != 'native' else r.get('native')
    if st['byteorder'] != want:
        out.append(('byteorder-not-recognised', f'written as {want}, the first length field reads as {st["byteorder"]}'))
    info = r.get('reader', {}).get('info')
    if info is None:
        out.append(('reader-open-failed', str(r.get('reader', {}).get('open_error'))))
    else:
        if info['byteorder'] != want:
            out.append(('reader-byteorder', f'written as {want}, re-opened as {info["byteorder"]}'))
        if info['prog_name'] != 'horace' or info['prog_version_bits'] != 0x4010000000000000:
            out.append(('reader-file-header', f'{info["prog_name"]} {info["prog_version_bits"]:#x}'))
        if [tuple(n) for n in info['block_names']] != [tuple(d['name']) for d in st['descs']]:
            out.append(('reader-block-names', f'{info["block_names"]} vs table {[d["name"] for d in st["descs"]]}'))
    return st, out


def search(ctx, broken):
    """an obligation broke: evaluate the property's own statement (header, byte order, table lists each block once, extents
    tile the file to EOF, each extent decodes completely as a block of its declared type, names independent of the call
    order) on files written by the implementation, no model involved"""
    rng = random.Random(ctx.seed + 12)
    cases = search_cases(rng, broken)
    results = S.run_harness(ctx, cases)
    found = []
    names_by_set = {}
    reported = set()
    for c, r in sorted(zip(cases, results), key=lambda cr: (S.case_size(cr[0]), len(json.dumps(cr[0])))):
        if 'error' in r:
            key = 'create-raises:' + r['error']['type']
            if key not in reported:
                reported.add(key)
                ctx.violation(key, f'SqwBuilder raised {r["error"]["type"]}: {r["error"]["msg"]} on {S.describe(c)}',
                              {'case': c, 'error': r['error']})
                found.append(c)
            continue
        st, probs = statement_problems(c, r)
        for key, text in probs:
            if key in reported:
                continue
            reported.add(key)
            ctx.violation(key, f'file written for {S.describe(c)}: {text} (all: {[t for _, t in probs][:4]})',
                          {'case': c, 'structure': st, 'file_size': r['size']})
            found.append(c)
    for c, r in zip(cases, results):
        if 'error' in r or 'search-order' not in c['tags']:
            continue
        st = S.py_structure(bytes.fromhex(r['file_hex']))
        k = frozenset(cl['kind'] for cl in c['calls'])
        names = [tuple(d['name']) for d in st['descs']]
        if k in names_by_set and names_by_set[k][0] != names:
            ctx.violation('bat-order', f'table order depends on the call order: {names_by_set[k][1]} -> {names_by_set[k][0]}, '
                                       f'{[cl["kind"] for cl in c["calls"]]} -> {names}', {'case': c, 'names': names})
            found.append(c)
            break
        names_by_set.setdefault(k, (names, [cl['kind'] for cl in c['calls']]))
    ctx.coverage['search'] = {'files': len(cases), 'per_tag': {t: sum(1 for c in cases if t in c['tags']) for t in
                                                              ('search', 'search-order', 'search-dtypes', 'search-rows', 'search-strings')},
                              'problem_keys': sorted(reported)}
    return found


def replay(ctx, obj):
    rep = obj['replay']
    case = rep.get('case')
    if case is None:
        print(json.dumps(obj, indent=1)[:3000])
        return 0
    case = dict(case)
    case['id'] = 0
    r = ctx.run_impl('sqw_impl.py', {'cases': [{k: v for k, v in case.items() if k != 'tags'}]})['cases'][0]
    print('case:', json.dumps(S.describe(case)))
    if 'error' in r:
        print('SqwBuilder raised', r['error'])
        return 1
    st = S.py_structure(bytes.fromhex(r['file_hex']))
    print('file size', r['size'])
    for d in st['descs']:
        print('  block', d['name'], d['type'], 'position', d['position'], 'size', d['size'], 'end', d['position'] + d['size'])
    print('required: extents start after the table, are contiguous and the last one ends at', r['size'])
    print('observed problems:', st['problems'] or 'none')
    print('reader:', r.get('reader', {}).get('errors'))
    return 1 if st['problems'] else 0
