"""C14 — CIF output is valid CIF 1.1 and parses back to exactly what was supplied.

Static Coq (coq/C14): Cif11.v (independent CIF 1.1 lexer/parser), Writer.v (hand model of cif.py's writer,
quoting rule swappable: Rcurrent / Rfixed), Proofs*.v (write_then_parse for both rules, refutation witnesses
for the current rule, comments_do_not_leak, ascii_only, author_ids_consistent, loop_shape), Check.v (executable
checker + model of the high-level builder).
Per run: pre_build writes GenCorpus.v (what the real package writes for a boundary corpus of strings),
coq-run/C14/Tie.v decides inside Coq which quoting rule the source implements, Properties.v states the
theorems (the full one holds iff the source has the repaired rule), and the correspondence lets Coq compare
text written by the real package with the model and parse it back with the independent parser.
Comments are supplied at every entry point with lines far beyond the CIF 1.1 line limit (2040..2060, 5000, 50000
characters) and with thousands of lines: the model writes them unwrapped (comments_do_not_leak holds for every length).
"""
import json
import os
import random
import re
from fractions import Fraction

ID = 'C14'
LEVEL = 'proof'
TRANSLATE = None
GEN_FILES = ['GenCorpus.v']
RUN_FILES = ['Tie.v', 'Properties.v']
COQ_TIMEOUT = 600
TRUSTED = [
    'coq/C14/Cif11.v: the independent CIF 1.1 lexer/parser IS the specification of "valid CIF 1.1" (written from the '
    'IUCr grammar; LF line ends only; save frames, $-references and bracketed values rejected; line-length and '
    'name-length limits and uniqueness of tags/block codes not checked)',
    'coq/C14/Writer.v: hand model of cif.py (Chunk/Loop/Block.write, _write_comment for "\\n" line breaks only, '
    '_format_value string part, _encode_non_ascii, file heading, _assemble_authors/_serialize_authors/_serialize_roles); '
    'tied to the source by text equality on every generated document (correspondence) and by the boundary corpus (Tie.v)',
    'coq/C14/Check.v: model of the high-level builder (CIF.save order, _add_audit, with_beamline, reduced powder loop, '
    'calibration loop) and the decimal reading of number tokens',
    'oracles: str(float)/str(int)/compact value(su) formatting of scipp, datetime.isoformat (tokens taken from the parsed text, '
    'contract: characters 0-9 + - . e E ( ) non-empty), iteration order of the Python set of schemas',
    'tools/harness/c14_impl.py + props/C14.py (construction of the documents, serialisation of strings/rationals into Coq terms; '
    'strings above 1500 characters as `++` of literals and `rep n piece` runs, checked in Python to concatenate to the string)',
    'scipp: sc.stddevs = sqrt(variances) is checked numerically (token^2 = variance), not proved',
]
ASSUMPTIONS = [
    'strings are printable: ASCII 32..126, TAB, LF, or non-ASCII code points (escaped by the writer); other control '
    'characters (CR, FF, ...) are outside the property quantifier and not generated',
    'tags are well-formed (non-blank printable ASCII), block codes non-blank; loops have >= 1 column and >= 1 row',
    'numbers are finite; value(su) tokens are compared to printed precision plus 2^-50 relative slack for the '
    'floating-point evaluation of the rounding inside scipp',
    '"?" and "." are accepted as the strings "?" and "." (CIF reads them as unknown/inapplicable)',
]
LEVEL_TEXT = ('Proof (Coq, axiom-free): for every document of chunks, loops and blocks with well-formed tags and printable '
              'values that the repaired writer does not refuse, the independent CIF 1.1 parser applied to the model writer\'s '
              'text returns exactly the supplied tags, values (up to surrounding blanks), loop shapes and order; comments '
              'never produce tokens; escaping yields ASCII; author/role ids are consistent; loop rows are the transposed '
              'columns. For the unrepaired rule the same under the strong predicate P_current, each extra conjunct refuted '
              'by a witness. The model is tied to the source on every run by text equality and parse-back inside Coq over '
              'generated documents (low-level and builder) and a boundary corpus for the quoting rule.')
LEVEL_NOTE = ('Trusted: Coq kernel; the CIF 1.1 parser as specification; the hand model of the writer/builder (validated by '
              'correspondence each run); number formatting as an oracle (checked numerically per case). No axioms.')
TECHNIQUE = ('Coq proof over a hand-written executable model + independent parser; vm_compute correspondence '
             '(text equality and parse-back) against the real package; rule detection by boundary corpus')

PRINTABLE = set(range(32, 127)) | {9, 10}
SPECIAL_ALPHABET = ['_', '#', '$', '[', ']', ';', "'", '"', ' ', '\t', '\n', 'a', '.', '?']
KEYWORDS = ['loop_', 'LOOP_', 'Loop_', 'data_x', 'DATA_X', 'data_', 'global_', 'GLOBAL_', 'stop_', 'Stop_',
            'save_x', 'save_', 'SAVE_frame', 'loop_x', 'stop_it', 'global_x', 'loop', 'data', 'xloop_', 'a_loop_']
FACILITIES = ['ESS', 'ess', 'Ess', 'ISIS', 'isis', 'SNS', 'sns', 'CSNS', 'J-PARC', 'j-parc', 'LANSCEsinq',
              'ILL', 'PSI', 'FRM2', 'made up']
UNITS = ['one', 'counts', 'us', 'dimensionless', 'counts/us', 'angstrom']


# ------------------------------------------------------------------------------------------- Coq terms
def coq_lit(s):
    return '"' + s.replace('"', '""') + '"'


def is_plain(s):
    return all(ord(c) in PRINTABLE for c in s)


LIT_CHUNK = 1500          # longest string literal handed to coqc in one piece (longer ones overflow its stack)
_PERIODIC = re.compile(r'(.{1,40}?)\1{4,}', re.S)


def _segments(s):
    """a long string as segments ('lit', text) / ('rep', count, piece): periodic runs (long comment lines are mostly
    that) are written as `rep count piece`, everything else as literals of at most LIT_CHUNK characters.
    Pure serialisation: the concatenation of the segments is s (asserted)."""
    out, pos = [], 0
    for m in _PERIODIC.finditer(s):
        if m.end() - m.start() < 240:
            continue
        if m.start() > pos:
            out.append(('lit', s[pos:m.start()]))
        out.append(('rep', (m.end() - m.start()) // len(m.group(1)), m.group(1)))
        pos = m.end()
    if pos < len(s):
        out.append(('lit', s[pos:]))
    res = []
    for seg in out:
        if seg[0] == 'lit':
            res += [('lit', seg[1][i:i + LIT_CHUNK]) for i in range(0, len(seg[1]), LIT_CHUNK)]
        else:
            res.append(seg)
    assert ''.join(x[1] if x[0] == 'lit' else x[1] * x[2] for x in res) == s
    return res


def _long(s, one):
    return '(' + ' ++ '.join(one(x[1]) if x[0] == 'lit' else f'rep {x[1]}%N {one(x[2])}' for x in _segments(s)) + ')'


def _cps1(s):
    if is_plain(s):
        return f'(A {coq_lit(s)})'
    return '[' + '; '.join(str(ord(c)) for c in s) + ']%N'


def cps(s):
    """Python str -> Coq `list N` of code points"""
    return _cps1(s) if len(s) <= LIT_CHUNK else _long(s, _cps1)


def cstr(s):
    """ASCII str (tags) -> Coq str"""
    assert is_plain(s), s
    return f'(S {coq_lit(s)})'


def _ctext1(t):
    if is_plain(t):
        return f'(S {coq_lit(t)})'
    return '(map ascii_of_nat [' + '; '.join(str(b) for b in t.encode('utf-8', 'surrogatepass')) + ']%nat)'


def ctext(t):
    return _ctext1(t) if len(t) <= LIT_CHUNK else _long(t, _ctext1)


def cq(fr):
    fr = Fraction(fr)
    return f'({fr.numerator} # {fr.denominator})'


def cqf(h):
    return cq(Fraction(float.fromhex(h)))


def clist(xs):
    return '[' + '; '.join(xs) + ']'


def copt(x):
    return 'None' if x is None else f'(Some {x})'


def cschemas(spec, core, pd):
    if spec is None:
        return '[]'
    out = []
    for s in spec:
        t = core if s == 'core' else pd if s == 'pd' else s
        out.append(f'({cstr(t[0])}, {cstr(t[1])}, {cstr(t[2])})')
    return clist(out)


def ccell_val(v):
    if 's' in v:
        return f'CStr {cps(v["s"])}'
    if 'sv' in v:
        return f'CStr {cps(v["sv"])}'
    if 'i' in v:
        return f'CNum (NInt ({v["i"]}))'
    if 'iv' in v:
        return f'CNum (NInt ({v["iv"]}))'
    if 'f' in v:
        return f'CNum (NFloat {cqf(v["f"])})'
    if 'fv' in v:
        return f'CNum (NFloat {cqf(v["fv"])})'
    if 'fvar' in v:
        return f'CNum (NFloatVar {cqf(v["fvar"][0])} {cqf(v["fvar"][1])})'
    if 'dt' in v:
        y, mo, d, H, M, S_ = v['dt']
        return f'CStr {cps("%04d-%02d-%02dT%02d:%02d:%02d+00:00" % (y, mo, d, H, M, S_))}'
    raise ValueError(v)


def ccol(c):
    if 'strs' in c:
        return clist([f'CStr {cps(s)}' for s in c['strs']])
    if 'ints' in c:
        return clist([f'CNum (NInt ({i}))' for i in c['ints']])
    if 'floats' in c:
        return clist([f'CNum (NFloat {cqf(h)})' for h in c['floats']])
    if 'floats_var' in c:
        return clist([f'CNum (NFloatVar {cqf(a)} {cqf(b)})' for a, b in c['floats_var']])
    raise ValueError(c)


def coutcome(r):
    if 'text' in r:
        return f'(OText {ctext(r["text"])})'
    return f'(ORaise {coq_lit(r["error"])})'


def clow(doc, r, core, pd):
    blocks = []
    for b in doc['blocks']:
        items = []
        for it in b['items']:
            if it['type'] == 'chunk':
                sch = None if (it.get('as_dict') and not it.get('comment') and it.get('schema') is None) else it.get('schema')
                pairs = clist([f'({cstr(k)}, {ccell_val(v)})' for k, v in it['pairs']])
                items.append(f'UChunk (mkuchunk {cps(it.get("comment", ""))} {cschemas(sch, core, pd)} {pairs})')
            else:
                cols = clist([f'({cstr(k)}, {ccol(c)})' for k, c in it['columns']])
                items.append(f'ULoop (mkuloop {cps(it.get("comment", ""))} {cschemas(it.get("schema"), core, pd)} {cols})')
        blocks.append(f'mkublock {cps(b.get("comment", ""))} {cps(b["name"])} {cschemas(b.get("schema"), core, pd)} '
                      f'{clist(items)}')
    return f'mkucase {cps(doc.get("comment", ""))} {clist(blocks)} {coutcome(r)}'


def cbuilder(doc, r, unit_str):
    calls = []
    n_auth = 0
    for c in doc['calls']:
        k = c['c']
        if k == 'authors':
            ps = []
            for p in c['persons']:
                n_auth += 1
                orc = p.get('orcid') or ''
                if orc and not orc.startswith('https://'):
                    orc = 'https://orcid.org/' + orc
                ps.append(f'mkup {cps(p["name"])} {cps(p.get("email") or "")} {cps(p.get("address") or "")} '
                          f'{cps(orc)} {cps(p.get("role") or "")} {"true" if p.get("corresponding") else "false"}')
            calls.append(f'BAuthors {clist(ps)}')
        elif k == 'reducers':
            calls.append(f'BReducers {clist([cps(x) for x in c["list"]])}')
        elif k == 'beamline':
            fac = c.get('facility')
            calls.append(f'BBeamline {cps(c["name"])} {copt(None if fac is None else cps(fac))} '
                         f'{copt(None if c.get("source") is None else str(c["source"]) + "%nat")} {cps(c.get("comment", ""))}')
        elif k == 'powder':
            us = unit_str[c.get('unit', 'one')]
            unit = None if c.get('unit', 'one') in ('one', 'dimensionless') else cps(us)
            calls.append('BPowder %s %s %s %s %s %s %s %s' % (
                'true' if c['dim'] == 'tof' else 'false',
                copt(None if not c.get('name') else cstr(c['name'])),
                clist([cqf(h) for h in c['coord']]),
                copt(None if not c.get('coord_var') else clist([cqf(h) for h in c['coord_var']])),
                clist([cqf(h) for h in c['data']]),
                copt(None if not c.get('data_var') else clist([cqf(h) for h in c['data_var']])),
                copt(unit), cps(c.get('comment', ''))))
        elif k == 'calib':
            calls.append('BCalib %s %s %s %s' % (
                clist([f'({p})%Z' for p in c['powers']]), clist([cqf(h) for h in c['coeffs']]),
                copt(None if not c.get('var') else clist([cqf(h) for h in c['var']])), cps(c.get('comment', ''))))
    # CIF._assemble_authors creates a fresh id generator on every call (since /repo 54bf630): the ids of every
    # save start at 1.  The starting state is not part of the property (ids must be consistent within ONE file, for any
    # starting state): Check.check_builder reads the first id from the text and uses this value only as default.
    first = 1
    comment = doc['override_comment'] if doc.get('override_comment') else doc.get('comment', '')
    return f'mkbcase {cps(doc["name"])} {cps(comment)} {clist(calls)} {first} {coutcome(r)}'


def header(res, tie=True):
    core, pd = res['core'], res['pd']
    tie_txt = ('From Run Require Import Tie.\n' if tie else
               '(* Tie.v did not compile on this run: the repaired rule is the reference *)\n'
               'Definition Rimpl := Rfixed.\nDefinition Pimpl := P_fixed.\n'
               'Module Tie.\nDefinition is_fixed := false.\nDefinition is_current := false.\nEnd Tie.\n')
    return ('From Coq Require Import String Ascii List Bool Arith NArith ZArith QArith.\n'
            'From Verif.Sem Require Import Corr.\n'
            'From Verif.C14 Require Import Cif11 Writer ProofsLex ProofsDoc ProofsRules ProofsMisc Check.\n'
            'Import ListNotations.\nOpen Scope string_scope.\nOpen Scope list_scope.\n'
            '(* serialisation of long strings (props/C14.py:_segments): count copies of a piece *)\n'
            'Definition rep {X : Type} (n : N) (l : list X) : list X := N.iter n (fun acc => l ++ acc) [].\n' + tie_txt +
            f'Definition core : schema := ({cstr(core[0])}, {cstr(core[1])}, {cstr(core[2])}).\n'
            f'Definition pd : schema := ({cstr(pd[0])}, {cstr(pd[1])}, {cstr(pd[2])}).\n'
            f'Definition version : list N := {cps(res["version"])}.\n'
            f'Definition spallation : list str := {clist([cstr(x.lower()) for x in res["spallation"]])}.\n')


# ------------------------------------------------------------------------------------------- generators
EXEMPLARS = {
    'lead-underscore': ['_tag', '_', '_a.b'],
    'lead-hash': ['#c', '#', '#a#'],
    'lead-dollar': ['$x', '$'],
    'lead-bracket-open': ['[a]', '['],
    'lead-bracket-close': [']a', ']'],
    'lead-semicolon': [';abc', ';', ';a;'],
    'tab': ['a\tb', 'a\t', '\tb', '\t'],
    'keyword': ['loop_', 'data_x', 'global_', 'stop_', 'save_x', 'LOOP_', 'Data_y', 'save_', 'loop_x', 'stop_it',
                'global_x', 'data_'],
    'newline-semicolon': ['a\n;b', 'x\n;', 'l1\nl2\n;l3\nl4'],
    'newline': ['a\nb', 'a\n', '\na', '\n', 'a\n\nb', 'l1\n l2\n\tl3', 'x\n_y', 'x\n#y', 'x\n\'y\'', 'a\n ;b'],
    'quotes': ["it's", 'say "hi"', "a' b", 'a" b', "'", '"', "'a'", '"a"', "both ' and \" here", "end'", "x' 'y",
               'x" "y', "a'b c'd", "' lead"],
    'missing': ['?', '.', '??', '..'],
    'empty': [''],
    'blank': [' ', '  a', 'a  ', ' a b '],
    'non-ascii': ['\xb5', '\xc5ngstr\xf6m', 'caf\xe9 au lait', '\u4e2d\u6587', '\U0001f600', 'a\xa0b', '\xb5\n\xc5', "\xe9'\"",
                  '_\xb5', '\xb5 #'],
    'backslash': ['a\\b', '\\xb5', '\\', 'C:\\dir\\f'],
    'semicolon-inside': ['a;b', 'a;', 'x ;y'],
    'benign': ['neutron', 'Jane Doe', 'https://orcid.org/0000-0000-0000-0001', 'jane.doe@ess.eu', 'x', '42', '1.5(2)',
               'a_b', 'a#b', 'a$b', 'a[1]', 'a-b', 'P 21/c', '2023-12-01T15:09:45+00:00', 'data', 'loop', '-', '+1', 'a.b'],
}
F6_CLASSES = ['lead-underscore', 'lead-hash', 'lead-dollar', 'lead-bracket-open', 'lead-bracket-close', 'lead-semicolon',
              'tab', 'keyword', 'newline-semicolon']


def classify(s):
    """input class of a string value (used only to name failure classes)"""
    if '\n;' in s:
        return 'newline-semicolon'
    if '\n' in s:
        return 'newline'
    if "'" in s or '"' in s:
        return 'quotes'
    if s == '':
        return 'empty'
    if ' ' in s:
        return 'blank'
    # from here on the unrepaired rule writes the value without quotes
    if '\t' in s:
        return 'tab'
    lead = {'_': 'lead-underscore', '#': 'lead-hash', '$': 'lead-dollar', '[': 'lead-bracket-open',
            ']': 'lead-bracket-close', ';': 'lead-semicolon'}
    if s[0] in lead:
        return lead[s[0]]
    if s.lower().startswith(('data_', 'loop_', 'save_', 'global_', 'stop_')):
        return 'keyword'
    if any(ord(c) > 126 for c in s):
        return 'non-ascii'
    if s in ('?', '.'):
        return 'missing'
    if '\\' in s:
        return 'backslash'
    if ';' in s:
        return 'semicolon-inside'
    return 'benign'


RANDOM_ALPHABET = list("abcXYZ019 _#$[];'\"\t\n.?-+/\\(){}<>=:,!%&*@^`|~") + ['\xb5', '\xe9', '\u4e2d', ' ', ' ', 'a', 'b']


def gen_string(rng, allow_nlsemi=True):
    r = rng.random()
    if r < 0.55:
        weights = {'benign': 6, 'quotes': 3, 'newline': 2, 'non-ascii': 2, 'blank': 1, 'empty': 1, 'missing': 1,
                   'backslash': 1, 'semicolon-inside': 1, 'newline-semicolon': 0.25 if allow_nlsemi else 0}
        for k in F6_CLASSES:
            weights.setdefault(k, 1.2)
        ks = list(weights)
        k = rng.choices(ks, [weights[x] for x in ks])[0]
        return rng.choice(EXEMPLARS[k])
    if r < 0.75:
        # a dangerous lead + benign tail / a keyword with random case
        lead = rng.choice(['_', '#', '$', '[', ']', ';', "'", '"', 'loop_', 'data_', 'global_', 'stop_', 'save_'])
        if rng.random() < 0.3:
            lead = ''.join(c.upper() if rng.random() < 0.5 else c for c in lead)
        tail = ''.join(rng.choice('abc012._-') for _ in range(rng.randint(0, 5)))
        return lead + tail
    n = rng.randint(1, 12)
    s = ''.join(rng.choice(RANDOM_ALPHABET) for _ in range(n))
    if not allow_nlsemi:
        s = s.replace('\n;', '\n ;')
    return s


def gen_comment(rng, ascii_only=False):
    r = rng.random()
    if r < 0.45:
        return ''
    if r < 0.6:
        return rng.choice(['a comment', 'This is a demo of the CIF builder.', 'x'])
    if r < 0.8:
        return rng.choice(['two\nlines', 'three\n\nlines', 'trailing\n', '\n', ' lead\n  indent', 'tab\there',
                           '_tag 1\nloop_\n_a\n1', "; text\n;", 'data_evil', "it's #not 'a' \"comment\"", '#', '# already'])
    c = '\n'.join(gen_string(rng, True) for _ in range(rng.randint(1, 3)))
    if ascii_only:
        c = ''.join(ch if ord(ch) < 127 else 'u' for ch in c)
    return c


# ---- long comments: lines far beyond any line-length limit a writer may know of (80, 132, 1024, 2048 = CIF 1.1, 4096),
# and comments of very many lines.  The property does not bound the length of a comment; whatever the writer does with
# a long line (it writes it as it is today), every physical line of it must stay a comment.
LONG_NOBLANK = ['x', 'ab', 'abc123', 'provenance/', '0123456789', '_tag', "it's", '#', ';', 'loop_', 'a.b-c']
LONG_WORDS = ['processed by step 17; ', 'a b ', 'normalised to monitor 2, ', 'x ', ' ', '\t', 'a\tb ',
              'data_evil _x 1 loop_ _a 1 ', "_tag 'v' ", 'mantid 6.9 -> scipp 24.6 ', '; text ', '# ']
LONG_NONASCII = ['\xb5s ', 'caf\xe9', '\u4e2d\u6587 ']
LONG_WIDTHS = [72, 79, 80, 81, 100, 120, 132, 133, 255, 256, 257, 1000, 1023, 1024, 1025, 4095, 4096, 4097]
CIF_WIDTHS = list(range(2040, 2061))
LONG_STYLES = ['noblank', 'words', 'mixed', 'random']
COMMENT_SHAPES = ['single', 'first', 'middle', 'last', 'last-trailing-nl', 'two-long']
WORD_ALPHABET = 'abcdefghijklmnopqrstuvwxyzABCXYZ0123456789_#$;.,:/-+()[]\'"'


def long_line(rng, n, style, ascii_only=True):
    """one comment line (no line break) of exactly n characters"""
    if style == 'noblank':
        p = rng.choice(LONG_NOBLANK)
        return (p * (n // len(p) + 1))[:n]
    if style == 'words':
        p = rng.choice(LONG_WORDS + ([] if ascii_only else LONG_NONASCII))
        return (p * (n // len(p) + 1))[:n]
    if style == 'mixed':          # several stretches, with and without blanks
        out = ''
        while len(out) < n:
            p = rng.choice(LONG_NOBLANK + LONG_WORDS + ([] if ascii_only else LONG_NONASCII))
            k = min(n - len(out), rng.choice([n // 7 + 1, n // 3 + 1, 300, 2046, 2047, 2048]))
            out += (p * (k // len(p) + 1))[:k]
        return out[:n]
    out = []                      # 'random': words of 1..12 characters, single blanks, not periodic
    total = 0
    while total < n:
        w = ''.join(rng.choice(WORD_ALPHABET) for _ in range(rng.randint(1, 12)))
        out.append(w)
        total += len(w) + 1
    return ' '.join(out)[:n]


def long_comment(rng, n, style, shape='single', ascii_only=True):
    """a comment with (at least) one line of n characters, at the given place among short lines"""
    ln = long_line(rng, n, style, ascii_only)
    short = ['a short line', 'x', '', ' indented', '_tag 1', 'loop_']
    if shape == 'single':
        return ln
    if shape == 'first':
        return ln + '\n' + rng.choice(short) + '\n' + rng.choice(short)
    if shape == 'middle':
        return rng.choice(short) + '\n' + ln + '\n' + (rng.choice(short) or 'end')
    if shape == 'last':
        return (rng.choice(short) or 'x') + '\n' + ln
    if shape == 'last-trailing-nl':
        return rng.choice(short) + '\n' + ln + '\n'
    return ln + '\n' + long_line(rng, n + rng.choice([-1, 0, 1, 7]), rng.choice(LONG_STYLES[:3]), ascii_only)


def many_line_comment(rng, k, numbered):
    """k short lines; numbered lines are all distinct"""
    if numbered:
        return '\n'.join(f'{i}: {rng.choice(["reduced", "_x 1", "loop_", "", "normalised by monitor"])}' for i in range(k))
    p = rng.choice(['same line', '', '_x 1', 'loop_', ' ', 'x'])
    return '\n'.join([p] * k) + rng.choice(['', '\n'])


def gen_long_comment(rng, ascii_only=True, cheap=True):
    """random member of the class: the line length concentrated at the CIF 1.1 limit and at other limits a writer may
    know of, else log-uniform up to 50000; sometimes very many lines.  cheap: no 'random' style above 6000 characters
    (their text cannot be written compactly for Coq)"""
    r = rng.random()
    if r < 0.12:
        k = rng.choice([60, 100, 257, 1000, 3000])
        return many_line_comment(rng, k, numbered=k <= 257 and rng.random() < 0.5)
    if r < 0.50:
        n = rng.choice(CIF_WIDTHS)
    elif r < 0.62:
        n = rng.choice(LONG_WIDTHS) + rng.choice([-2, -1, 0, 0, 1, 2, 3])
    elif r < 0.77:
        n = 5000
    elif r < 0.84:
        n = 50000
    else:
        n = int(loguniform(rng, 60, 50000))
    style = rng.choice(LONG_STYLES)
    if style == 'random' and cheap and n > 6000:
        style = 'mixed'
    return long_comment(rng, n, style, rng.choice(COMMENT_SHAPES), ascii_only)


def comment_slots(doc):
    """every place of a document where a comment can be supplied: (entry point, container, key)"""
    if doc['kind'] == 'low':
        yield 'save_cif(blocks, comment=)', doc, 'comment'
        for b in doc['blocks']:
            yield 'Block(comment=)', b, 'comment'
            for it in b['items']:
                yield ('Chunk(comment=)' if it['type'] == 'chunk' else 'Loop(comment=)'), it, 'comment'
        return
    yield 'CIF(comment=)', doc, 'comment'
    calls = []
    if doc['kind'] == 'builder':
        yield 'save_cif(builder, comment=)', doc, 'override_comment'
        calls = doc['calls']
    else:
        for op in doc['ops']:
            if op['op'] == 'derive':
                calls.append(op['call'])
            elif op['op'] == 'save' and op.get('via') == 'override':
                yield 'save_cif(builder, comment=)', op, 'comment'
            elif op['op'] == 'set_comment':
                yield 'CIF.comment = ', op, 'comment'
    for c in calls:
        if c['c'] in ('beamline', 'powder', 'calib'):
            yield {'beamline': 'with_beamline(comment=)', 'powder': 'with_reduced_powder_data(comment=)',
                   'calib': 'with_powder_calibration(comment=)'}[c['c']], c, 'comment'


def inject_long_comments(docs, rng, rate):
    """second pass over generated documents (own random stream, so the documents themselves do not depend on it):
    with probability `rate` one randomly chosen comment slot of a document receives a long comment"""
    hit = []
    for i, d in enumerate(docs):
        if rng.random() >= rate:
            continue
        slots = list(comment_slots(d))
        ep, box, key = rng.choice(slots)
        box[key] = gen_long_comment(rng, ascii_only=(ep == 'save_cif(blocks, comment=)' or rng.random() < 0.8))
        hit.append(i)
    return hit


def comment_class(c):
    """measured class of a supplied comment (coverage)"""
    if not c:
        return None
    lines = c.split('\n')
    m = max(len(x) for x in lines)
    width = ('line<=80' if m <= 80 else 'line 81..2039' if m < 2040 else 'line 2040..2046' if m <= 2046 else
             'line 2047..2060' if m <= 2060 else 'line 2061..5000' if m <= 5000 else 'line 5001..49999' if m < 50000
             else 'line>=50000')
    if len(lines) >= 50:
        width += ', >=50 lines'
    return width


def _low_with(ep, c):
    """a small low-level document (two blocks, a chunk and a loop) with comment c at entry point ep"""
    d = {'kind': 'low', 'comment': '', 'blocks': [
        {'name': 'b1', 'comment': '', 'schema': ['core'], 'items': [
            {'type': 'chunk', 'comment': '', 'schema': None, 'as_dict': False, 'pairs': [['a.b', {'s': 'v w'}], ['a.c', {'i': 3}]]},
            {'type': 'loop', 'comment': '', 'schema': None, 'columns': [['l.a', {'strs': ['p', 'q r']}], ['l.b', {'ints': [1, 2]}]]}]},
        {'name': 'b2', 'comment': '', 'schema': None, 'items': [
            {'type': 'chunk', 'comment': '', 'schema': None, 'as_dict': False, 'pairs': [['z', {'s': 'last'}]]}]}]}
    if ep == 'file':
        d['comment'] = c
    elif ep == 'block':
        d['blocks'][0]['comment'] = c
    elif ep == 'block2':
        d['blocks'][1]['comment'] = c
    elif ep == 'chunk':
        d['blocks'][0]['items'][0]['comment'] = c
    elif ep == 'loop':
        d['blocks'][0]['items'][1]['comment'] = c
    elif ep == 'chunk-last':
        d['blocks'][1]['items'][0]['comment'] = c
    else:
        raise ValueError(ep)
    return d


def _builder_with(ep, c):
    """a small builder document with comment c at entry point ep"""
    calls = [{'c': 'beamline', 'name': 'DREAM', 'facility': 'ESS', 'source': None, 'comment': ''},
             {'c': 'powder', 'dim': 'tof', 'name': None, 'coord': [hx(1.0), hx(2.5)], 'coord_var': None,
              'data': [hx(13.6), hx(26.0)], 'data_var': [hx(0.81), hx(1.0)],
              'unit': 'counts' if ep == 'powder-unit' else 'one', 'comment': ''},
             {'c': 'calib', 'powers': [0, 1], 'coeffs': [hx(1.2), hx(4.5)], 'var': None, 'comment': ''}]
    d = {'kind': 'builder', 'name': 'reduced', 'comment': '', 'calls': calls, 'saves': 1, 'override_comment': None}
    if ep == 'cif':
        d['comment'] = c
    elif ep == 'override':
        d['comment'], d['override_comment'] = 'replaced', c
    elif ep == 'beamline':
        calls[0]['comment'] = c
    elif ep in ('powder', 'powder-unit'):
        calls[1]['comment'] = c
    elif ep == 'calib':
        calls[2]['comment'] = c
    else:
        raise ValueError(ep)
    return d


LOW_EPS = ['file', 'block', 'block2', 'chunk', 'loop', 'chunk-last']
BLD_EPS = ['cif', 'override', 'beamline', 'powder', 'powder-unit', 'calib']


def long_comment_probes(rng, widths, every_ep_widths=(), many_lines=(), random_style_widths=()):
    """(label, doc, description): long comments at every entry point.  `widths`: each width once at a low-level and
    once at a builder entry point (entry point, style and place among short lines rotate); `every_ep_widths`: at every
    entry point; `many_lines`: line counts; `random_style_widths`: non-periodic text"""
    out = []
    n = 0

    def add(kind, ep, c, desc):
        d = _low_with(ep, c) if kind == 'low' else _builder_with(ep, c)
        label = 'comment:many-lines' if desc.startswith('many') else 'comment:long-line'
        out.append((label, d, f'{ep} comment, {desc}'))

    for w in widths:
        for kind, eps in (('low', LOW_EPS), ('builder', BLD_EPS)):
            style, shape = LONG_STYLES[n % 3], COMMENT_SHAPES[(n // 3) % len(COMMENT_SHAPES)]
            add(kind, eps[n % len(eps)], long_comment(rng, w, style, shape), f'one line of {w} characters ({style}, {shape})')
            n += 1
    for w in every_ep_widths:
        for kind, eps in (('low', LOW_EPS), ('builder', BLD_EPS)):
            for ep in eps:
                style, shape = LONG_STYLES[n % 3], COMMENT_SHAPES[(n // 3) % len(COMMENT_SHAPES)]
                add(kind, ep, long_comment(rng, w, style, shape), f'one line of {w} characters ({style}, {shape})')
                n += 1
    for w in random_style_widths:
        for kind, eps in (('low', LOW_EPS), ('builder', BLD_EPS)):
            add(kind, eps[n % len(eps)], long_comment(rng, w, 'random', COMMENT_SHAPES[n % len(COMMENT_SHAPES)]),
                f'one line of {w} characters (random words)')
            n += 1
    for k in many_lines:
        for kind, eps in (('low', LOW_EPS), ('builder', BLD_EPS)):
            add(kind, eps[n % len(eps)], many_line_comment(rng, k, numbered=k <= 300), f'many lines ({k})')
            n += 1
    return out


TAG_CATS = ['cell', 'audit', 'diffrn_source', 'pd_meas', 'pd_proc', 'x', 'my-cat', 'exptl_crystal']
TAG_NAMES = ['a', 'length_a', 'angle_alpha', 'creation_method', 'id', 'value', 'name', 'k#1', "k'q", 'k;x', 'k$', 'k[0]',
             'UPPER', 'n_1', 'x-y', 'z"']


def gen_tags(rng, n):
    out = []
    while len(out) < n:
        t = rng.choice(TAG_CATS) + '.' + rng.choice(TAG_NAMES)
        if rng.random() < 0.1:
            t = rng.choice(TAG_NAMES)
        if t not in out:
            out.append(t)
    return out


def loguniform(rng, lo, hi):
    import math
    return math.exp(rng.uniform(math.log(lo), math.log(hi)))


SPECIAL_FLOATS = [0.0, -0.0, 5e-324, 1.7976931348623157e308, 1e22, 1e16, 1e-5, 0.1, 100.0, 123456789.123, 1e21, 9.999999e20,
                  -1.5, 2.675, 0.3, 1 / 3, 6.02214076e23, -2.2250738585072014e-308]


def gen_float(rng):
    r = rng.random()
    if r < 0.2:
        return rng.choice(SPECIAL_FLOATS)
    if r < 0.5:
        return round(rng.uniform(-1000, 1000), rng.randint(0, 6))
    x = loguniform(rng, 1e-300, 1e300) if r < 0.6 else loguniform(rng, 1e-6, 1e9)
    return -x if rng.random() < 0.3 else x


def gen_float_var(rng):
    x = gen_float(rng)
    while abs(x) > 1e100 or (x != 0 and abs(x) < 1e-100):
        x = gen_float(rng)
    r = rng.random()
    if r < 0.08:
        return x, 0.0
    scale = abs(x) if x != 0 else 1.0
    if r < 0.85:
        sigma = scale * loguniform(rng, 1e-9, 1e3)
    elif r < 0.93:
        sigma = scale * loguniform(rng, 1e-25, 1e-15)      # below the resolution of the value
    else:
        sigma = rng.choice([1.0, 2.0, 0.5, 0.1, 10.0, 0.25, 1e-3, 19.6, 0.95, 0.0949, 9.5])
    return x, sigma * sigma


def hx(x):
    return float(x).hex()


def gen_value(rng):
    r = rng.random()
    if r < 0.62:
        s = gen_string(rng)
        return {'s': s} if rng.random() < 0.7 else {'sv': s}
    if r < 0.72:
        i = rng.choice([0, 1, -1, 62, 93, 10 ** 15, -(2 ** 62), rng.randint(-10 ** 6, 10 ** 6)])
        return {'i': i} if rng.random() < 0.5 else {'iv': i, 'unit': rng.choice([None, 'deg', 'm'])}
    if r < 0.85:
        x = gen_float(rng)
        return {'f': hx(x)} if rng.random() < 0.5 else {'fv': hx(x), 'unit': rng.choice([None, 'deg', 'angstrom'])}
    if r < 0.97:
        x, var = gen_float_var(rng)
        return {'fvar': [hx(x), hx(var)], 'unit': rng.choice([None, 'deg', 'us'])}
    return {'dt': [rng.randint(1990, 2030), rng.randint(1, 12), rng.randint(1, 28), rng.randint(0, 23), rng.randint(0, 59),
                   rng.randint(0, 59)]}


def gen_schema(rng):
    r = rng.random()
    if r < 0.6:
        return None
    if r < 0.75:
        return ['core']
    if r < 0.85:
        return ['pd']
    if r < 0.93:
        return [['myDict', '1.0', 'https://example.org/my.dic']]
    return [['my dict', "v'1", 'https://example.org/a b.dic'], 'pd']


def gen_chunk(rng):
    n = rng.randint(1, 5)
    return {'type': 'chunk', 'comment': gen_comment(rng), 'schema': gen_schema(rng), 'as_dict': rng.random() < 0.4,
            'pairs': [[k, gen_value(rng)] for k in gen_tags(rng, n)]}


def gen_loop(rng, max_rows=50):
    ncol = rng.randint(1, 6)
    nrow = rng.choice([1, 1, 2, 3, 3, 5, 8, rng.randint(1, max_rows)])
    cols = []
    for k in gen_tags(rng, ncol):
        r = rng.random()
        if r < 0.5:
            cols.append([k, {'strs': [gen_string(rng) for _ in range(nrow)]}])
        elif r < 0.62:
            cols.append([k, {'ints': [rng.randint(-1000, 1000) for _ in range(nrow)]}])
        elif r < 0.8:
            cols.append([k, {'floats': [hx(gen_float(rng)) for _ in range(nrow)]}])
        else:
            cols.append([k, {'floats_var': [[hx(a), hx(b)] for a, b in (gen_float_var(rng) for _ in range(nrow))]}])
    return {'type': 'loop', 'comment': gen_comment(rng), 'schema': gen_schema(rng), 'columns': cols}


BLOCK_NAMES = ['a-block-name', 'x', 'my/name', 'utf-8\xb5', 'n#1', "q'uote", 'semi;colon', 'B_2', '_lead', '#hash', '$d',
               'data_inner', '[b]', '\u4e2d']


def gen_low(rng, max_rows=50):
    nb = rng.choice([1, 1, 1, 1, 2, 3])
    blocks = []
    for _ in range(nb):
        items = [gen_chunk(rng) if rng.random() < 0.55 else gen_loop(rng, max_rows) for _ in range(rng.randint(0, 4))]
        blocks.append({'name': rng.choice(BLOCK_NAMES), 'comment': gen_comment(rng), 'schema': gen_schema(rng),
                       'items': items})
    return {'kind': 'low', 'comment': gen_comment(rng, ascii_only=True), 'blocks': blocks}


def orcid(rng):
    digits = [rng.randint(0, 9) for _ in range(15)]
    total = 0
    for d in digits:
        total = (total + d) * 2
    res = (12 - total % 11) % 11
    s = ''.join(map(str, digits)) + ('X' if res == 10 else str(res))
    o = '-'.join(s[i:i + 4] for i in range(0, 16, 4))
    return o if rng.random() < 0.5 else 'https://orcid.org/' + o


def gen_person(rng):
    role = rng.choice([None, None, '', 'measurement', 'data reduction', gen_string(rng)])
    return {'name': rng.choice(['Jane Doe', 'Max Mustermann', "O'Neil", 'J\xfcrgen', gen_string(rng) or 'N']),
            'email': rng.choice([None, None, 'jane.doe@ess.eu', 'mm@scipp.eu']),
            'address': rng.choice([None, None, 'Partikelgatan, Lund', gen_string(rng)]),
            'orcid': rng.choice([None, orcid(rng)]), 'role': role, 'corresponding': rng.random() < 0.35}


CALL_KINDS = ['authors', 'reducers', 'beamline', 'powder', 'calib']


def gen_call(rng, k, small=False):
    """one `with_*` call of the high-level builder (small: short lists, for histories over many builders)"""
    if k == 'authors':
        return {'c': 'authors', 'persons': [gen_person(rng) for _ in range(rng.randint(1, 2 if small else 4))]}
    if k == 'reducers':
        return {'c': 'reducers', 'list': [rng.choice(['scippneutron 24.6.1', 'test-package', 'mantid 6.9', gen_string(rng)])
                                          for _ in range(rng.randint(1, 2 if small else 3))]}
    if k == 'beamline':
        fac = rng.choice([None] + FACILITIES + [gen_string(rng)])
        return {'c': 'beamline', 'name': rng.choice(['fake', 'DREAM', 'b l', gen_string(rng)]), 'facility': fac,
                'source': rng.choice([None, None, 0, 1, 2]), 'comment': gen_comment(rng)}
    if k == 'powder':
        n = rng.choice([1, 2, 3]) if small else rng.choice([1, 2, 3, 5, rng.randint(1, 50)])
        coord = sorted(abs(gen_float(rng)) % 1e6 for _ in range(n))
        data = [gen_float(rng) for _ in range(n)]
        data = [d if abs(d) < 1e200 else 1.0 for d in data]
        return {'c': 'powder', 'dim': rng.choice(['tof', 'dspacing']),
                'name': rng.choice([None, 'intensity_net', 'intensity_norm', 'intensity_total']),
                'coord': [hx(x) for x in coord],
                'coord_var': [hx(loguniform(rng, 1e-12, 1e3)) for _ in range(n)] if rng.random() < 0.3 else None,
                'data': [hx(x) for x in data],
                'data_var': [hx(rng.choice([0.0, loguniform(rng, 1e-12, 1e6)])) for _ in range(n)]
                if rng.random() < 0.6 else None,
                'unit': rng.choice(UNITS), 'comment': gen_comment(rng)}
    n = rng.randint(1, 3 if small else 5)
    return {'c': 'calib', 'powers': rng.sample([0, 1, 2, -1, 3, -2, 4, 10, -13], n),
            'coeffs': [hx(gen_float(rng)) for _ in range(n)],
            'var': [hx(loguniform(rng, 1e-12, 1e3)) for _ in range(n)] if rng.random() < 0.5 else None,
            'comment': gen_comment(rng)}


def gen_builder(rng):
    calls = []
    for _ in range(rng.randint(0, 5)):
        k = rng.choice(['authors', 'authors', 'reducers', 'beamline', 'powder', 'calib'])
        calls.append(gen_call(rng, k))
    return {'kind': 'builder', 'name': rng.choice(['my-data', 'reduced', 'n\xb5', 'x']), 'comment': gen_comment(rng),
            'calls': calls, 'saves': rng.choice([1, 1, 1, 2]),
            'override_comment': gen_comment(rng) if rng.random() < 0.15 else None}


FORK_NAMES = ['my-data', 'reduced', 'n\xb5', 'x', 'exp', 'sample-2']
FORK_SHAPES = ['siblings-same-call', 'siblings-mixed-calls', 'chain-and-branch', 'copy-then-extend', 'deep-tree']


def gen_fork(rng, shape=None, kind=None):
    """a HISTORY over several builders that share ancestors (see tools/harness/c14_impl.py:run_fork): a trunk of 0-2
    calls, 2-4 branches derived from the trunk's end or from any live builder (each branch 1-2 calls, all combinators,
    explicit copy()), results that are never saved, dropped references, name/comment setters on one builder, saves
    interleaved with the derivations and a final round of saves in random order (some builders twice, through
    CIF.save / save_cif / save_cif with its own comment)."""
    shape = shape or rng.choice(FORK_SHAPES)
    kind0 = kind or rng.choice(CALL_KINDS)
    ops = []
    live = [0]
    n_nodes = 1
    n_saves = 0

    def derive(parent, k):
        nonlocal n_nodes
        if k == 'copy':
            ops.append({'op': 'copy', 'parent': parent})
        else:
            ops.append({'op': 'derive', 'parent': parent, 'call': gen_call(rng, k, small=True)})
        live.append(n_nodes)
        n_nodes += 1
        return n_nodes - 1

    def save(node):
        nonlocal n_saves
        via = rng.choice(['save', 'save', 'save', 'save_cif', 'override'])
        op = {'op': 'save', 'node': node, 'via': via}
        if via == 'override':
            op['comment'] = gen_comment(rng)
        ops.append(op)
        n_saves += 1

    def maybe_between():
        r = rng.random()
        if r < 0.22 and n_saves < 3:
            save(rng.choice(live))
        elif r < 0.30:
            n = rng.choice(live)
            if rng.random() < 0.5:
                ops.append({'op': 'set_name', 'node': n, 'name': rng.choice(FORK_NAMES + ['renamed', 'r#2'])})
            else:
                ops.append({'op': 'set_comment', 'node': n, 'comment': gen_comment(rng)})

    base = 0
    for _ in range({'siblings-same-call': rng.choice([0, 1]), 'siblings-mixed-calls': rng.choice([0, 1]),
                    'chain-and-branch': 2, 'copy-then-extend': 1, 'deep-tree': 1}[shape]):
        base = derive(base, rng.choice(CALL_KINDS))
        maybe_between()
    n_branch = rng.choice([2, 2, 3, 4]) if shape != 'deep-tree' else 2
    for j in range(n_branch):
        if shape == 'siblings-same-call':
            parent, k = base, kind0
        elif shape == 'siblings-mixed-calls':
            parent, k = base, (kind0 if j == 0 else rng.choice(CALL_KINDS))
        elif shape == 'copy-then-extend':
            parent, k = (derive(base, 'copy') if rng.random() < 0.7 else base), rng.choice([kind0, rng.choice(CALL_KINDS)])
        else:
            parent, k = rng.choice(live), rng.choice([kind0, rng.choice(CALL_KINDS)])
        n = derive(parent, k)
        maybe_between()
        if rng.random() < (0.7 if shape == 'deep-tree' else 0.3):
            n2 = derive(n, rng.choice([k, rng.choice(CALL_KINDS)]))
            if shape == 'deep-tree':
                derive(n, rng.choice([kind0, rng.choice(CALL_KINDS)]))      # a sibling one level down
            maybe_between()
    # forget some builders (their derivation must not have changed anybody else)
    for n in list(live):
        if n != base and len(live) > 2 and rng.random() < 0.15:
            ops.append({'op': 'drop', 'node': n})
            live.remove(n)
    final = [n for n in live if n == base or rng.random() < 0.8]
    final += [n for n in live if rng.random() < 0.2]          # saved twice
    rng.shuffle(final)
    for n in final[:6]:
        save(n)
    return {'kind': 'fork', 'shape': shape, 'name': rng.choice(FORK_NAMES), 'comment': gen_comment(rng), 'ops': ops}


def fork_chains(doc):
    """what was supplied to each saved builder ALONG ITS OWN CHAIN: one straight-line builder document per save op"""
    state = [{'name': doc['name'], 'comment': doc.get('comment', ''), 'calls': []}]
    out = []
    for op in doc['ops']:
        o = op['op']
        if o in ('derive', 'copy'):
            p = state[op['parent']]
            state.append({'name': p['name'], 'comment': p['comment'],
                          'calls': p['calls'] + ([op['call']] if o == 'derive' else [])})
        elif o == 'set_name':
            state[op['node']]['name'] = op['name']
        elif o == 'set_comment':
            state[op['node']]['comment'] = op['comment']
        elif o == 'save':
            st = state[op['node']]
            out.append({'kind': 'builder', 'name': st['name'], 'comment': st['comment'], 'calls': list(st['calls']),
                        'saves': 1, 'override_comment': (op.get('comment') or None) if op.get('via') == 'override' else None})
    return out


def fork_profile(doc):
    """measured features of a history (coverage)"""
    parents = [op['parent'] for op in doc['ops'] if op['op'] in ('derive', 'copy')]
    saves = [op['node'] for op in doc['ops'] if op['op'] == 'save']
    kinds_by_parent = {}
    for op in doc['ops']:
        if op['op'] == 'derive':
            kinds_by_parent.setdefault(op['parent'], []).append(op['call']['c'])
    feats = set()
    for p, ks in kinds_by_parent.items():
        for k in set(ks):
            if ks.count(k) >= 2:
                feats.add(f'siblings:{k}+{k}')
        if len(set(ks)) >= 2:
            feats.add('siblings:mixed')
    if any(parents.count(p) >= 2 for p in parents) and any(p in saves for p in parents if parents.count(p) >= 2):
        feats.add('common-ancestor-saved')
    if len(saves) != len(set(saves)):
        feats.add('builder-saved-twice')
    n_nodes = 1 + len(parents)
    if any(n not in saves for n in range(1, n_nodes)):
        feats.add('derived-result-never-saved')
    if any(op['op'] == 'drop' for op in doc['ops']):
        feats.add('reference-dropped')
    if any(op['op'] == 'copy' for op in doc['ops']):
        feats.add('explicit-copy')
    if any(op['op'].startswith('set_') for op in doc['ops']):
        feats.add('setter-on-one-builder')
    first_save = next((i for i, op in enumerate(doc['ops']) if op['op'] == 'save'), None)
    last_derive = max((i for i, op in enumerate(doc['ops']) if op['op'] in ('derive', 'copy')), default=-1)
    if first_save is not None and first_save < last_derive:
        feats.add('save-between-derivations')
    if any(op['op'] == 'save' and op.get('via') != 'save' for op in doc['ops']):
        feats.add('via-save_cif')
    return feats


def systematic_forks():
    """every combinator as the differing call of two siblings of a common base, base saved before, between and after"""
    rng = random.Random(1414)
    out = []
    for k in CALL_KINDS:
        ops = [{'op': 'derive', 'parent': 0, 'call': gen_call(rng, 'beamline', small=True)},
               {'op': 'save', 'node': 1, 'via': 'save'},
               {'op': 'derive', 'parent': 1, 'call': gen_call(rng, k, small=True)},
               {'op': 'derive', 'parent': 1, 'call': gen_call(rng, k, small=True)},
               {'op': 'save', 'node': 3, 'via': 'save'}, {'op': 'save', 'node': 1, 'via': 'save'},
               {'op': 'save', 'node': 2, 'via': 'save'}, {'op': 'save', 'node': 0, 'via': 'save'}]
        out.append({'kind': 'fork', 'shape': 'systematic:' + k, 'name': 'exp', 'comment': '', 'ops': ops})
    return out


def single_pair(s, name='b', key='k'):
    return {'kind': 'low', 'comment': '', 'blocks': [{'name': name, 'comment': '', 'schema': None, 'items': [
        {'type': 'chunk', 'comment': '', 'schema': None, 'as_dict': True, 'pairs': [[key, {'s': s}]]}]}]}


def loop_first(s, flat=False):
    other = 'p q\nr' if flat else 'x'
    return {'kind': 'low', 'comment': '', 'blocks': [{'name': 'b', 'comment': '', 'schema': None, 'items': [
        {'type': 'loop', 'comment': '', 'schema': None,
         'columns': [['k', {'strs': [s, 'v2']}], ['m', {'strs': [other, s]}], ['n', {'ints': [1, 2]}]]}]}]}


def systematic():
    """(class key, doc) — every exemplar alone as a pair and as first/last loop column, plus structural probes"""
    out = []
    for cls, exs in EXEMPLARS.items():
        for s in exs:
            out.append((f'quote:{classify(s)}', single_pair(s), s))
            out.append((f'quote:{classify(s)}', loop_first(s), s))
            if cls in ('lead-semicolon', 'newline', 'quotes'):
                out.append((f'quote:{classify(s)}', loop_first(s, flat=True), s))
    # structural probes
    out.append(('block-code:empty', {'kind': 'low', 'comment': '', 'blocks': [{'name': '', 'comment': '', 'schema': None,
                                                                              'items': []}]}, ''))
    out.append(('block-code:empty', {'kind': 'builder', 'name': '', 'comment': '', 'calls': [], 'saves': 1,
                                     'override_comment': None}, ''))
    out.append(('ascii:save_cif-comment-not-escaped',
                {'kind': 'low', 'comment': 'file comment \xb5\xc5', 'blocks': [{'name': 'b', 'comment': '', 'schema': None,
                                                                               'items': []}]}, 'file comment \xb5\xc5'))
    out.append(('ascii:save_cif-comment-not-escaped',
                {'kind': 'low', 'comment': 'two\nlines \u4e2d', 'blocks': [{'name': 'b', 'comment': 'blk \xb5', 'schema': None,
                                                                          'items': []}]}, 'two\nlines \u4e2d'))
    out.append(('comment:multi-line', {'kind': 'low', 'comment': 'top\n_x 1\n\nloop_', 'blocks': [
        {'name': 'b', 'comment': 'some comment\n to describe the block', 'schema': ['core'], 'items': [
            {'type': 'chunk', 'comment': 'c1\nc2\n', 'schema': None, 'as_dict': False, 'pairs': [['a.b', {'s': 'v'}]]},
            {'type': 'loop', 'comment': '\n', 'schema': ['pd'], 'columns': [['l.a', {'strs': ['1', '2']}]]}]}]}, ''))
    out.append(('loop:ragged', {'kind': 'low', 'comment': '', 'blocks': [{'name': 'b', 'comment': '', 'schema': None, 'items': [
        {'type': 'loop', 'comment': '', 'schema': None,
         'columns': [['k', {'strs': ['a', 'b']}], ['m', {'ints': [1, 2, 3]}]]}]}]}, ''))
    out.append(('number:compact-format-overflow', {'kind': 'low', 'comment': '', 'blocks': [
        {'name': 'b', 'comment': '', 'schema': None, 'items': [
            {'type': 'chunk', 'comment': '', 'schema': None, 'as_dict': True,
             'pairs': [['k', {'fvar': [hx(1e300), hx(1e-300)]}]]}]}]}, '1e300 +- 1e-150'))
    out.append(('loop:max-shape', {'kind': 'low', 'comment': '', 'blocks': [{'name': 'b', 'comment': '', 'schema': None, 'items': [
        {'type': 'loop', 'comment': 'fifty by six', 'schema': None,
         'columns': [[f'c.{j}', {'strs': [f'r{i} c{j}' if (i + j) % 7 == 0 else f'r{i}c{j}' for i in range(50)]}]
                     for j in range(6)]}]}]}, ''))
    return out


def corpus_strings():
    out = ['']
    out += SPECIAL_ALPHABET
    out += [a + b for a in SPECIAL_ALPHABET for b in SPECIAL_ALPHABET]
    out += KEYWORDS
    out += ['a\n;b', '\n;a', 'a\n;', "a'\"", "'\"a", 'a b', 'a\tb', 'ab', '_ab', 'a_b']
    seen, res = set(), []
    for s in out:
        if s not in seen:
            seen.add(s)
            res.append(s)
    return res


# ------------------------------------------------------------------------------------------- per-run generation
def pre_build(ctx):
    """run the real package on the boundary corpus and write GenCorpus.v"""
    strings = corpus_strings()
    docs = [single_pair(s) for s in strings]
    res = ctx.run_impl('c14_impl.py', {'docs': docs, 'units': [], 'facilities': []})
    terms = [clow(d, r, res['core'], res['pd']) for d, r in zip(docs, res['docs'])]
    with open(os.path.join(ctx.build, 'GenCorpus.v'), 'w') as f:
        f.write('(* generated on this run by props/C14.py:pre_build from the real package *)\n'
                'From Coq Require Import String Ascii List NArith ZArith QArith.\n'
                'From Verif.C14 Require Import Cif11 Writer Check.\nImport ListNotations.\n'
                'Open Scope string_scope.\nOpen Scope list_scope.\n'
                'Definition corpus : list ucase := [\n' + ';\n'.join(terms) + '\n].\n')
    ctx._c14_corpus = (strings, res['docs'])


def _doc_strings(doc):
    """all supplied string values of a document with their classes"""
    vals = []
    if doc['kind'] == 'low':
        for b in doc['blocks']:
            for it in b['items']:
                if it['type'] == 'chunk':
                    for _, v in it['pairs']:
                        if 's' in v or 'sv' in v:
                            vals.append(v.get('s', v.get('sv')))
                else:
                    for _, c in it['columns']:
                        vals += c.get('strs', [])
    else:
        calls = doc['calls'] if doc['kind'] == 'builder' else [op['call'] for op in doc['ops'] if op['op'] == 'derive']
        for c in calls:
            if c['c'] == 'authors':
                for p in c['persons']:
                    vals += [p[k] for k in ('name', 'address', 'role') if p.get(k)]
            elif c['c'] == 'reducers':
                vals += c['list']
            elif c['c'] == 'beamline':
                vals += [c['name']] + ([c['facility']] if c.get('facility') else [])
    return vals


PRIORITY = F6_CLASSES + ['non-ascii', 'newline', 'quotes', 'empty', 'blank', 'missing', 'backslash', 'semicolon-inside', 'benign']


NUMBER_REASONS = ('number-token-charset', 'number-token-syntax', 'number-value', 'su-value', 'missing-su', 'unexpected-su',
                  'su-not-sqrt-variance', 'integer-form', 'integer-value', 'number-quoted', 'date-token')
VALUE_REASONS = ('not-valid-cif', 'string-value-differs', 'content-shape', 'tag-differs', 'extra-items', 'loop-tags-differ',
                 'loop-row-count', 'loop-row-length', 'impl-wrote-a-value-the-model-refuses', 'impl-raised', 'block-count',
                 'block-code-differs')


def failure_key(doc, why, failing_classes, label=None):
    """stable name of the failing input class: the systematic probe's label when the reason fits it, else derived"""
    base = why.split(':')[0]
    if base == 'text-differs-from-model':
        return 'model:text-differs-from-model'
    if label and label.startswith('comment:') and base != 'non-ascii-output':
        return f'{label}:{base}'        # systematic comment probes: everything but the comment is benign
    if base == 'non-ascii-output':
        return 'ascii:' + ('save_cif-comment-not-escaped' if any(ord(c) > 126 for c in doc.get('comment', '') or '')
                           and doc['kind'] == 'low' else 'output')
    if base in ('author-ids-not-distinct', 'role-ids-not-distinct', 'role-id-without-author'):
        return 'author-ids:' + base
    if base in ('ragged-loop-accepted', 'ragged-loop-wrong-exception'):
        return 'loop:' + base
    if base in NUMBER_REASONS:
        if label and label.startswith('number:') and base.startswith('number-token'):
            return label
        return 'number:' + base
    if base.startswith('schema-'):
        return 'schema:' + base
    empty_name = (doc['kind'] == 'low' and any(b['name'] == '' for b in doc['blocks'])) or \
                 (doc['kind'] == 'builder' and doc['name'] == '')
    if empty_name and base == 'not-valid-cif':
        return 'block-code:empty'
    if label and label.startswith('quote:') and base in VALUE_REASONS:
        cls = label.split(':', 1)[1]
        if cls in failing_classes:
            return label
    if label and not label.startswith(('quote:', 'number:', 'ascii:', 'block-code:')):
        return f'{label}:{base}'
    classes = {classify(s) for s in _doc_strings(doc)}
    if base in VALUE_REASONS:
        for k in PRIORITY:
            if k in classes and k in failing_classes:
                return f'quote:{k}'
    return f'{doc["kind"]}:{base}'


def _par(jobs):
    """run the given thunks concurrently (each one compiles its own shards with coqc); results in order"""
    import threading
    out = [None] * len(jobs)

    def run(i, job):
        try:
            out[i] = job()
        except Exception as ex:       # reported as a shard error by the caller
            out[i] = ({}, [('thread', repr(ex))])
    ts = [threading.Thread(target=run, args=(i, j)) for i, j in enumerate(jobs)]
    for t in ts:
        t.start()
    for t in ts:
        t.join()
    return out


BLD_FOOT = 'Eval vm_compute in (report (map (check_builder Rimpl core pd version spallation) cases)).\n'
FORK_WHAT = ('a builder that shares an ancestor with other builders (history of with_* calls on several builders derived '
             'from a common base) does not write what was supplied along ITS OWN chain of calls, although the same chain '
             'of calls written as one fluent expression does')


def _fork_isolation(ctx, hdr, res, chains):
    """for failing saves of fork histories: does the SAME chain of calls fail as one straight fluent chain, too?
    returns {i: reason or None}"""
    if not chains:
        return {}
    r2 = ctx.run_impl('c14_impl.py', {'docs': chains, 'units': UNITS, 'facilities': FACILITIES})
    terms = [cbuilder(d, r, r2['unit_str']) for d, r in zip(chains, r2['docs'])]
    fails, errs = ctx.coq_eval_shards(hdr, terms, lambda k: BLD_FOOT, shard=60, prefix='forkiso')
    if errs:
        ctx.note('isolation run of failing fork chains did not evaluate: ' + str(errs)[:300])
    return {i: fails.get(i) for i in range(len(chains))}


def correspondence(ctx):
    rng = random.Random(ctx.seed)
    quick = ctx.tier == 'quick'
    n_low, n_build, n_fork = (380, 170, 55) if quick else (7000, 2500, 400)
    sysd = systematic()
    # long comments (own random streams: the other documents of a seed do not depend on them)
    crng = random.Random(ctx.seed * 31 + 1408)
    sysd += long_comment_probes(crng, CIF_WIDTHS + LONG_WIDTHS + ([50000, 50000] if quick else []),
                                every_ep_widths=[5000] if quick else [5000, 50000],
                                many_lines=[100, 300, 3000] if quick else [100, 300, 1000, 3000, 10000],
                                random_style_widths=[2047, 2050, 5000] if quick else CIF_WIDTHS + [5000, 50000])
    low = [gen_low(rng, 50 if i % 10 == 0 else 8) for i in range(n_low)]
    bld = [gen_builder(rng) for _ in range(n_build)]
    frng = random.Random(ctx.seed * 7919 + 14)
    forks = systematic_forks() + [gen_fork(frng, shape=FORK_SHAPES[i % len(FORK_SHAPES)],
                                           kind=CALL_KINDS[(i // len(FORK_SHAPES)) % len(CALL_KINDS)])
                                  for i in range(n_fork)]
    n_sys_forks = len(systematic_forks())
    injected = {}
    for part, name in ((low, 'low'), (bld, 'builder'), (forks[n_sys_forks:], 'fork')):
        injected[name] = len(inject_long_comments(part, crng, 0.07))
    docs = [d for _, d, _ in sysd] + low + bld + forks
    labels = [k for k, _, _ in sysd] + [None] * (len(low) + len(bld) + len(forks))
    res = ctx.run_impl('c14_impl.py', {'docs': docs, 'units': UNITS, 'facilities': FACILITIES})
    core, pd = res['core'], res['pd']
    low_idx = [i for i, d in enumerate(docs) if d['kind'] == 'low']
    bld_idx = [i for i, d in enumerate(docs) if d['kind'] == 'builder']
    fork_idx = [i for i, d in enumerate(docs) if d['kind'] == 'fork']
    hdr = header(res, tie=os.path.exists(os.path.join(ctx.build, 'Tie.vo')))
    low_terms = [clow(docs[i], res['docs'][i], core, pd) for i in low_idx]
    bld_terms = [cbuilder(docs[i], res['docs'][i], res['unit_str']) for i in bld_idx]
    # fork histories: one builder case per save op = (that builder's own chain of calls, the text of that save)
    fork_cases = []                    # (doc index, save number, chain doc, observation)
    for i in fork_idx:
        chains = fork_chains(docs[i])
        obs = res['docs'][i].get('saves') if isinstance(res['docs'][i], dict) else None
        if obs is None or len(obs) != len(chains):
            obs = [{'error': res['docs'][i].get('error', 'HarnessError'), 'msg': res['docs'][i].get('msg', '')}] * len(chains)
        for j, (ch, o) in enumerate(zip(chains, obs)):
            fork_cases.append((i, j, ch, o))
    fork_terms = [cbuilder(ch, o, res['unit_str']) for _, _, ch, o in fork_cases]
    shard = 60
    (fails_low, err1), (fails_bld, err2), (fails_fork, err3) = _par([
        lambda: ctx.coq_eval_shards(
            hdr, low_terms, lambda k: 'Eval vm_compute in (report (map (check_case Rimpl core) cases)).\n',
            shard=shard, prefix='low'),
        lambda: ctx.coq_eval_shards(hdr, bld_terms, lambda k: BLD_FOOT, shard=shard, prefix='bld'),
        lambda: ctx.coq_eval_shards(hdr, fork_terms, lambda k: BLD_FOOT, shard=shard, prefix='fork')])
    for name, e in err1 + err2 + err3:
        ctx.violation('corr-shard-error', f'correspondence shard {name} did not evaluate: {e[:400]}',
                      {'shard': name, 'error': e}, found_input=False)
    fails = {low_idx[i]: w for i, w in fails_low.items()}
    fails.update({bld_idx[i]: w for i, w in fails_bld.items()})
    # classes that fail on their own: the systematic single-PAIR document of an exemplar of the class fails
    failing_classes = set()
    for i in fails:
        if i < len(sysd) and labels[i].startswith('quote:') and docs[i]['kind'] == 'low' and \
                docs[i]['blocks'][0]['items'] and docs[i]['blocks'][0]['items'][0]['type'] == 'chunk' and \
                fails[i].split(':')[0] in VALUE_REASONS:
            failing_classes.add(labels[i].split(':', 1)[1])
    per_key = {}
    for i, why in sorted(fails.items()):
        d = docs[i]
        key = failure_key(d, why, failing_classes, labels[i])
        per_key.setdefault(key, []).append(i)
        r = res['docs'][i]
        if key == 'model:text-differs-from-model':
            ctx.violation(key, 'the text written by the real package parses back to the supplied content but differs from the '
                               'text of the model writer (Writer.v) — the proofs no longer cover this source',
                          {'doc': d, 'reason': why, 'written': r}, found_input=False)
            continue
        what = (f'{key}: the text written by the real package '
                + ('is not read back by the independent CIF 1.1 parser as the supplied content' if 'text' in r
                   else f'could not be produced ({r.get("error")}: {r.get("msg", "")[:120]})')
                + f' [{why}]' + (f' value={sysd[i][2]!r}' if i < len(sysd) and sysd[i][2] else ''))
        ctx.violation(key, what, {'doc': d, 'reason': why, 'written': r})
    # failing saves of fork histories: a failure that the same chain shows as ONE fluent expression belongs to the
    # chain's own class (quoting, numbers, ...); otherwise it is a failure of the history (shared state between builders)
    fork_fail = sorted(fails_fork.items())
    iso = _fork_isolation(ctx, hdr, res, [fork_cases[n][2] for n, _ in fork_fail[:60]])
    for m, (n, why) in enumerate(fork_fail):
        i, j, ch, o = fork_cases[n]
        base = why.split(':')[0]
        alone = iso.get(m)
        if m in iso and alone is not None and alone.split(':')[0] == base:
            key = failure_key(ch, why, failing_classes, None)
            what = (f'{key}: the text written by the real package '
                    + ('is not read back by the independent CIF 1.1 parser as the supplied content' if 'text' in o
                       else f'could not be produced ({o.get("error")}: {o.get("msg", "")[:120]})') + f' [{why}]')
            rep = {'doc': ch, 'reason': why, 'written': o}
        else:
            key = f'fork:{base}'
            what = f'{key}: {FORK_WHAT} [save #{j} of the history: {why}]'
            rep = {'doc': docs[i], 'save': j, 'chain': ch, 'reason': why, 'written': o}
        per_key.setdefault(key, []).append(i)
        if key == 'model:text-differs-from-model':
            ctx.violation(key, 'the text written by the real package parses back to the supplied content but differs from the '
                               'text of the model writer (Writer.v) — the proofs no longer cover this source', rep,
                          found_input=False)
        else:
            ctx.violation(key, what, rep)
    # statistics: how many documents lie in the domain of the theorem for the detected rule
    in_dom = _domain_stats(ctx, hdr, len(low_terms), len(bld_terms), shard)
    strings = [s for d in docs for s in _doc_strings(d)]
    by_class = {}
    for s in strings:
        by_class[classify(s)] = by_class.get(classify(s), 0) + 1
    distinct = len({json.dumps(d, sort_keys=True) for d, r in zip(docs, res['docs']) if 'text' in r})
    distinct += len({json.dumps([docs[i], j], sort_keys=True) for i, j, _, o in fork_cases if 'text' in o})
    fork_feats = {}
    for i in fork_idx:
        for ft in fork_profile(docs[i]):
            fork_feats[ft] = fork_feats.get(ft, 0) + 1
    comment_eps, comment_classes = {}, {}
    for d in docs:
        for ep, box, key in comment_slots(d):
            cl = comment_class(box.get(key))
            if cl:
                comment_eps[ep] = comment_eps.get(ep, 0) + 1
                comment_classes[cl] = comment_classes.get(cl, 0) + 1
    samples = []
    for i in (0, 1, len(sysd) + 1, len(sysd) + len(low) + 1, len(docs) - 1):
        if i < len(docs):
            samples.append({'doc': docs[i], 'written': res['docs'][i], 'agreement': i not in fails and
                            not any(fork_cases[n][0] == i for n in fails_fork)})
    ctx.coverage.update({
        'evaluations': len(docs) - len(forks) + len(fork_cases) + len(getattr(ctx, '_c14_corpus', ([], []))[0]),
        'distinct_nontrivial': distinct,
        'rule': 'documents = systematic single-value probes (every exemplar of every input class as a pair and in loop '
                'columns, structural probes) + random low-level documents (1-3 blocks, chunks of 1-5 pairs, loops 1..50 x 1..6, '
                'comments incl. multi-line, schemas) + random builder call sequences (authors with/without roles and corresponding '
                'flag, reducers, beamline, powder data, calibration; save once or twice) + FORK HISTORIES over several builders '
                'derived from common ancestors (trunk of 0-2 calls, 2-4 branches from the same base or from any live builder with '
                'every combinator as the differing call, explicit copy(), results never saved, dropped references, name/comment '
                'setters on one builder, saves between derivations and a final round in random order, some builders twice, via '
                'CIF.save / save_cif / save_cif with its own comment; every save is one evaluation: the text must parse back to '
                'the content supplied along that builder\'s own chain); strings drawn from a grammar biased to '
                'leading _ # $ ; [ ] quotes, TAB/LF, quote+blank, CIF keywords, ? ., empty, non-ASCII; non-trivial = the package '
                'wrote a file (not an exception); distinct = distinct documents / (history, save) pairs; plus the boundary corpus '
                'for the quoting rule; LONG COMMENTS: at every entry point (save_cif(comment=), Block, Chunk, Loop, CIF(comment=), '
                'save_cif(builder, comment=), with_beamline / with_reduced_powder_data (with and without unit line) / '
                'with_powder_calibration comment=, and through random injection also the CIF.comment setter and every save of a '
                'fork history) one line of every length 2040..2060 (CIF 1.1 limit 2048), around 80/132/256/1024/4096, 5000 and '
                '50000 characters (without blanks, words with blanks/tabs, mixed stretches, non-periodic random words; alone, '
                'first, in the middle, last, with trailing newline, two long lines; text made of CIF tags/keywords), and comments '
                'of 100..3000 lines; 7% of the random documents get such a comment in one random slot',
        'samples': samples[:5],
        'documents': {'systematic': len(sysd), 'low_level': len(low), 'builder': len(bld), 'fork_histories': len(forks),
                      'fork_saves': len(fork_cases)},
        'fork_history_features': fork_feats,
        'comments_by_entry_point': comment_eps,
        'comments_by_longest_line': comment_classes,
        'documents_with_injected_long_comment': injected,
        'fork_shapes': {sh: sum(1 for f in forks if f.get('shape') == sh) for sh in sorted({f.get('shape') for f in forks})},
        'string_values_by_class': by_class,
        'string_values': len(strings),
        'in_theorem_domain': in_dom,
        'disagreements': len(fails) + len(fails_fork),
        'disagreement_keys': {k: len(v) for k, v in per_key.items()},
        'detected_rule': in_dom.get('rule') if isinstance(in_dom, dict) else None,
        'scippneutron_version': res.get('version'), 'scipp_version': res.get('scipp'),
    })


def _domain_stats(ctx, hdr, n_low, n_bld, shard):
    """one extra coqc run: how many cases satisfy the hypotheses of the write_then_parse theorem (coverage only)"""
    mods_low = [f'low_{k}' for k in range((n_low + shard - 1) // shard)]
    mods_bld = [f'bld_{k}' for k in range((n_bld + shard - 1) // shard)]
    mods = [m for m in mods_low + mods_bld if os.path.exists(os.path.join(ctx.build, m + '.vo'))]
    if not mods:
        return {}

    def one(m):
        # one small file per shard module, compiled concurrently (each re-parses the texts of its shard)
        term = (f'length (filter (in_domain core Pimpl) {m}.cases)' if m.startswith('low') else
                f'length (filter (fun b => in_domain core Pimpl (build core pd version spallation b)) {m}.cases)')
        with open(os.path.join(ctx.build, f'Stats_{m}.v'), 'w') as f:
            f.write(hdr + f'From Run Require {m}.\n' +
                    f'Eval vm_compute in (("count", ({term})%nat), ("fixed-rule", Tie.is_fixed), '
                    f'("current-rule", Tie.is_current)).\n')
        rc, out = ctx.coqc(f'Stats_{m}.v', timeout=600)
        mm = re.search(r'"count",\s*(\d+)(?:%nat)?,\s*\("fixed-rule",\s*(\w+)\),\s*\("current-rule",\s*(\w+)\)', out)
        if rc != 0 or not mm:
            return None, out[-300:]
        return (int(mm.group(1)), mm.group(2), mm.group(3)), ''
    import concurrent.futures
    with concurrent.futures.ThreadPoolExecutor(max_workers=12) as ex:
        got = list(ex.map(one, mods))
    bad = [msg for r, msg in got if r is None]
    if bad:
        ctx.note('domain statistics could not be computed: ' + bad[0])
        return {}
    low_n = sum(r[0] for (r, _), m in zip(got, mods) if m.startswith('low'))
    bld_n = sum(r[0] for (r, _), m in zip(got, mods) if m.startswith('bld'))
    fixed, current = got[0][0][1], got[0][0][2]
    return {'low_level_in_domain': low_n, 'builder_in_domain': bld_n,
            'rule': 'fixed' if fixed == 'true' else 'current' if current == 'true' else 'unrecognised'}


# ------------------------------------------------------------------------------------------- search / replay
def search(ctx, broken):
    """An obligation broke (the full write_then_parse statement does not hold for the rule the source implements, or
    the rule is not recognised).  The correspondence has already evaluated the property statement itself on the real
    package (write, then parse with the independent parser, inside Coq); its failures are the concrete inputs.  If it
    found none, replay the witnesses of the refutation lemmas and further single-value probes on the implementation."""
    try:                                  # a KNOWN finding is not the failing input of a broken obligation
        import vlib
        known = {k for (p, k) in vlib.load_known() if p == ID}
    except Exception:
        known = set()
    found = [v for v in ctx.violations if v.found_input and v.key not in known]
    if found:
        return [v.replay for v in found]
    rng = random.Random(ctx.seed + 7)
    stages = [_search_values, _search_comments]
    if any('comment' in str(b).lower() for b in broken):
        stages.reverse()
    for stage in stages:
        out = stage(ctx, rng)
        if out:
            return out
    return _search_builder(ctx, rng)


def _search_comments(ctx, rng):
    """comments: sweep of the line length (every power of two 32..65536 and its neighbours, every length 2040..2060, the
    other limits a writer may know of, 5000, 50000; with and without blanks; every place among short lines) and of the
    number of lines (2..4096, 10000) at every entry point that takes a comment, plus random documents in which one
    random comment slot holds a long comment.  Property statement per document: the text parses (independent parser,
    inside Coq) to exactly the supplied content — nothing of a comment is read as data."""
    widths = sorted({2 ** k + d for k in range(5, 17) for d in (-1, 0, 1)} | set(CIF_WIDTHS) | set(LONG_WIDTHS)
                    | {5000, 50000, 3 * 2046, 2 * 2048 + 1})
    probes = long_comment_probes(rng, widths, every_ep_widths=[2047, 5000],
                                 many_lines=[2 ** k for k in range(1, 13)] + [3000, 10000],
                                 random_style_widths=[81, 133, 1025, 2047, 2049, 4097, 5000])
    n_rand = 60 if ctx.tier == 'quick' else 400
    rnd = [gen_low(rng, 8) if i % 2 else gen_builder(rng) for i in range(n_rand)]
    inject_long_comments(rnd, rng, 1.0)
    docs = [d for _, d, _ in probes] + rnd
    labels = [k for k, _, _ in probes] + [None] * len(rnd)
    descr = [t for _, _, t in probes] + [''] * len(rnd)
    res = ctx.run_impl('c14_impl.py', {'docs': docs, 'units': UNITS, 'facilities': FACILITIES})
    hdr = header(res, tie=False)
    low_idx = [i for i, d in enumerate(docs) if d['kind'] == 'low']
    bld_idx = [i for i, d in enumerate(docs) if d['kind'] == 'builder']
    (f_low, e1), (f_bld, e2) = _par([
        lambda: ctx.coq_eval_shards(hdr, [clow(docs[i], res['docs'][i], res['core'], res['pd']) for i in low_idx],
                                    lambda k: 'Eval vm_compute in (report (map (check_case Rfixed core) cases)).\n',
                                    shard=30, prefix='searchc_low'),
        lambda: ctx.coq_eval_shards(hdr, [cbuilder(docs[i], res['docs'][i], res['unit_str']) for i in bld_idx],
                                    lambda k: 'Eval vm_compute in (report (map (check_builder Rfixed core pd version '
                                              'spallation) cases)).\n', shard=30, prefix='searchc_bld')])
    if e1 or e2:
        ctx.note('search (comments): shards did not evaluate: ' + str(e1 + e2)[:300])
    fails = {low_idx[i]: w for i, w in f_low.items()}
    fails.update({bld_idx[i]: w for i, w in f_bld.items()})
    out = []
    for i, why in sorted(fails.items()):
        if why.startswith('text-differs-from-model'):
            continue
        key = failure_key(docs[i], why, set(), labels[i])
        if labels[i] is None and key.split(':')[0] in ('low', 'builder'):
            key = 'comment:long:' + why.split(':')[0]
        r = res['docs'][i]
        ctx.violation(key, f'{key}: the text written by the real package '
                      + ('is not read back by the independent CIF 1.1 parser as the supplied content' if 'text' in r
                         else f'could not be produced ({r.get("error")}: {r.get("msg", "")[:120]})')
                      + f' [{why}]' + (f' ({descr[i]})' if descr[i] else ''),
                      {'doc': docs[i], 'reason': why, 'written': r})
        out.append(docs[i])
    return out


def _search_values(ctx, rng):
    """single string values: the witnesses of the refutation lemmas and random strings, alone as a pair and in a loop"""
    cands = ['_tag', '#c', '$x', '[a]', ']a', ';abc', 'a\tb', 'loop_', 'data_x', 'save_x', 'global_', 'stop_', 'a\n;b']
    cands += [gen_string(rng) for _ in range(300)]
    docs = [single_pair(s) for s in cands] + [loop_first(s) for s in cands]
    res = ctx.run_impl('c14_impl.py', {'docs': docs, 'units': [], 'facilities': []})
    terms = [clow(d, r, res['core'], res['pd']) for d, r in zip(docs, res['docs'])]
    # Rfixed as reference: parse-back does not depend on the rule, only the refusal expectation does
    fails, errs = ctx.coq_eval_shards(header(res, tie=False), terms,
                                      lambda k: 'Eval vm_compute in (report (map (check_case Rfixed core) cases)).\n',
                                      shard=100, prefix='search')
    out = []
    for i, why in sorted(fails.items()):
        if why.startswith('text-differs-from-model'):
            continue
        s = cands[i % len(cands)]
        key = f'quote:{classify(s)}'
        ctx.violation(key, f'{key}: value {s!r} written by the real package is not read back [{why}]',
                      {'doc': docs[i], 'reason': why, 'written': res['docs'][i]})
        out.append(docs[i])
    return out


def _search_builder(ctx, rng):
    # builder level: more call sequences and more histories over builders with common ancestors (other seed, every
    # shape x every combinator), the property statement evaluated per save: parse back = that builder's own chain
    n_b, n_f = (150, 200) if ctx.tier == 'quick' else (600, 1500)
    blds = [gen_builder(rng) for _ in range(n_b)]
    forks = systematic_forks() + [gen_fork(rng, shape=FORK_SHAPES[i % len(FORK_SHAPES)],
                                           kind=CALL_KINDS[(i // len(FORK_SHAPES)) % len(CALL_KINDS)]) for i in range(n_f)]
    inject_long_comments(blds, rng, 0.15)
    inject_long_comments(forks[len(systematic_forks()):], rng, 0.15)
    res = ctx.run_impl('c14_impl.py', {'docs': blds + forks, 'units': UNITS, 'facilities': FACILITIES})
    cases = [(d, None, d, r) for d, r in zip(blds, res['docs'][:len(blds)])]
    for d, r in zip(forks, res['docs'][len(blds):]):
        chains = fork_chains(d)
        obs = r.get('saves') or []
        if len(obs) != len(chains):
            obs = [{'error': r.get('error', 'HarnessError'), 'msg': r.get('msg', '')}] * len(chains)
        cases += [(d, j, ch, o) for j, (ch, o) in enumerate(zip(chains, obs))]
    terms = [cbuilder(ch, o, res['unit_str']) for _, _, ch, o in cases]
    hdr = header(res, tie=False)
    fails, errs = ctx.coq_eval_shards(
        hdr, terms, lambda k: 'Eval vm_compute in (report (map (check_builder Rfixed core pd version spallation) cases)).\n',
        shard=60, prefix='searchb')
    fails = {i: w for i, w in fails.items() if not w.startswith('text-differs-from-model')}
    fork_fail = [(i, w) for i, w in sorted(fails.items()) if cases[i][1] is not None]
    iso = {}
    if fork_fail:
        chains = [cases[i][2] for i, _ in fork_fail[:60]]
        r2 = ctx.run_impl('c14_impl.py', {'docs': chains, 'units': UNITS, 'facilities': FACILITIES})
        f2, _ = ctx.coq_eval_shards(
            hdr, [cbuilder(d, r, r2['unit_str']) for d, r in zip(chains, r2['docs'])],
            lambda k: 'Eval vm_compute in (report (map (check_builder Rfixed core pd version spallation) cases)).\n',
            shard=60, prefix='searchiso')
        iso = {fork_fail[m][0]: f2.get(m) for m in range(len(chains))}
    for i, why in sorted(fails.items()):
        d, j, ch, o = cases[i]
        base = why.split(':')[0]
        if j is not None and not (iso.get(i) or '').startswith(base):
            key = f'fork:{base}'
            ctx.violation(key, f'{key}: {FORK_WHAT} [save #{j} of the history: {why}]',
                          {'doc': d, 'save': j, 'chain': ch, 'reason': why, 'written': o})
        else:
            key = failure_key(ch, why, set(), None)
            ctx.violation(key, f'{key}: the text written by the real package for a sequence of builder calls is not read back '
                               f'by the independent CIF 1.1 parser as the supplied content [{why}]',
                          {'doc': ch, 'reason': why, 'written': o})
        out.append(d)
    return out


def replay(ctx, obj):
    rep = obj['replay']
    doc = rep.get('doc')
    if not doc:
        print(json.dumps(obj, indent=1))
        return 0
    res = ctx.run_impl('c14_impl.py', {'docs': [doc], 'units': UNITS, 'facilities': FACILITIES})
    r = res['docs'][0]
    if doc['kind'] == 'fork':
        print('history over builders with common ancestors (node 0 = CIF(name, comment=comment)):')
        print(json.dumps(doc, ensure_ascii=True)[:3000])
        chains = fork_chains(doc)
        obs = r.get('saves') or []
        if len(obs) != len(chains):
            print('the history could not be run:', r)
            return 1
        j = rep.get('save', 0)
        print(f'save #{j}: supplied along the chain of the saved builder:', json.dumps(chains[j], ensure_ascii=True)[:2000])
        print('the real package', 'wrote:' if 'text' in obs[j] else 'raised:')
        print(obs[j].get('text', f"{obs[j].get('error')}: {obs[j].get('msg')}"))
    else:
        print('supplied document:', json.dumps(doc, ensure_ascii=True)[:2000])
        print('the real package', 'wrote:' if 'text' in r else 'raised:')
        print(r.get('text', f"{r.get('error')}: {r.get('msg')}"))
    import shutil
    ctx.prepare_build()
    pre_build(ctx)
    shutil.copy(os.path.join(os.path.dirname(os.path.dirname(ctx.build)), 'coq-run', 'C14', 'Tie.v'),
                os.path.join(ctx.build, 'Tie.v'))
    tie_ok = True
    for f in GEN_FILES + ['Tie.v']:
        rc, out = ctx.coqc(f)
        if rc != 0:
            tie_ok = False
            print('[note] the quoting rule of this source is not one of the two modelled ones; the repaired rule is the reference')
            break
    if doc['kind'] == 'low':
        terms, foot = [clow(doc, r, res['core'], res['pd'])], 'report (map (check_case Rimpl core) cases)'
    elif doc['kind'] == 'fork':
        terms = [cbuilder(ch, o, res['unit_str']) for ch, o in zip(chains, obs)]
        foot = 'report (map (check_builder Rimpl core pd version spallation) cases)'
    else:
        terms, foot = [cbuilder(doc, r, res['unit_str'])], 'report (map (check_builder Rimpl core pd version spallation) cases)'
    fails, errs = ctx.coq_eval_shards(header(res, tie=tie_ok), terms, lambda k: f'Eval vm_compute in ({foot}).\n', prefix='replay')
    if errs:
        print('Coq evaluation failed:', errs)
        return 2
    if fails:
        print('required: the independent CIF 1.1 parser returns the content supplied to the saved builder and the text '
              'equals the model; observed:', '; '.join(f'save #{k}: {w}' for k, w in sorted(fails.items()))
              if doc['kind'] == 'fork' else fails[0])
        return 1
    print('required behaviour observed: the text parses back to the supplied content')
    return 0
